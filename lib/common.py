"""Common frame: scratch copies of /repo, evidence files, exit codes, known findings."""
import atexit
import hashlib
import json
import os
import shutil
import subprocess
import sys
import time

VERIF = os.path.dirname(os.path.dirname(os.path.abspath(__file__)))
REPO = os.environ.get("VERIF_REPO", "/repo")
T0 = time.time()

EXIT_OK, EXIT_VIOLATION, EXIT_INCONCLUSIVE = 0, 1, 2


class Inconclusive(Exception):
    """The run could not decide (time-out, encoding no longer matches the source, ...)."""


def tier():
    t = os.environ.get("VERIF_TIER", "quick")
    return t if t in ("quick", "thorough") else "quick"


def seed():
    try:
        return int(os.environ.get("VERIF_SEED", "0"))
    except ValueError:
        return 0


_scratch = None


def scratch_root():
    """Per-process scratch dir outside /repo and /verif; removed at exit."""
    global _scratch
    if _scratch is None:
        base = os.environ.get("VERIF_SCRATCH", "/var/tmp")
        _scratch = os.path.join(base, "fclones-verif.%d" % os.getpid())
        shutil.rmtree(_scratch, ignore_errors=True)
        os.makedirs(_scratch)
        if not os.environ.get("VERIF_KEEP"):
            atexit.register(lambda: shutil.rmtree(_scratch, ignore_errors=True))
    return _scratch


def copy_repo(name="src"):
    """rsync /repo's working tree (no target/, no .git) into the scratch dir."""
    dst = os.path.join(scratch_root(), name)
    os.makedirs(dst, exist_ok=True)
    subprocess.check_call(
        ["rsync", "-a", "--delete", "--exclude", "/target", "--exclude", ".git",
         REPO + "/", dst + "/"])
    return dst


def tree_hash(root):
    """Hash of the fclones sources + Cargo files of a copy (content-addressed caches)."""
    h = hashlib.sha256()
    for sub in ("fclones/src", "fclones/Cargo.toml", "Cargo.toml", "Cargo.lock"):
        p = os.path.join(root, sub)
        if os.path.isdir(p):
            for dp, dn, fn in sorted(os.walk(p)):
                dn.sort()
                for f in sorted(fn):
                    fp = os.path.join(dp, f)
                    h.update(os.path.relpath(fp, root).encode())
                    h.update(open(fp, "rb").read())
        elif os.path.exists(p):
            h.update(sub.encode())
            h.update(open(p, "rb").read())
    return h.hexdigest()[:16]


def text_hash(s):
    return hashlib.sha256(s.encode() if isinstance(s, str) else s).hexdigest()[:12]


def cargo_env(extra=None):
    env = dict(os.environ)
    env["CARGO_NET_OFFLINE"] = "true"
    env.pop("RUSTFLAGS", None)
    env.pop("CARGO_TARGET_DIR", None)
    if extra:
        env.update(extra)
    return env


# ---------------------------------------------------------------- known findings

def load_known_findings():
    """known_findings.txt: lines `finding: property=<id> key=<role key> <text>` or
    `fixed: property=<id> <commit> <text>` (fixed lines suppress nothing)."""
    res = []
    p = os.path.join(VERIF, "known_findings.txt")
    if not os.path.exists(p):
        return res
    for line in open(p):
        line = line.strip()
        if not line.startswith("finding:"):
            continue
        parts = line[len("finding:"):].split()
        d = {"text": line}
        for w in parts:
            if w.startswith("property="):
                d["property"] = w.split("=", 1)[1]
            elif w.startswith("key="):
                d["key"] = w.split("=", 1)[1]
        if "property" in d and "key" in d:
            res.append(d)
    return res


# ---------------------------------------------------------------- results

class Obligation:
    """One solver-decided obligation and its verdict."""

    def __init__(self, name, engine, functions=None, bounds=None):
        self.name = name
        self.engine = engine
        self.functions = functions or []
        self.bounds = bounds or ""
        self.verdict = None      # 'holds' | 'violated' | 'inconclusive' | 'known-finding'
        self.detail = ""
        self.queries = 0
        self.solver_s = 0.0
        self.witness = None      # vacuity witness result
        self.sample = None
        self.stats = {}
        self.cex = None          # concrete counterexample (dict) if any
        self.key = None          # role key for known-findings matching

    def to_json(self):
        d = {"obligation": self.name, "engine": self.engine, "functions": self.functions,
             "bounds": self.bounds, "verdict": self.verdict, "queries": self.queries,
             "solver_s": round(self.solver_s, 2)}
        if self.detail:
            d["detail"] = self.detail
        if self.witness is not None:
            d["vacuity_witness"] = self.witness
        if self.sample is not None:
            d["sample"] = self.sample
        if self.stats:
            d["stats"] = self.stats
        if self.cex is not None:
            d["counterexample"] = self.cex
        if self.key:
            d["finding_key"] = self.key
        return d


class Report:
    """Collects obligations of one property, writes evidence, computes the exit code."""

    def __init__(self, prop, level, explanation, assumptions=None, outside=None):
        self.prop = prop
        self.level = level
        self.explanation = explanation
        self.assumptions = assumptions or []
        self.outside = outside or []
        self.obls = []
        self.extra = {}
        self.lines = []

    def add(self, o):
        # A counterexample of the symbolic engines is reported as a violation only after it was reproduced against the real
        # build (native replay); otherwise the encoding (a havocked call, a missing summary) may be at fault: inconclusive.
        if o.verdict == "violated" and not o.stats.get("traces_validated") and not os.environ.get("VERIF_NO_REPLAY_GATE"):
            o.verdict = "inconclusive"
            o.detail = "solver counterexample without native confirmation (not reported as a violation): " + (o.detail or "")
        self.obls.append(o)
        say("  [%s] %-44s %-13s q=%d t=%.1fs %s" % (
            self.prop, o.name, o.verdict, o.queries, o.solver_s, o.detail[:140]))
        return o

    def finish(self):
        known = load_known_findings()
        violations, inconclusive, kf = [], [], []
        for o in self.obls:
            if o.verdict == "violated":
                match = [k for k in known if k["property"] == self.prop and k["key"] == o.key]
                if match:
                    o.verdict = "known-finding"
                    kf.append((o, match[0]))
                else:
                    violations.append(o)
            elif o.verdict == "inconclusive":
                inconclusive.append(o)
        evdir = os.environ.get("VERIF_EVIDENCE_DIR") or os.path.join(VERIF, "evidence")
        os.makedirs(evdir, exist_ok=True)
        replay_paths = []
        for o in violations:
            rp = os.path.join(evdir, "replay", "%s_%s.json" % (self.prop, o.name.replace("/", "_").replace(" ", "_")))
            os.makedirs(os.path.dirname(rp), exist_ok=True)
            with open(rp, "w") as f:
                json.dump({"property": self.prop, "obligation": o.name, "key": o.key,
                           "counterexample": o.cex, "detail": o.detail}, f, indent=1, default=str)
            replay_paths.append(rp)
        nq = sum(o.queries for o in self.obls)
        cov = {
            "explanation": self.explanation,
            "obligations": len(self.obls),
            "discharged": sum(1 for o in self.obls if o.verdict == "holds"),
            "known_findings": len(kf),
            "inconclusive": len(inconclusive),
            "solver_queries": nq,
            "solver_time_s": round(sum(o.solver_s for o in self.obls), 2),
            "evaluations": max(nq, 1),
            "distinct_nontrivial": max(len([o for o in self.obls if o.verdict in ("holds", "known-finding", "violated")]), 0),
            "rule": "one evaluation = one solver query (SMT check-sat or one CBMC run of a Kani harness); "
                    "an obligation is non-trivial when its vacuity witness was reachable and the solver returned a verdict",
            "functions_encoded": sorted({f for o in self.obls for f in o.functions}),
            "samples": [o.to_json() for o in self.obls][:60],
            "outside_the_claim": self.outside,
            "exhaustive": False,
            "trusted_base": ["rustc MIR dump / Kani+CBMC translation of the real code", "z3 5.1", "summaries of std functions listed per obligation"],
        }
        cov.update(self.extra)
        if self.level == "model_checking":
            st = sum(int(o.stats.get("states", 0)) for o in self.obls)
            tr = sum(int(o.stats.get("transitions", 0)) for o in self.obls)
            cov["states"] = max(st, 1)
            cov["transitions"] = max(tr, 1)
            cov["traces_validated_against_impl"] = sum(int(o.stats.get("traces_validated", 0)) for o in self.obls)
        ev = {
            "property_id": self.prop, "tier": tier(), "seed": seed(), "level": self.level,
            "coverage": cov, "assumptions": self.assumptions,
            "wall_s": round(time.time() - T0, 1), "violations": len(violations),
        }
        with open(os.path.join(evdir, self.prop + ".json"), "w") as f:
            json.dump(ev, f, indent=1, default=str)
        for o, k in kf:
            print("KNOWN-FINDING: property=%s %s [%s]" % (self.prop, k["text"].split("key=" + k["key"], 1)[-1].strip(), o.name))
        for o, rp in zip(violations, replay_paths):
            print("VIOLATION property=%s replay=%s" % (self.prop, rp))
            print("  obligation %s: %s" % (o.name, o.detail))
        if violations:
            return EXIT_VIOLATION
        if inconclusive:
            for o in inconclusive:
                print("INCONCLUSIVE property=%s obligation=%s: %s" % (self.prop, o.name, o.detail))
            return EXIT_INCONCLUSIVE
        print("OK property=%s obligations=%d discharged=%d known_findings=%d queries=%d wall=%.0fs" % (
            self.prop, len(self.obls), cov["discharged"], len(kf), nq, time.time() - T0))
        return EXIT_OK


def say(*a):
    print(*a, file=sys.stderr, flush=True)
