"""String summaries for mirsym: strings are lists of symbolic bytes with a concrete length.

UTF-8 decoding of symbolic bytes forks on the byte classes (pruned by the path condition).  The dependency `stfu8`
(encode_u8 / decode_u8, which uses the regex crate at run time) is replaced by a reference model written from its
source / documented grammar; the model is validated against the real crate natively (obligations/C17.py)."""
import re

import z3

import mirparse
from common import Inconclusive
from mirsym import (Agg, Bool, EnumV, FnV, Int, Lazy, ListV, Opaque, Ref, Str, Unit, V, strip_generics,
                    strip_generics_keep_as, is_ref_type, Engine, State)
from summaries import deref_val, meth_name

B8 = lambda v: z3.BitVecVal(v, 8)


def inr(b, lo, hi):
    return z3.And(z3.UGE(b, B8(lo)), z3.ULE(b, B8(hi)))


def isconst(b):
    sb = z3.simplify(b)
    return sb.as_long() if z3.is_bv_value(sb) else None


class Alts:
    """helper to build forking alternatives with feasibility pruning"""

    def __init__(self, e, st):
        self.e, self.st = e, st

    def feasible(self, conds):
        conds = [c for c in conds if c is not None]
        if not conds:
            return True
        c = z3.simplify(z3.And(*conds))
        if z3.is_false(c):
            return False
        if z3.is_true(c):
            return True
        return self.e.feasible(self.st, c)


def first_char_alts(al, items, i, conds, lossy=True):
    """Decode one UTF-8 scalar (or an invalid chunk) at position i following std's Utf8Chunks rules.
    -> list of (conds', kind 'char'|'bad', nbytes, code point term or None)"""
    n = len(items)
    out = []
    b0 = items[i]

    def add(extra, kind, k, cp):
        cs = conds + [extra]
        if al.feasible(cs):
            out.append((cs, kind, k, cp))
    z = lambda x, w=32: z3.ZeroExt(w - 8, x)
    add(z3.ULT(b0, B8(0x80)), "char", 1, z(b0))
    # invalid lead bytes
    add(z3.Or(inr(b0, 0x80, 0xC1), z3.UGE(b0, B8(0xF5))), "bad", 1, None)
    # 2-byte
    c2 = inr(b0, 0xC2, 0xDF)
    if i + 1 < n:
        b1 = items[i + 1]
        cont1 = inr(b1, 0x80, 0xBF)
        add(z3.And(c2, cont1), "char", 2, ((z(b0) & 0x1F) << 6) | (z(b1) & 0x3F))
        add(z3.And(c2, z3.Not(cont1)), "bad", 1, None)
    else:
        add(c2, "bad", 1, None)
    # 3-byte
    c3 = inr(b0, 0xE0, 0xEF)
    if i + 1 < n:
        b1 = items[i + 1]
        ok1 = z3.Or(z3.And(b0 == B8(0xE0), inr(b1, 0xA0, 0xBF)), z3.And(inr(b0, 0xE1, 0xEC), inr(b1, 0x80, 0xBF)),
                    z3.And(b0 == B8(0xED), inr(b1, 0x80, 0x9F)), z3.And(inr(b0, 0xEE, 0xEF), inr(b1, 0x80, 0xBF)))
        add(z3.And(c3, z3.Not(ok1)), "bad", 1, None)
        if i + 2 < n:
            b2 = items[i + 2]
            cont2 = inr(b2, 0x80, 0xBF)
            add(z3.And(c3, ok1, cont2), "char", 3, ((z(b0) & 0x0F) << 12) | ((z(b1) & 0x3F) << 6) | (z(b2) & 0x3F))
            add(z3.And(c3, ok1, z3.Not(cont2)), "bad", 2, None)
        else:
            add(z3.And(c3, ok1), "bad", 2, None)
    else:
        add(c3, "bad", 1, None)
    # 4-byte
    c4 = inr(b0, 0xF0, 0xF4)
    if i + 1 < n:
        b1 = items[i + 1]
        ok1 = z3.Or(z3.And(b0 == B8(0xF0), inr(b1, 0x90, 0xBF)), z3.And(inr(b0, 0xF1, 0xF3), inr(b1, 0x80, 0xBF)),
                    z3.And(b0 == B8(0xF4), inr(b1, 0x80, 0x8F)))
        add(z3.And(c4, z3.Not(ok1)), "bad", 1, None)
        if i + 2 < n:
            b2 = items[i + 2]
            cont2 = inr(b2, 0x80, 0xBF)
            add(z3.And(c4, ok1, z3.Not(cont2)), "bad", 2, None)
            if i + 3 < n:
                b3 = items[i + 3]
                cont3 = inr(b3, 0x80, 0xBF)
                add(z3.And(c4, ok1, cont2, cont3), "char", 4,
                    ((z(b0) & 0x07) << 18) | ((z(b1) & 0x3F) << 12) | ((z(b2) & 0x3F) << 6) | (z(b3) & 0x3F))
                add(z3.And(c4, ok1, cont2, z3.Not(cont3)), "bad", 3, None)
            else:
                add(z3.And(c4, ok1, cont2), "bad", 3, None)
        else:
            add(z3.And(c4, ok1), "bad", 2, None)
    else:
        add(c4, "bad", 1, None)
    return out


def decode_all(al, items):
    """-> list of (conds, tokens) ; tokens: list of (kind, start, nbytes, cp)"""
    res = []
    work = [([], 0, [])]
    while work:
        conds, i, toks = work.pop()
        if i >= len(items):
            res.append((conds, toks))
            continue
        for cs, kind, k, cp in first_char_alts(al, items, i, conds):
            work.append((cs, i + k, toks + [(kind, i, k, cp)]))
        if len(res) + len(work) > 4000:
            raise Inconclusive("UTF-8 decoding of a symbolic string forks too much")
    return res


def and_or_none(conds):
    conds = [c for c in conds if c is not None]
    if not conds:
        return None
    return z3.And(*conds)


# ------------------------------------------------------------------ summaries

def as_str(e, st, v):
    v = deref_val(e, st, v)
    if isinstance(v, Str):
        return v
    if isinstance(v, Agg) and 0 in v.fields and isinstance(v.fields[0], Str):     # Arg(OsString), newtypes
        return v.fields[0]
    return None


def s_to_string_lossy(e, st, callee, args, dty):
    s = as_str(e, st, args[0])
    if s is None:
        return NotImplemented
    al = Alts(e, st)
    out = []
    for conds, toks in decode_all(al, list(s.items)):
        items = []
        for kind, i, k, cp in toks:
            if kind == "char":
                items += list(s.items[i:i + k])
            else:
                items += [B8(0xEF), B8(0xBF), B8(0xBD)]
        out.append((and_or_none(conds), Str(items, "cow")))
    return out


def s_str_identity(e, st, callee, args, dty):
    s = as_str(e, st, args[0])
    if s is None:
        return NotImplemented
    return Str(s.items, s.kind)


def s_str_ref_identity(e, st, callee, args, dty):
    """&String -> &str etc.: keep the reference"""
    s = as_str(e, st, args[0])
    if s is None:
        return NotImplemented
    return args[0]


def s_chars(e, st, callee, args, dty):
    s = as_str(e, st, args[0])
    if s is None:
        return NotImplemented
    return Agg("Chars", {0: Str(s.items, "chars")})


def next_char_alts(e, st, s):
    """-> [(cond, Some(char Int)/None, rest items)]"""
    if not s.items:
        return [(None, None, ())]
    al = Alts(e, st)
    out = []
    for cs, kind, k, cp in first_char_alts(al, list(s.items), 0, []):
        if kind != "char":
            continue      # `str` is valid UTF-8 by its type invariant
        out.append((and_or_none(cs), Int(cp, "char"), s.items[k:]))
    return out


def s_chars_next(e, st, callee, args, dty):
    r = args[0]
    it = deref_val(e, st, r)
    if not (isinstance(it, Agg) and it.ty == "Chars" and isinstance(r, Ref)):
        return NotImplemented
    s = it.fields[0]
    out = []
    alts = next_char_alts(e, st, s)
    if len(alts) == 1:
        c, ch, rest = alts[0]
        e.store(st, r.cell, r.path, Agg("Chars", {0: Str(rest, "chars")}))
        v = EnumV("Option", "None", 0, {}) if ch is None else EnumV("Option", "Some", 1, {0: ch})
        return [(c, v)]
    # several feasible leading bytes: the iterator state differs per alternative -> encode the rest length in the value
    # (finish_call stores into `dest` only; so fork by returning a special alternative list with side effects)
    res = []
    for c, ch, rest in alts:
        res.append((c, ("store", r, Agg("Chars", {0: Str(rest, "chars")}), EnumV("Option", "Some", 1, {0: ch}))))
    return ("multi", res)


def closure_bool(e, st, clo, argvals):
    """evaluate a (loop-free) closure returning bool on symbolic arguments -> z3 Bool"""
    clo = deref_val(e, st, clo)
    span = clo.ty if isinstance(clo, Agg) else (clo.name if isinstance(clo, FnV) else None)
    if span is None or "closure" not in span:
        raise Inconclusive("not a closure: %r" % (clo,))
    if isinstance(clo, FnV):
        clo = Agg(span, {})
    cf = e.prog.closure_by_span(span)
    if cf is None:
        raise Inconclusive("closure %s not in MIR" % span)
    sub = Engine(e.prog, inline=e.inline, summaries=e.summaries, unroll=8, inline_all=e.inline_all)
    mem = dict(st.mem)
    a0 = clo
    if cf.args and is_ref_type(cf.args[0][1]):
        mem["clo:cell:%d" % st.counter] = clo
        a0 = Ref("clo:cell:%d" % st.counter, (), True)
    paths = sub.run(cf, args=[a0] + list(argvals), pre=list(st.pc), mem=mem)
    e.encoded.update(sub.encoded)
    e.queries += sub.queries
    e.solver_s += sub.solver_s
    terms = []
    for p in paths:
        if p.status != "return" or not isinstance(p.result, Bool):
            raise Inconclusive("closure %s: path %s %s" % (span, p.status, p.note))
        extra = p.pc[len(st.pc):]
        terms.append(z3.And(*(extra + [p.result.t])) if extra else p.result.t)
    return z3.Or(*terms) if terms else z3.BoolVal(False)


def s_iter_any(e, st, callee, args, dty):
    r = args[0]
    it = deref_val(e, st, r)
    if not (isinstance(it, Agg) and it.ty == "Chars"):
        return NotImplemented
    s = it.fields[0]
    al = Alts(e, st)
    out = []
    for conds, toks in decode_all(al, list(s.items)):
        c0 = and_or_none(conds)
        st2 = st
        terms = []
        extra = [c0] if c0 is not None else []
        saved = list(st.pc)
        st.pc.extend(extra)
        try:
            for kind, i, k, cp in toks:
                if kind != "char":
                    raise Inconclusive("invalid UTF-8 inside a str")
                terms.append(closure_bool(e, st, args[1], [Int(cp, "char")]))
        finally:
            st.pc[:] = saved
        out.append((c0, Bool(z3.Or(*terms) if terms else z3.BoolVal(False))))
    return out


def s_slice_contains(e, st, callee, args, dty):
    arr = deref_val(e, st, args[0])
    x = deref_val(e, st, args[1])
    if isinstance(arr, Agg) and arr.ty == "array" and isinstance(x, Int):
        return Bool(z3.Or(*[x.t == v.t for v in arr.fields.values() if isinstance(v, Int)]))
    return NotImplemented


def s_slice_binary_search(e, st, callee, args, dty):
    """<[T]>::binary_search(&x) on a constant integer / char array with a symbolic x: the steps of std's algorithm (size halving
    with `base = if arr[mid] > x { base } else { mid }`, one final comparison) are emulated over z3 terms, so an array that is not
    sorted gives exactly the answers the real search gives.  Result: Ok(index) iff the final probe equals x."""
    from mirsym import EnumV
    arr = deref_val(e, st, args[0])
    x = deref_val(e, st, args[1])
    if not (isinstance(arr, Agg) and arr.ty == "array" and isinstance(x, Int)):
        return NotImplemented
    vals = [arr.fields[i] for i in sorted(arr.fields)]
    if not vals or not all(isinstance(v, Int) for v in vals):
        return NotImplemented
    n = len(vals)
    w = x.t.size()
    idx_w = 64

    def at(ix):
        t = vals[-1].t
        for i in range(n - 2, -1, -1):
            t = z3.If(ix == z3.BitVecVal(i, idx_w), vals[i].t, t)
        return t
    base = z3.BitVecVal(0, idx_w)
    size = n
    while size > 1:
        half = size // 2
        mid = base + z3.BitVecVal(half, idx_w)
        base = z3.If(z3.UGT(at(mid), x.t), base, mid)
        size -= half
    probe = at(base)
    found = probe == x.t
    ok = EnumV("Result", "Ok", 0, {0: Int(z3.simplify(base), "usize")})
    err = EnumV("Result", "Err", 1, {0: Int(z3.simplify(base + z3.If(z3.ULT(probe, x.t), z3.BitVecVal(1, idx_w), z3.BitVecVal(0, idx_w))), "usize")})
    return ("multi", [(found, ok), (z3.Not(found), err)])


# ---- formatting ----------------------------------------------------------------------------------

def s_fmt_argument(e, st, callee, args, dty):
    return Agg("fmtarg", {0: args[0]})


def s_fmt_arguments(e, st, callee, args, dty):
    return Agg("fmtargs", {0: args[0], 1: args[1] if len(args) > 1 else Agg("array", {})})


def display_bytes(e, st, v):
    v = deref_val(e, st, v)
    s = as_str(e, st, v)
    if s is not None:
        return list(s.items)
    if isinstance(v, Int):
        c = isconst(v.t)
        if c is not None:
            return [B8(x) for x in str(c).encode()]
    raise Inconclusive("Display of %r is not modelled" % (v,))


def s_format(e, st, callee, args, dty):
    fa = deref_val(e, st, args[0])
    if not (isinstance(fa, Agg) and fa.ty == "fmtargs"):
        return NotImplemented
    pieces = deref_val(e, st, fa.fields[0])
    arr = deref_val(e, st, fa.fields[1])
    if isinstance(pieces, Str) and pieces.kind == "str":
        # Arguments::from_str / new_const: a plain literal
        return Str(pieces.items, "String")
    if not isinstance(pieces, Str):
        return NotImplemented
    pb = [isconst(b) for b in pieces.items]
    if any(x is None for x in pb):
        return NotImplemented
    argv = [arr.fields[i] for i in sorted(arr.fields)] if isinstance(arr, Agg) else []
    out, i, nexta = [], 0, 0
    while i < len(pb):
        b = pb[i]
        if b == 0:
            break
        if b < 0x80:
            out += [B8(x) for x in pb[i + 1:i + 1 + b]]
            i += 1 + b
        elif b == 0xC0:
            a = argv[nexta]
            nexta += 1
            inner = a.fields[0] if isinstance(a, Agg) and a.ty == "fmtarg" else a
            try:
                out += display_bytes(e, st, inner)
            except Inconclusive:
                # an argument whose text is not modelled: the formatted string is unknown
                return Lazy(st.fresh("formatted"), "String")
            i += 1
        else:
            raise Inconclusive("format piece code 0x%02x is not modelled" % b)
    return Str(out, "String")


# ---- str::replace ----------------------------------------------------------------------------------

def pattern_bytes(e, st, v):
    v = deref_val(e, st, v)
    if isinstance(v, Str):
        pb = [isconst(b) for b in v.items]
        return None if any(x is None for x in pb) else pb
    if isinstance(v, Int) and v.ty == "char":
        c = isconst(v.t)
        return list(chr(c).encode("utf-8")) if c is not None else None
    return None


def s_str_replace(e, st, callee, args, dty):
    s = as_str(e, st, args[0])
    pat = pattern_bytes(e, st, args[1])
    to = pattern_bytes(e, st, args[2])
    if s is None or pat is None or to is None or not pat:
        return NotImplemented
    al = Alts(e, st)
    res = []
    work = [([], 0, [])]
    items = list(s.items)
    while work:
        conds, i, out = work.pop()
        if i >= len(items):
            res.append((and_or_none(conds), Str(out, "String")))
            continue
        if i + len(pat) <= len(items):
            m = z3.And(*[items[i + j] == B8(pat[j]) for j in range(len(pat))])
            if al.feasible(conds + [m]):
                work.append((conds + [m], i + len(pat), out + [B8(x) for x in to]))
            if al.feasible(conds + [z3.Not(m)]):
                work.append((conds + [z3.Not(m)], i + 1, out + [items[i]]))
        else:
            work.append((conds, i + 1, out + [items[i]]))
        if len(res) + len(work) > 2000:
            raise Inconclusive("str::replace forks too much")
    return res


# ---- stfu8 reference model -----------------------------------------------------------------------

HEX = b"0123456789ABCDEF"


def hexdigit(n):
    """4-bit term -> ASCII upper-case hex digit byte term"""
    n8 = z3.ZeroExt(4, n)
    return z3.If(z3.ULT(n8, B8(10)), n8 + B8(0x30), n8 + B8(0x37))


def escape_byte_alts(al, b, conds):
    """stfu8 helpers::escape_u8 / maybe_ascii for one byte -> [(conds, out bytes)]"""
    out = []

    def add(c, bs):
        cs = conds + [c]
        if al.feasible(cs):
            out.append((cs, bs))
    add(b == B8(0x5C), [B8(0x5C), B8(0x5C)])
    add(z3.And(inr(b, 0x20, 0x7E), b != B8(0x5C)), [b])
    add(b == B8(0x09), [B8(0x5C), B8(ord("t"))])
    add(b == B8(0x0A), [B8(0x5C), B8(ord("n"))])
    add(b == B8(0x0D), [B8(0x5C), B8(ord("r"))])
    other = z3.And(z3.Or(z3.ULT(b, B8(0x20)), z3.UGE(b, B8(0x7F))), b != B8(9), b != B8(10), b != B8(13))
    add(other, [B8(0x5C), B8(ord("x")), hexdigit(z3.Extract(7, 4, b)), hexdigit(z3.Extract(3, 0, b))])
    return out


def stfu8_encode_alts(e, st, items):
    """model of stfu8::encode_u8 (0.2.x): valid UTF-8 sequences are copied, every byte of an ill-formed
    prefix is escaped individually; `\\`, control bytes, 0x7f.. escaped."""
    al = Alts(e, st)
    res = []
    work = [([], 0, [])]
    n = len(items)
    while work:
        conds, i, out = work.pop()
        if i >= n:
            res.append((and_or_none(conds), out))
            continue
        for cs, kind, k, cp in stfu8_first(al, items, i, conds):
            if kind == "char" and k > 1:
                work.append((cs, i + k, out + list(items[i:i + k])))
            else:
                # escape k bytes individually (k == 1 for ASCII)
                partial = [(cs, [])]
                for j in range(k):
                    nxt = []
                    for c2, o2 in partial:
                        for c3, bs in escape_byte_alts(al, items[i + j], c2):
                            nxt.append((c3, o2 + bs))
                    partial = nxt
                for c2, o2 in partial:
                    work.append((c2, i + k, out + o2))
        if len(res) + len(work) > 6000:
            raise Inconclusive("stfu8 encode model forks too much")
    return res


def stfu8_first(al, items, i, conds):
    """stfu8's own UTF-8 validation (differs from std: width table, escapes `index+1` bytes on failure)"""
    n = len(items)
    b0 = items[i]
    out = []

    def add(extra, kind, k, cp=None):
        cs = conds + [extra]
        if al.feasible(cs):
            out.append((cs, kind, k, cp))
    add(z3.ULT(b0, B8(0x80)), "ascii", 1)
    add(z3.Or(inr(b0, 0x80, 0xC1), z3.UGE(b0, B8(0xF5))), "bad", 1)
    c2 = inr(b0, 0xC2, 0xDF)
    if i + 1 < n:
        cont1 = inr(items[i + 1], 0x80, 0xBF)
        add(z3.And(c2, cont1), "char", 2)
        add(z3.And(c2, z3.Not(cont1)), "bad", 2)
    else:
        add(c2, "bad", 1)
    c3 = inr(b0, 0xE0, 0xEF)
    if i + 1 < n:
        b1 = items[i + 1]
        ok1 = z3.Or(z3.And(b0 == B8(0xE0), inr(b1, 0xA0, 0xBF)), z3.And(inr(b0, 0xE1, 0xEC), inr(b1, 0x80, 0xBF)),
                    z3.And(b0 == B8(0xED), inr(b1, 0x80, 0x9F)), z3.And(inr(b0, 0xEE, 0xEF), inr(b1, 0x80, 0xBF)))
        add(z3.And(c3, z3.Not(ok1)), "bad", 2)
        if i + 2 < n:
            cont2 = inr(items[i + 2], 0x80, 0xBF)
            add(z3.And(c3, ok1, cont2), "char", 3)
            add(z3.And(c3, ok1, z3.Not(cont2)), "bad", 3)
        else:
            add(z3.And(c3, ok1), "bad", 2)
    else:
        add(c3, "bad", 1)
    c4 = inr(b0, 0xF0, 0xF4)
    if i + 1 < n:
        b1 = items[i + 1]
        ok1 = z3.Or(z3.And(b0 == B8(0xF0), inr(b1, 0x90, 0xBF)), z3.And(inr(b0, 0xF1, 0xF3), inr(b1, 0x80, 0xBF)),
                    z3.And(b0 == B8(0xF4), inr(b1, 0x80, 0x8F)))
        add(z3.And(c4, z3.Not(ok1)), "bad", 2)
        if i + 2 < n:
            cont2 = inr(items[i + 2], 0x80, 0xBF)
            add(z3.And(c4, ok1, z3.Not(cont2)), "bad", 3)
            if i + 3 < n:
                cont3 = inr(items[i + 3], 0x80, 0xBF)
                add(z3.And(c4, ok1, cont2, cont3), "char", 4)
                add(z3.And(c4, ok1, cont2, z3.Not(cont3)), "bad", 4)
            else:
                add(z3.And(c4, ok1, cont2), "bad", 3)
        else:
            add(z3.And(c4, ok1), "bad", 2)
    else:
        add(c4, "bad", 1)
    return out


def s_stfu8_encode(e, st, callee, args, dty):
    s = as_str(e, st, args[0])
    if s is None:
        v = deref_val(e, st, args[0])
        if isinstance(v, ListV):
            s = Str([x.t for x in v.items], "bytes")
        else:
            return NotImplemented
    return [(c, Str(out, "String")) for c, out in stfu8_encode_alts(e, st, list(s.items))]


def unhex(al, b, conds):
    """-> [(conds, 4-bit value term)] for an ASCII hex digit byte, or [] if it cannot be one"""
    out = []
    for lo, hi, off in ((0x30, 0x39, 0x30), (0x41, 0x46, 0x37), (0x61, 0x66, 0x57)):
        c = inr(b, lo, hi)
        if al.feasible(conds + [c]):
            out.append((conds + [c], z3.Extract(3, 0, b - B8(off))))
    return out


def stfu8_decode_alts(e, st, items):
    """model of stfu8::decode_u8: `\\t \\n \\r \\\\ \\xHH \\uHHHHHH` escapes, a lone backslash is an error.
    -> [(cond, ok, bytes)]"""
    al = Alts(e, st)
    res = []
    work = [([], 0, [])]
    n = len(items)
    while work:
        conds, i, out = work.pop()
        if i >= n:
            res.append((and_or_none(conds), True, out))
            continue
        b = items[i]
        notbs = b != B8(0x5C)
        if al.feasible(conds + [notbs]):
            work.append((conds + [notbs], i + 1, out + [b]))
        isbs = b == B8(0x5C)
        if not al.feasible(conds + [isbs]):
            continue
        cb = conds + [isbs]
        if i + 1 >= n:
            res.append((and_or_none(cb), False, out))
            continue
        nb = items[i + 1]
        handled = []
        for ch, val in ((ord("t"), 9), (ord("n"), 10), (ord("r"), 13), (0x5C, 0x5C)):
            c = nb == B8(ch)
            handled.append(c)
            if al.feasible(cb + [c]):
                work.append((cb + [c], i + 2, out + [B8(val)]))
        cx = nb == B8(ord("x"))
        handled.append(cx)
        if al.feasible(cb + [cx]):
            okx = False
            if i + 3 < n:
                for c1, h1 in unhex(al, items[i + 2], cb + [cx]):
                    for c2, h2 in unhex(al, items[i + 3], c1):
                        work.append((c2, i + 4, out + [z3.Concat(h1, h2)]))
            # `\x` not followed by two hex digits: the regex falls back to the lone-backslash alternative -> error
            ishex = lambda t: z3.Or(inr(t, 0x30, 0x39), inr(t, 0x41, 0x46), inr(t, 0x61, 0x66))
            bad = z3.BoolVal(True) if i + 3 >= n else z3.Not(z3.And(ishex(items[i + 2]), ishex(items[i + 3])))
            if al.feasible(cb + [cx, bad]):
                res.append((and_or_none(cb + [cx, bad]), False, out))
        cu = nb == B8(ord("u"))
        handled.append(cu)
        if al.feasible(cb + [cu]):
            raise Inconclusive("\\u escapes are not modelled (never produced by encode_u8)")
        other = z3.Not(z3.Or(*handled))
        if al.feasible(cb + [other]):
            res.append((and_or_none(cb + [other]), False, out))
        if len(res) + len(work) > 6000:
            raise Inconclusive("stfu8 decode model forks too much")
    return res


def s_stfu8_decode(e, st, callee, args, dty):
    s = as_str(e, st, args[0])
    if s is None:
        return NotImplemented
    out = []
    for c, ok, bs in stfu8_decode_alts(e, st, list(s.items)):
        if ok:
            out.append((c, EnumV("Result", "Ok", 0, {0: Str(bs, "bytes")})))
        else:
            out.append((c, EnumV("Result", "Err", 1, {0: Lazy("decode_error", "DecodeError")})))
    return out


# ---- char / OsString helpers -----------------------------------------------------------------------

def s_encode_utf8(e, st, callee, args, dty):
    c = args[0]
    if not isinstance(c, Int):
        return NotImplemented
    cp = c.t
    al = Alts(e, st)
    x8 = lambda t: z3.Extract(7, 0, t)
    alts = [
        (z3.ULT(cp, 0x80), [x8(cp)]),
        (z3.And(z3.UGE(cp, 0x80), z3.ULT(cp, 0x800)), [x8((z3.LShR(cp, 6) & 0x1F) | 0xC0), x8((cp & 0x3F) | 0x80)]),
        (z3.And(z3.UGE(cp, 0x800), z3.ULT(cp, 0x10000)),
         [x8((z3.LShR(cp, 12) & 0x0F) | 0xE0), x8((z3.LShR(cp, 6) & 0x3F) | 0x80), x8((cp & 0x3F) | 0x80)]),
        (z3.UGE(cp, 0x10000),
         [x8((z3.LShR(cp, 18) & 0x07) | 0xF0), x8((z3.LShR(cp, 12) & 0x3F) | 0x80), x8((z3.LShR(cp, 6) & 0x3F) | 0x80), x8((cp & 0x3F) | 0x80)]),
    ]
    out = []
    for cnd, bs in alts:
        if al.feasible([cnd]):
            out.append((cnd, Str([z3.simplify(b) for b in bs], "str")))
    return out


def len_utf8_term(cp):
    return z3.If(z3.ULT(cp, 0x80), z3.BitVecVal(1, 64), z3.If(z3.ULT(cp, 0x800), z3.BitVecVal(2, 64),
                 z3.If(z3.ULT(cp, 0x10000), z3.BitVecVal(3, 64), z3.BitVecVal(4, 64))))


def s_len_utf8(e, st, callee, args, dty):
    c = args[0]
    if not isinstance(c, Int):
        return NotImplemented
    return len_utf8_alts(c.t)


def len_utf8_alts(cp):
    """concrete alternatives (pruned by the caller) so that positions stay concrete"""
    t = z3.simplify(len_utf8_term(cp))
    if z3.is_bv_value(t):
        return Int(t, "usize")
    return [(t == z3.BitVecVal(k, 64), Int(z3.BitVecVal(k, 64), "usize")) for k in (1, 2, 3, 4)]


def s_option_map_or(e, st, callee, args, dty):
    """Option::map_or(opt, default, f) for f = char::len_utf8 (function item) or a bool/int closure-free case"""
    opt, default, f = args[0], args[1], args[2]
    if not (isinstance(f, FnV) and re.search(r"len_utf8$", strip_generics(f.name))):
        return NotImplemented
    if isinstance(opt, EnumV):
        if opt.variant == "None":
            return default
        c = opt.fields.get(0)
        if isinstance(c, Int):
            return len_utf8_alts(c.t)
    return NotImplemented


def s_os_push(e, st, callee, args, dty):
    r = args[0]
    cur = as_str(e, st, r)
    add = as_str(e, st, args[1])
    if cur is None or add is None or not isinstance(r, Ref):
        return NotImplemented
    e.store(st, r.cell, r.path, Str(cur.items + add.items, cur.kind))
    return Unit()


def s_string_push_char(e, st, callee, args, dty):
    r = args[0]
    cur = as_str(e, st, r)
    if cur is None or not isinstance(r, Ref) or not isinstance(args[1], Int):
        return NotImplemented
    res = s_encode_utf8(e, st, callee, [args[1]], dty)
    if len(res) == 1:
        e.store(st, r.cell, r.path, Str(cur.items + res[0][1].items, cur.kind))
        return [(res[0][0], Unit())]
    return ("multi", [(c, ("store", r, Str(cur.items + s.items, cur.kind), Unit())) for c, s in res])


def s_new_string(e, st, callee, args, dty):
    return Str((), "String")


def s_mem_replace(e, st, callee, args, dty):
    r = args[0]
    if not isinstance(r, Ref):
        return NotImplemented
    old = e.load(st, r.cell, r.path)
    e.store(st, r.cell, r.path, args[1])
    return old


def s_str_index_range(e, st, callee, args, dty):
    s = as_str(e, st, args[0])
    rng = deref_val(e, st, args[1])
    if s is None or not isinstance(rng, Agg):
        return NotImplemented
    a, b = rng.fields.get(0), rng.fields.get(1)
    ca = isconst(a.t) if isinstance(a, Int) else None
    cb = isconst(b.t) if isinstance(b, Int) else None
    if ca is None or cb is None:
        return NotImplemented
    n = len(s.items)
    if ca > cb or cb > n:
        return [(None, "diverge")]

    def boundary(i):
        if i == 0 or i == n:
            return z3.BoolVal(True)
        return z3.Not(inr(s.items[i], 0x80, 0xBF))
    ok = z3.And(boundary(ca), boundary(cb))
    return [(ok, Str(s.items[ca:cb], "str")), (z3.Not(ok), "diverge")]


def s_map_err(e, st, callee, args, dty):
    v = args[0]
    if isinstance(v, EnumV) and v.ty == "Result":
        if v.variant == "Ok":
            return v
        return EnumV("Result", "Err", 1, {0: Lazy(st.fresh("mapped_err"), "?")})
    return NotImplemented


def s_vec_new(e, st, callee, args, dty):
    if "u8" in callee:
        return Str((), "bytes")
    return ListV((), "Vec")


def s_str_starts_with(e, st, callee, args, dty):
    s = as_str(e, st, args[0])
    pat = pattern_bytes(e, st, args[1])
    if s is None or pat is None:
        return NotImplemented
    if len(pat) > len(s.items):
        return Bool(z3.BoolVal(False))
    return Bool(z3.And(*[s.items[j] == B8(pat[j]) for j in range(len(pat))]) if pat else z3.BoolVal(True))


def validity_alts(e, st, items):
    """[(cond, valid python bool)] - is the byte string valid UTF-8 (std rules)"""
    al = Alts(e, st)
    out = []
    for conds, toks in decode_all(al, list(items)):
        out.append((and_or_none(conds), all(k == "char" for k, _, _, _ in toks)))
    return out


def s_into_string(e, st, callee, args, dty):
    s = as_str(e, st, args[0])
    if s is None:
        return NotImplemented
    return [(c, EnumV("Result", "Ok", 0, {0: Str(s.items, "String")}) if ok else EnumV("Result", "Err", 1, {0: Str(s.items, "OsString")}))
            for c, ok in validity_alts(e, st, s.items)]


def s_to_str(e, st, callee, args, dty):
    s = as_str(e, st, args[0])
    if s is None:
        return NotImplemented
    return [(c, EnumV("Option", "Some", 1, {0: Str(s.items, "str")}) if ok else EnumV("Option", "None", 0, {}))
            for c, ok in validity_alts(e, st, s.items)]


def s_from_utf8(e, st, callee, args, dty):
    s = as_str(e, st, args[0])
    if s is None:
        return NotImplemented
    return [(c, EnumV("Result", "Ok", 0, {0: Str(s.items, "str")}) if ok else EnumV("Result", "Err", 1, {0: Lazy("utf8_error", "Utf8Error")}))
            for c, ok in validity_alts(e, st, s.items)]


def s_bytes(e, st, callee, args, dty):
    s = as_str(e, st, args[0])
    if s is None:
        return NotImplemented
    return Agg("Bytes", {0: Str(s.items, "bytes")})


def s_bytes_any_all(e, st, callee, args, dty):
    it = deref_val(e, st, args[0])
    if not (isinstance(it, Agg) and it.ty == "Bytes"):
        return NotImplemented
    terms = [closure_bool(e, st, args[1], [Int(b, "u8")]) for b in it.fields[0].items]
    if meth_name(callee) == "any":
        return Bool(z3.Or(*terms) if terms else z3.BoolVal(False))
    return Bool(z3.And(*terms) if terms else z3.BoolVal(True))


def s_chars_all(e, st, callee, args, dty):
    r = s_iter_any(e, st, callee, [args[0], args[1]], dty)
    return NotImplemented     # `all` over chars: not needed so far


def s_ascii_pred(e, st, callee, args, dty):
    v = deref_val(e, st, args[0])
    if not isinstance(v, Int):
        return NotImplemented
    t = v.t
    w = t.size()
    c = lambda x: z3.BitVecVal(x, w)
    r = lambda lo, hi: z3.And(z3.UGE(t, c(lo)), z3.ULE(t, c(hi)))
    m = meth_name(callee)
    table = {
        "is_ascii": z3.ULT(t, c(0x80)),
        "is_ascii_control": z3.Or(z3.ULT(t, c(0x20)), t == c(0x7F)),
        "is_ascii_whitespace": z3.Or(t == c(0x20), t == c(0x09), t == c(0x0A), t == c(0x0C), t == c(0x0D)),
        "is_ascii_digit": r(0x30, 0x39),
        "is_ascii_hexdigit": z3.Or(r(0x30, 0x39), r(0x41, 0x46), r(0x61, 0x66)),
        "is_ascii_alphabetic": z3.Or(r(0x41, 0x5A), r(0x61, 0x7A)),
        "is_ascii_alphanumeric": z3.Or(r(0x30, 0x39), r(0x41, 0x5A), r(0x61, 0x7A)),
        "is_ascii_graphic": r(0x21, 0x7E),
        "is_ascii_punctuation": z3.Or(r(0x21, 0x2F), r(0x3A, 0x40), r(0x5B, 0x60), r(0x7B, 0x7E)),
        "is_ascii_uppercase": r(0x41, 0x5A),
        "is_ascii_lowercase": r(0x61, 0x7A),
    }
    if m == "is_control" and w == 32:
        return Bool(z3.Or(z3.ULT(t, c(0x20)), r(0x7F, 0x9F)))
    if m == "is_whitespace" and w == 32:
        # Unicode White_Space
        return Bool(z3.Or(r(0x09, 0x0D), t == c(0x20), t == c(0x85), t == c(0xA0), t == c(0x1680), r(0x2000, 0x200A),
                          t == c(0x2028), t == c(0x2029), t == c(0x202F), t == c(0x205F), t == c(0x3000)))
    if m == "is_alphabetic" or m == "is_alphanumeric" or m == "is_numeric":
        return NotImplemented
    if m in table:
        return Bool(table[m])
    return NotImplemented


STR = {
    r"^(std::ffi::)?OsString::into_string$": s_into_string,
    r"^(std::ffi::)?OsStr::to_str$|^(std::path::)?Path::to_str$": s_to_str,
    r"^(core::str::|std::str::)?from_utf8$": s_from_utf8,
    r"^(core::str::|std::str::)?(<impl str>::)?bytes$": s_bytes,
    r"^<(std::str::)?Bytes(<'_>)? as (std::iter::)?Iterator>::(any|all)$": s_bytes_any_all,
    r"^(core::num::|core::char::methods::|char::methods::)?(<impl (u8|char)>::|u8::|char::)?is_(ascii(_[a-z]+)?|control|whitespace)$": s_ascii_pred,
    r"^(core::str::|std::str::)?(<impl str>::)?as_bytes$|^(std::string::)?String::as_bytes$|^(std::string::)?String::into_bytes$|^(std::ffi::)?OsStr::as_bytes$|^<.* as (std::os::unix::ffi::)?OsStrExt>::as_bytes$|^(std::string::)?String::into_boxed_str$": s_str_identity,
    r"^(std::ffi::)?(OsString|OsStr|std::ffi::OsStr)::to_string_lossy$|^std::ffi::os_str::<impl .*>::to_string_lossy$|^(std::path::)?Path::to_string_lossy$": s_to_string_lossy,
    r"^<.*(Cow<'_, str>|Cow<str>|String|OsString|PathBuf).* as (std::ops::)?Deref>::deref$": s_str_ref_identity,
    r"^<.*Cow<.*str>.* as (std::string::)?ToString>::to_string$|^<str as ToString>::to_string$|^<.* as ToOwned>::to_owned$|^(std::string::)?String::as_str$|^(std::ffi::)?OsString::as_os_str$|^(std::ffi::)?OsStr::to_os_string$|^<.* as (std::convert::)?AsRef<(std::ffi::)?OsStr>>::as_ref$|^(std::ffi::)?OsString::into_vec$|^<.* as (std::os::unix::ffi::)?OsStringExt>::(into_vec|from_vec)$|^<.*String as From<.*>>::from$|^(std::ffi::)?OsString::from$|^<(std::ffi::)?OsString as From<.*>>::from$|^<Vec<u8> as Deref>::deref$": s_str_identity,
    r"^(core::str::|std::str::)?(<impl str>::)?chars$": s_chars,
    r"^<(std::str::)?Chars(<'_>)? as (std::iter::)?Iterator>::next$": s_chars_next,
    r"^<(std::str::)?Chars(<'_>)? as (std::iter::)?Iterator>::any$": s_iter_any,
    r"^core::slice::(<impl \[T\]>::)?contains$": s_slice_contains,
    r"^core::slice::(<impl \[T\]>::)?binary_search$": s_slice_binary_search,
    r"^(core::fmt::rt::)?Argument::new_(display|debug)$": s_fmt_argument,
    r"^(std::fmt::|core::fmt::)?Arguments::(new|new_const|from_str)$": s_fmt_arguments,
    r"^(std::fmt::|alloc::fmt::)?format$": s_format,
    r"^(std::str::|core::str::|alloc::str::)?(<impl str>::)?replace$": s_str_replace,
    r"^(stfu8::)?encode_u8$": s_stfu8_encode,
    r"^(stfu8::)?decode_u8$": s_stfu8_decode,
    r"^(core::)?(char::methods::)?(<impl char>::|char::)?encode_utf8$": s_encode_utf8,
    r"^(core::)?(char::methods::)?(<impl char>::|char::)?len_utf8$": s_len_utf8,
    r"^(std::option::|core::option::)?Option::map_or$": s_option_map_or,
    r"^(std::ffi::)?OsString::push$|^(std::string::)?String::push_str$": s_os_push,
    r"^(std::string::)?String::push$": s_string_push_char,
    r"^(std::ffi::)?OsString::new$|^(std::string::)?String::new$": s_new_string,
    r"^std::mem::replace$|^core::mem::replace$": s_mem_replace,
    r"^<str as (std::ops::)?Index(<(std::ops::)?Range<usize>>)?>::index$": s_str_index_range,
    r"^(std::result::)?Result::map_err$": s_map_err,
    r"^(std::vec::)?Vec::new$": s_vec_new,
    r"^(core::str::)?(<impl str>::)?starts_with$": s_str_starts_with,
}
