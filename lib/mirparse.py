"""Parser for rustc's `-Zunpretty=mir` text: functions, locals, basic blocks, statements,
terminators, places, operands, constants.  Types stay strings."""
import re


class ParseError(Exception):
    pass


BINOPS = {"Add", "Sub", "Mul", "Div", "Rem", "BitXor", "BitAnd", "BitOr", "Shl", "Shr", "Eq", "Lt",
          "Le", "Ne", "Ge", "Gt", "Cmp", "Offset", "AddWithOverflow", "SubWithOverflow",
          "MulWithOverflow", "AddUnchecked", "SubUnchecked", "MulUnchecked", "ShlUnchecked",
          "ShrUnchecked"}
UNOPS = {"Not", "Neg", "PtrMetadata"}

OPEN = {"(": ")", "[": "]", "{": "}", "<": ">"}
CLOSE = {")", "]", "}", ">"}


def skip_string(s, i):
    """s[i] is a quote char (\" or '); returns index after the closing quote."""
    q = s[i]
    j = i + 1
    while j < len(s):
        if s[j] == "\\":
            j += 2
            continue
        if s[j] == q:
            return j + 1
        j += 1
    raise ParseError("unterminated string in %r" % s[i:i + 40])


def is_char_lit(s, i):
    """Heuristic: is s[i]=="'" the start of a char literal (vs. a lifetime)?"""
    if s[i] != "'":
        return False
    # lifetime: 'a, '_, 'static followed by non-quote
    m = re.match(r"'(\\.[^']*|[^'\\])'", s[i:])
    return bool(m)


def split_top(s, sep=","):
    """Split at top-level separators (balanced brackets, strings, `->` aware)."""
    parts, depth, i, start = [], 0, 0, 0
    n = len(s)
    while i < n:
        c = s[i]
        if c == '"':
            i = skip_string(s, i)
            continue
        if c == "'" and is_char_lit(s, i):
            i = skip_string(s, i)
            continue
        if c == "b" and i + 1 < n and s[i + 1] == '"' and (i == 0 or not (s[i - 1].isalnum() or s[i - 1] == "_")):
            i = skip_string(s, i + 1)
            continue
        if c == "-" and i + 1 < n and s[i + 1] == ">":
            i += 2
            continue
        if c == "=" and i + 1 < n and s[i + 1] == ">":
            i += 2
            continue
        if c in OPEN:
            if c == "<" and i > 0 and s[i - 1] == " " and i + 1 < n and s[i + 1] in " =":
                i += 1
                continue
            depth += 1
        elif c in CLOSE:
            depth -= 1
        elif depth == 0 and s.startswith(sep, i):
            parts.append(s[start:i].strip())
            i += len(sep)
            start = i
            continue
        i += 1
    last = s[start:].strip()
    if last or parts:
        parts.append(last)
    return parts


def find_top(s, needle, start=0):
    """Index of the first top-level occurrence of needle, or -1."""
    depth, i, n = 0, start, len(s)
    while i < n:
        c = s[i]
        if depth == 0 and s.startswith(needle, i):
            return i
        if c == '"':
            i = skip_string(s, i)
            continue
        if c == "'" and is_char_lit(s, i):
            i = skip_string(s, i)
            continue
        if c == "-" and i + 1 < n and s[i + 1] == ">":
            i += 2
            continue
        if c in OPEN:
            depth += 1
        elif c in CLOSE:
            depth -= 1
        i += 1
    return -1


def match_close(s, i):
    """s[i] is an opening bracket; returns index of its matching close."""
    depth, n = 0, len(s)
    j = i
    while j < n:
        c = s[j]
        if c == '"':
            j = skip_string(s, j)
            continue
        if c == "'" and is_char_lit(s, j):
            j = skip_string(s, j)
            continue
        if c == "-" and j + 1 < n and s[j + 1] == ">":
            j += 2
            continue
        if c in OPEN:
            depth += 1
        elif c in CLOSE:
            depth -= 1
            if depth == 0:
                return j
        j += 1
    raise ParseError("unbalanced %r" % s[i:i + 60])


# ------------------------------------------------------------------ places / operands

class Place:
    __slots__ = ("local", "projs")

    def __init__(self, local, projs=()):
        self.local = local
        self.projs = tuple(projs)

    def __repr__(self):
        return "_%d%s" % (self.local, "".join("." + "/".join(map(str, p)) for p in self.projs))


def parse_place(s, i=0):
    """Returns (Place, next index)."""
    s_len = len(s)
    if s[i] == "_":
        m = re.match(r"_(\d+)", s[i:])
        if not m:
            raise ParseError("bad place %r" % s[i:i + 30])
        pl = Place(int(m.group(1)))
        j = i + m.end()
    elif s[i] == "(":
        if s[i + 1] == "*":
            inner, j = parse_place(s, i + 2)
            if s[j] != ")":
                raise ParseError("expected ) in deref place %r" % s[i:i + 60])
            pl = Place(inner.local, inner.projs + (("deref",),))
            j += 1
        else:
            inner, j = parse_place(s, i + 1)
            if s.startswith(" as ", j):
                k = s.index(")", j)
                pl = Place(inner.local, inner.projs + (("downcast", s[j + 4:k].strip()),))
                j = k + 1
            elif s[j] == ".":
                m = re.match(r"\.(\d+): ", s[j:])
                if not m:
                    raise ParseError("bad field projection %r" % s[i:i + 80])
                close = match_close(s, i)
                ty = s[j + m.end():close]
                pl = Place(inner.local, inner.projs + (("field", int(m.group(1)), ty),))
                j = close + 1
            else:
                raise ParseError("bad parenthesised place %r" % s[i:i + 80])
    else:
        raise ParseError("bad place start %r" % s[i:i + 30])
    while j < s_len and s[j] == "[":
        k = match_close(s, j)
        inner = s[j + 1:k]
        m = re.match(r"_(\d+)$", inner)
        if m:
            pl = Place(pl.local, pl.projs + (("index", int(m.group(1))),))
        else:
            m = re.match(r"(-?\d+) of (\d+)$", inner)
            if m:
                pl = Place(pl.local, pl.projs + (("constindex", int(m.group(1)), int(m.group(2))),))
            else:
                pl = Place(pl.local, pl.projs + (("subslice", inner),))
        j = k + 1
    return pl, j


def parse_operand(s):
    s = s.strip()
    if s.startswith("no_retag "):
        s = s[9:]
    if s.startswith("copy "):
        pl, j = parse_place(s, 5)
        if j != len(s):
            raise ParseError("trailing text after place: %r" % s)
        return ("copy", pl)
    if s.startswith("move "):
        pl, j = parse_place(s, 5)
        if j != len(s):
            raise ParseError("trailing text after place: %r" % s)
        return ("move", pl)
    if s.startswith("const "):
        return ("const", s[6:].strip())
    if s and (s[0].isalpha() or s[0] in "<_{"):
        return ("const", "fn " + s)          # bare function item
    raise ParseError("bad operand %r" % s)


def parse_rvalue(s):
    s = s.strip()
    if s.startswith("no_retag "):
        s = s[9:]
    # casts: `<operand> as <type> (<Kind>)`
    if s.startswith(("copy ", "move ", "const ")):
        k = find_top(s, " as ")
        if k >= 0 and s.endswith(")"):
            m = re.search(r" \(([A-Za-z_]+(?:\([^)]*\))?(?:, [A-Za-z]+)?)\)$", s)
            if m:
                return ("cast", parse_operand(s[:k]), s[k + 4:m.start()].strip(), m.group(1))
        return ("use", parse_operand(s))
    if s.startswith("&"):
        m = re.match(r"&(raw const |raw mut |mut |fake shallow |fake deep |)", s)
        if s[m.end():].startswith("/*tls*/"):
            return ("use", ("const", "tls " + s[m.end() + 7:].strip()))
        pl, j = parse_place(s, m.end())
        return ("ref", m.group(1).strip(), pl)
    if s.startswith("discriminant("):
        pl, j = parse_place(s, len("discriminant("))
        return ("discr", pl)
    if s.startswith("Len("):
        pl, j = parse_place(s, 4)
        return ("len", pl)
    m = re.match(r"([A-Za-z]+)\(", s)
    if m and (m.group(1) in BINOPS or m.group(1) in UNOPS) and s.endswith(")"):
        args = split_top(s[m.end():-1])
        if m.group(1) in BINOPS and len(args) == 2:
            return ("binop", m.group(1), parse_operand(args[0]), parse_operand(args[1]))
        if m.group(1) in UNOPS and len(args) == 1:
            return ("unop", m.group(1), parse_operand(args[0]))
    if s.startswith("["):
        inner = s[1:match_close(s, 0)]
        k = find_top(inner, ";")
        if k >= 0:
            return ("repeat", parse_operand(inner[:k]), inner[k + 1:].strip())
        return ("aggregate", "array", "", [parse_operand(a) for a in split_top(inner)] if inner.strip() else [])
    if s.startswith("("):
        inner = s[1:match_close(s, 0)]
        return ("aggregate", "tuple", "", [parse_operand(a) for a in split_top(inner) if a] if inner.strip() else [])
    if s.startswith("{closure@") or s.startswith("{coroutine@"):
        k = match_close(s, 0)
        name = s[:k + 1]
        rest = s[k + 1:].strip()
        fields = []
        if rest.startswith("{"):
            inner = rest[1:match_close(rest, 0)]
            for a in split_top(inner):
                fn, fv = a.split(": ", 1)
                fields.append((fn.strip(), parse_operand(fv)))
        return ("aggregate", "closure", name, fields)
    # ADT aggregates: `Path::Variant(ops)`, `Path { f: op }`, `Path::Unit`
    k = find_top(s, " {")
    if k >= 0 and s.endswith("}"):
        name = s[:k]
        inner = s[k + 2:-1]
        fields = []
        for a in split_top(inner):
            if not a:
                continue
            fn, fv = a.split(": ", 1)
            fields.append((fn.strip(), parse_operand(fv)))
        return ("aggregate", "struct", name, fields)
    if s.endswith(")"):
        # find the '(' matching the final ')'
        depth = 0
        for k in range(len(s) - 1, -1, -1):
            if s[k] == ")":
                depth += 1
            elif s[k] == "(":
                depth -= 1
                if depth == 0:
                    break
        name = s[:k]
        inner = s[k + 1:-1]
        return ("aggregate", "variant", name, [parse_operand(a) for a in split_top(inner)] if inner.strip() else [])
    return ("aggregate", "unit", s, [])


# ------------------------------------------------------------------ functions

class Block:
    def __init__(self, idx, cleanup):
        self.idx = idx
        self.cleanup = cleanup
        self.stmts = []
        self.term = None
        self.raw = []


class Fn:
    def __init__(self, name, header):
        self.name = name
        self.header = header
        self.args = []       # [(local, type)]
        self.ret = "()"
        self.locals = {}     # idx -> type
        self.debug = {}      # name -> text of the place
        self.blocks = {}
        self.text = ""
        self.promoted = None
        self.const_value = None

    def __repr__(self):
        return "<Fn %s>" % self.name


def parse_targets(t):
    """`[return: bb1, unwind: bb14]` / `[success: bb10, unwind continue]` / `unwind continue`"""
    res = {}
    t = t.strip()
    if t.startswith("["):
        for part in split_top(t[1:-1]):
            if ": " in part:
                k, v = part.split(": ", 1)
                res[k.strip()] = v.strip()
            else:
                w = part.split(" ", 1)
                res[w[0]] = w[1] if len(w) > 1 else ""
    else:
        w = t.split(" ", 1)
        res[w[0]] = w[1] if len(w) > 1 else ""
    return res


def bbnum(s):
    m = re.match(r"bb(\d+)$", s.strip())
    return int(m.group(1)) if m else None


def parse_terminator(line):
    s = line.strip().rstrip(";")
    if s == "return":
        return ("return",)
    if s == "unreachable":
        return ("unreachable",)
    if s.startswith("resume") or s.startswith("terminate") or s.startswith("abort"):
        return ("resume",)
    if s.startswith("goto -> "):
        return ("goto", bbnum(s[8:]))
    if s.startswith("switchInt("):
        k = match_close(s, len("switchInt"))
        op = parse_operand(s[len("switchInt("):k])
        tg = s[k + 1:].strip()
        assert tg.startswith("-> ["), s
        cases, otherwise = [], None
        for part in split_top(tg[4:-1]):
            a, b = part.split(": ")
            if a.strip() == "otherwise":
                otherwise = bbnum(b)
            else:
                cases.append((int(a.strip()), bbnum(b)))
        return ("switch", op, cases, otherwise)
    if s.startswith("drop("):
        k = match_close(s, 4)
        pl, _ = parse_place(s, 5)
        tg = parse_targets(s[k + 1:].strip()[3:]) if "->" in s[k + 1:] else {}
        return ("drop", pl, bbnum(tg.get("return", "")))
    if s.startswith("assert("):
        k = match_close(s, 6)
        inner = split_top(s[7:k])
        cond = inner[0]
        expected = True
        if cond.startswith("!"):
            expected = False
            cond = cond[1:]
        tg = parse_targets(s[k + 1:].strip()[3:])
        return ("assert", parse_operand(cond), expected, inner[1] if len(inner) > 1 else "",
                bbnum(tg.get("success", "")))
    if s.startswith("falseEdge") or s.startswith("falseUnwind"):
        m = re.search(r"bb(\d+)", s)
        return ("goto", int(m.group(1)))
    # call: `DEST = FUNC(ARGS) -> [return: bbN, unwind ...]`  or  `DEST = FUNC(ARGS) -> unwind continue`
    k = find_top(s, " -> ")
    if k < 0:
        raise ParseError("unknown terminator %r" % s)
    head, tg = s[:k], parse_targets(s[k + 4:])
    e = find_top(head, " = ")
    if e < 0:
        raise ParseError("call without destination %r" % s)
    dest, _ = parse_place(head[:e].strip(), 0)
    callpart = head[e + 3:].strip()
    if not callpart.endswith(")"):
        raise ParseError("call without args %r" % s)
    depth = 0
    for j in range(len(callpart) - 1, -1, -1):
        if callpart[j] == ")":
            depth += 1
        elif callpart[j] == "(":
            depth -= 1
            if depth == 0:
                break
    func = callpart[:j].strip()
    argtxt = callpart[j + 1:-1]
    args = [parse_operand(a) for a in split_top(argtxt)] if argtxt.strip() else []
    return ("call", dest, func, args, bbnum(tg.get("return", "")))


def parse_statement(line):
    s = line.strip().rstrip(";")
    if s in ("nop",) or s.startswith(("StorageLive", "StorageDead", "FakeRead", "PlaceMention", "Retag",
                                      "AscribeUserType", "Coverage", "ConstEvalCounter", "Deinit", "BackwardIncompatibleDropHint")):
        return ("nop",)
    if s.startswith("discriminant("):
        k = match_close(s, len("discriminant"))
        pl, _ = parse_place(s, len("discriminant("))
        return ("setdiscr", pl, s[k + 1:].strip().lstrip("=").strip())
    if s.startswith("assume(") or s.startswith("copy_nonoverlapping("):
        return ("intrinsic", s)
    e = find_top(s, " = ")
    if e < 0:
        raise ParseError("unknown statement %r" % s)
    pl, j = parse_place(s[:e].strip(), 0)
    return ("assign", pl, parse_rvalue(s[e + 3:]))


_FN_HDR = re.compile(r"^fn (.*)$")


def parse_mir(text, only=None):
    """Returns dict name -> Fn.  `only`: optional predicate on the function name (parse lazily)."""
    fns = {}
    lines = text.split("\n")
    i, n = 0, len(lines)
    while i < n:
        line = lines[i]
        if line.startswith("fn ") and line.rstrip().endswith("{"):
            hdr = line[3:].rstrip()[:-1].rstrip()
            j = i + 1
            while j < n and lines[j] != "}":
                j += 1
            body = lines[i + 1:j]
            k = hdr.find("(_1:")
            if k < 0:
                k = find_top(hdr, "(")
            name = hdr[:k]
            if only is None or only(name):
                try:
                    f = parse_fn(name, hdr, body)
                    f.text = "\n".join(lines[i:j + 1])
                    fns[name] = f
                except ParseError as e:
                    fns[name] = e
            i = j + 1
            continue
        m = re.match(r"^const (.*): ([^=]*?) = \{$", line)
        if m and not line.startswith("const _"):
            j = i + 1
            while j < n and lines[j] != "}":
                j += 1
            name = "const " + m.group(1)
            if only is None or only(m.group(1)):
                try:
                    f = parse_fn(name, name + "() -> " + m.group(2), lines[i + 1:j])
                    f.text = "\n".join(lines[i:j + 1])
                    fns[name] = f
                except ParseError as e:
                    fns[name] = e
            i = j + 1
            continue
        m = re.match(r"^const (.*): ([^=]*?) = const (.*);$", line)
        if m:
            f = Fn("const " + m.group(1), line)
            f.ret = m.group(2)
            f.const_value = m.group(3)
            f.text = line
            fns[f.name] = f
            i += 1
            continue
        i += 1
    return fns


def parse_fn(name, hdr, body):
    f = Fn(name, hdr)
    k = len(name)
    if hdr[k:k + 1] == "(":
        close = match_close(hdr, k)
        argtxt = hdr[k + 1:close]
        for a in split_top(argtxt):
            if not a:
                continue
            m = re.match(r"_(\d+): (.*)$", a, re.S)
            if m:
                f.args.append((int(m.group(1)), m.group(2)))
                f.locals[int(m.group(1))] = m.group(2)
        rest = hdr[close + 1:].strip()
        if rest.startswith("->"):
            f.ret = rest[2:].strip()
    cur = None
    for line in body:
        s = line.strip()
        if not s or s.startswith("//"):
            continue
        m = re.match(r"bb(\d+)( \(cleanup\))?: \{$", s)
        if m:
            cur = Block(int(m.group(1)), bool(m.group(2)))
            f.blocks[cur.idx] = cur
            continue
        if cur is None:
            m = re.match(r"let (mut )?_(\d+): (.*);$", s)
            if m:
                f.locals[int(m.group(2))] = m.group(3)
                continue
            m = re.match(r"debug (\S+) => (.*);$", s)
            if m:
                f.debug[m.group(1)] = m.group(2)
                continue
            continue
        if s == "}":
            if cur.raw:
                last = cur.raw.pop()
                if not cur.cleanup:
                    for st in cur.raw:
                        cur.stmts.append(parse_statement(st))
                    cur.term = parse_terminator(last)
                else:
                    cur.term = ("resume",)
            cur = None
            continue
        cur.raw.append(s)
    return f
