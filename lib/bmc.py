"""E3: interleaving bounded model checking of MIR thread programs (z3).

From the MIR of `Semaphore::acquire` / `release` the front end of mirsym executes *macro steps*: from a block up to
and including the next synchronisation action (Mutex::lock, Condvar::wait, Condvar::notify_one, drop of a MutexGuard)
or up to the next block that touches the shared counter.  Each macro step is summarised once with parametric inputs
(shared count, scalar locals) into guarded outcomes (condition, new count, new locals, next location, action).  The
library semantics of lock / wait / notify_one / guard drop are atomic transitions with enabledness conditions (trusted).
The global state is unrolled for K steps with one symbolic scheduler choice per step."""
import re
import time

import z3

import mirsym
from mirsym import Agg, Bool, EnumV, Int, Lazy, Ref, Unit, Place
from common import Inconclusive

SCALARS = ("isize", "bool", "usize", "i64", "u64")


def is_guard_ty(ty):
    return "MutexGuard" in ty and "Result" not in ty


class Outcome:
    def __init__(self, cond, count, locs, nxt, action, note="", needs_held=False, race=False):
        self.cond, self.count, self.locs, self.nxt, self.action, self.note = cond, count, locs, nxt, action, note
        self.needs_held, self.race = needs_held, race


class FnAutomaton:
    """macro-step summaries of one MIR function operating on the shared counter"""

    def __init__(self, prog, fn, tag):
        self.prog, self.fn, self.tag = prog, fn, tag
        self.scalars = sorted(i for i, ty in fn.locals.items() if ty.strip() in SCALARS or re.match(r"^\((isize|usize), bool\)$", ty.strip()))
        self.in_count = z3.BitVec("in_count", 64)
        self.in_locs = {}
        for i in self.scalars:
            ty = fn.locals[i].strip()
            if ty == "bool":
                self.in_locs[(i, None)] = z3.Bool("in_%s_%d" % (tag, i))
            elif ty.startswith("("):
                self.in_locs[(i, 0)] = z3.BitVec("in_%s_%d_0" % (tag, i), 64)
                self.in_locs[(i, 1)] = z3.Bool("in_%s_%d_1" % (tag, i))
            else:
                self.in_locs[(i, None)] = z3.BitVec("in_%s_%d" % (tag, i), 64)
        self.steps = {}      # entry block -> [Outcome]
        self.eng = mirsym.Engine(prog, summaries={}, unroll=50)
        self.entry_blocks = set()
        self._explore()

    # -- helpers -------------------------------------------------------------------------------
    def touches_shared(self, blk):
        def place_shared(pl):
            if any(p[0] == "deref" for p in pl.projs):
                ty = self.fn.locals.get(pl.local, "")
                return bool(re.match(r"^&(mut )?isize$", ty.strip()))
            return False

        def op_shared(op):
            return op[0] in ("copy", "move") and place_shared(op[1])
        for s in blk.stmts:
            if s[0] != "assign":
                continue
            if place_shared(s[1]):
                return True
            rv = s[2]
            for x in rv[1:]:
                if isinstance(x, tuple) and x and x[0] in ("copy", "move", "const") and op_shared(x):
                    return True
                if isinstance(x, Place) and place_shared(x):
                    return True
        t = blk.term
        if t and t[0] == "assert":
            pass
        return False

    def init_state(self):
        st = mirsym.State()
        fr = self.eng.new_frame(st, self.fn, [])
        st.frames.append(fr)
        st.mem["count"] = Int(self.in_count, "isize")
        st.mem["sem"] = Agg("Semaphore", {0: Agg("Mutex", {0: Ref("count", (), True)}), 1: Lazy("cvar", "Condvar")})
        for idx, ty in self.fn.locals.items():
            c = fr.cells[idx]
            t = ty.strip()
            if idx in self.scalars:
                if t == "bool":
                    st.mem[c] = Bool(self.in_locs[(idx, None)])
                elif t.startswith("("):
                    st.mem[c] = Agg("tuple", {0: Int(self.in_locs[(idx, 0)], "isize"), 1: Bool(self.in_locs[(idx, 1)])})
                else:
                    st.mem[c] = Int(self.in_locs[(idx, None)], t)
            elif re.match(r"^&(mut )?isize$", t):
                st.mem[c] = Ref("count", (), True)
            elif t.startswith("&") and "Semaphore" in t:
                st.mem[c] = Ref("sem", (), False)
            elif "Mutex<isize>" in t and t.startswith("&"):
                st.mem[c] = Ref("sem", (("field", 0, "Mutex"),), False)
            else:
                st.mem[c] = Agg("token:" + t[:30], {})
        return st, fr

    def snapshot(self, st, fr):
        cnt = st.mem["count"]
        locs = {}
        for (i, sub), v0 in self.in_locs.items():
            v = st.mem.get(fr.cells[i])
            if sub is None:
                locs[(i, sub)] = v.t if isinstance(v, (Int, Bool)) else v0
            else:
                f = v.fields.get(sub) if isinstance(v, Agg) else None
                locs[(i, sub)] = f.t if isinstance(f, (Int, Bool)) else v0
        return cnt.t, locs

    def _explore(self):
        todo = [0]
        while todo:
            b = todo.pop()
            if b in self.steps:
                continue
            self.entry_blocks.add(b)
            outs = self.macro_step(b)
            self.steps[b] = outs
            for o in outs:
                if isinstance(o.nxt, int) and o.nxt not in self.steps:
                    todo.append(o.nxt)

    SYNC = r"Mutex::lock$|Condvar::wait$|Condvar::wait_while$|Condvar::notify_one$|Condvar::notify_all$"

    def is_sync_block(self, blk):
        t = blk.term
        if t[0] == "call":
            norm = mirsym.strip_generics_keep_as(t[2]) if t[2].startswith("<") else mirsym.strip_generics(t[2])
            return bool(re.search(self.SYNC, norm))
        if t[0] == "drop":
            return is_guard_ty(self.fn.locals.get(t[1].local, "")) and not t[1].projs
        return False

    def macro_step(self, entry):
        """All outcomes of running from block `entry` through at most one synchronisation action, up to the block
        that holds the next one (interleaving points are the synchronisation actions; accesses to the shared counter
        are checked to happen with the mutex held - `needs_held` / `race`)."""
        st0, fr0 = self.init_state()
        fr0.bb = entry
        outs = []
        # work items: (state, action so far, held: None = as at step start / True / False, needs_held, race, first)
        work = [(st0, "none", None, False, False, True)]
        nsteps = 0
        while work:
            st, action, held, needs, race, first = work.pop()
            nsteps += 1
            if nsteps > 400:
                raise Inconclusive("macro step from bb%d of %s does not terminate" % (entry, self.fn.name))
            fr = st.frames[-1]
            blk = fr.fn.blocks[fr.bb]
            cond = z3.And(*st.pc) if st.pc else z3.BoolVal(True)

            def emit(nxt, act=None, note=""):
                cnt, locs = self.snapshot(st, fr)
                outs.append(Outcome(cond, cnt, locs, nxt, act or action, note, needs, race))
            if not first and action != "none" and self.is_sync_block(blk):
                emit(fr.bb)
                continue
            if self.touches_shared(blk):
                if held is None:
                    needs = True
                elif held is False:
                    race = True
            for s_ in blk.stmts:
                if s_[0] == "assign":
                    self.eng.write_place(st, s_[1], self.eng.rvalue(st, s_[2]))
            t = blk.term
            k = t[0]
            if k == "goto":
                fr.bb = t[1]
                work.append((st, action, held, needs, race, False))
            elif k == "return":
                emit("ret")
            elif k == "unreachable":
                continue
            elif k == "assert":
                v = self.eng.operand(st, t[1])
                c = v.t if isinstance(v, Bool) else (v.t != 0)
                ok = c if t[2] else z3.Not(c)
                cnt, locs = self.snapshot(st, fr)
                outs.append(Outcome(z3.And(cond, z3.Not(ok)), cnt, locs, "panic", action, t[3][:60], needs, race))
                st.pc.append(ok)
                fr.bb = t[4]
                work.append((st, action, held, needs, race, False))
            elif k == "switch":
                for s2 in self.eng.do_switch(st, t):
                    work.append((s2, action, held, needs, race, False))
            elif k == "drop":
                ty = fr.fn.locals.get(t[1].local, "")
                if is_guard_ty(ty) and not t[1].projs:
                    if held is None:
                        needs = True
                    fr.bb = t[2]
                    work.append((st, "unlock", False, needs, race, False))
                else:
                    fr.bb = t[2]
                    work.append((st, action, held, needs, race, False))
            elif k == "call":
                _, dest, callee, argops, ret_bb = t
                norm = mirsym.strip_generics_keep_as(callee) if callee.startswith("<") else mirsym.strip_generics(callee)
                if re.search(r"Mutex::lock$", norm):
                    self.eng.write_place(st, dest, EnumV("Result", "Ok", 0, {0: Agg("token:guard", {})}))
                    fr.bb = ret_bb
                    work.append((st, "lock", True, needs, race, False))
                elif re.search(r"Condvar::wait$", norm):
                    if held is None:
                        needs = True
                    self.eng.write_place(st, dest, EnumV("Result", "Ok", 0, {0: Agg("token:guard", {})}))
                    cnt, locs = self.snapshot(st, fr)
                    outs.append(Outcome(cond, cnt, locs, ret_bb, "wait", "", needs, race))
                elif re.search(r"Condvar::wait_while$", norm):
                    # std: `while condition(&mut *guard) { guard = self.wait(guard)?; } Ok(guard)`.  The predicate closure is evaluated
                    # on the shared counter with the mutex held; if it holds the thread waits and re-evaluates this very call after
                    # the wake-up, otherwise the call returns the guard.
                    import listsum
                    if held is None:
                        needs = True
                    clo = self.eng.operand(st, argops[2])
                    try:
                        pred = listsum.closure_term(self.eng, st, clo, [Ref("count", (), True)])
                    except Exception as ex:   # noqa
                        raise Inconclusive("wait_while predicate not evaluated: %s" % str(ex)[:120])
                    cnt, locs = self.snapshot(st, fr)
                    outs.append(Outcome(z3.And(cond, pred), cnt, locs, fr.bb, "wait", "wait_while", needs, race))
                    st.pc.append(z3.Not(pred))
                    self.eng.write_place(st, dest, EnumV("Result", "Ok", 0, {0: Agg("token:guard", {})}))
                    fr.bb = ret_bb
                    work.append((st, action, held, needs, race, False))
                elif re.search(r"(^|::)mem::drop$|^drop$", norm):
                    v = self.eng.operand(st, argops[0])
                    self.eng.write_place(st, dest, Unit())
                    fr.bb = ret_bb
                    if isinstance(v, Agg) and v.ty == "token:guard":
                        # explicit drop of the mutex guard = unlock
                        if held is None:
                            needs = True
                        work.append((st, "unlock", False, needs, race, False))
                    else:
                        work.append((st, action, held, needs, race, False))
                elif re.search(r"Condvar::notify_(one|all)$", norm):
                    self.eng.write_place(st, dest, Unit())
                    fr.bb = ret_bb
                    work.append((st, "notify_one" if norm.endswith("one") else "notify_all", held, needs, race, False))
                elif re.search(r"Result::(unwrap|expect)$", norm):
                    v = self.eng.operand(st, argops[0])
                    self.eng.write_place(st, dest, v.fields.get(0) if isinstance(v, EnumV) else Agg("token:guard", {}))
                    fr.bb = ret_bb
                    work.append((st, action, held, needs, race, False))
                elif re.search(r"as (std::ops::)?Deref(Mut)?>::deref(_mut)?$", norm):
                    self.eng.write_place(st, dest, Ref("count", (), True))
                    fr.bb = ret_bb
                    work.append((st, action, held, needs, race, False))
                else:
                    raise Inconclusive("unexpected call in the semaphore automaton: %s" % norm)
            else:
                raise Inconclusive("terminator %s in semaphore automaton" % k)
        return outs


class Config:
    def __init__(self, programs, permits, spurious=0):
        """programs: per thread list of ops: ('acquire',) | ('release', dep) where dep = None or (thread, op index) whose
        completion must precede (guard handed over from that acquire)"""
        self.programs, self.permits, self.spurious = programs, permits, spurious

    def describe(self):
        return "%d threads %s, %d permits, %d spurious wake-ups" % (
            len(self.programs), ["".join("A" if o[0] == "acquire" else ("r" if o[1] else "R") for o in p) for p in self.programs],
            self.permits, self.spurious)


class Bmc:
    def __init__(self, acq, rel, cfg, timeout_ms=120000):
        self.acq, self.rel, self.cfg = acq, rel, cfg
        self.nt = len(cfg.programs)
        self.solver = z3.Solver()
        self.solver.set("timeout", timeout_ms)
        self.queries = 0
        self.solver_s = 0.0
        # location encoding: loc = (op index, code) ; code: 0..N-1 acquire blocks, 100+ release blocks, 250 waiting(ret bb in aux), 255 done
        self.states = []

    def aut(self, op):
        return self.acq if op[0] == "acquire" else self.rel

    def new_state(self, k):
        s = {"count": z3.BitVec("count@%d" % k, 64), "owner": z3.Int("owner@%d" % k), "spur": z3.Int("spur@%d" % k),
             "acq_done": z3.Int("acqdone@%d" % k), "rel_started": z3.Int("relstart@%d" % k), "panic": z3.Bool("panic@%d" % k), "race": z3.Bool("race@%d" % k)}
        for t in range(self.nt):
            s["op%d" % t] = z3.Int("op%d@%d" % (t, k))
            s["bb%d" % t] = z3.Int("bb%d@%d" % (t, k))       # block id, -1 = waiting in condvar, -2 = woken (must reacquire)
            s["wret%d" % t] = z3.Int("wret%d@%d" % (t, k))   # block to continue at after a wait
            s["opdone%d" % t] = [z3.Bool("opdone%d_%d@%d" % (t, i, k)) for i in range(len(self.cfg.programs[t]))]
            for a in (self.acq, self.rel):
                for key, v0 in a.in_locs.items():
                    nm = "l%d_%s_%s_%s@%d" % (t, a.tag, key[0], key[1], k)
                    s[("loc", t, a.tag, key)] = z3.Bool(nm) if z3.is_bool(v0) else z3.BitVec(nm, 64)
        return s

    def init_constraints(self, s):
        c = [s["count"] == z3.BitVecVal(self.cfg.permits, 64), s["owner"] == -1, s["spur"] == self.cfg.spurious,
             s["acq_done"] == 0, s["rel_started"] == 0, z3.Not(s["panic"]), z3.Not(s["race"])]
        for t in range(self.nt):
            c += [s["op%d" % t] == 0, s["bb%d" % t] == 0, s["wret%d" % t] == 0]
            c += [z3.Not(x) for x in s["opdone%d" % t]]
        return c

    def finished(self, s, t):
        return s["op%d" % t] == len(self.cfg.programs[t])

    def subst(self, a, s, t, term):
        pairs = [(a.in_count, s["count"])]
        for key, v0 in a.in_locs.items():
            pairs.append((v0, s[("loc", t, a.tag, key)]))
        return z3.substitute(term, *pairs)

    def dep_ok(self, s, op):
        if op[0] == "release" and op[1] is not None:
            dt, di = op[1]
            return s["opdone%d" % dt][di]
        return z3.BoolVal(True)

    def thread_step(self, s, s2, t, wake_choice):
        """list of (enabled condition, effect constraints) alternatives for thread t"""
        alts = []
        prog = self.cfg.programs[t]
        frame_same = lambda keys: [s2[k] == s[k] for k in keys]
        for i, op in enumerate(prog):
            a = self.aut(op)
            at_op = s["op%d" % t] == i
            # waiting in the condvar: may be woken (flag) or wake spuriously, needs the mutex
            # bb == -1: sleeping; -2: notified
            for woken in (False, True):
                en = z3.And(at_op, s["bb%d" % t] == (-2 if woken else -1), s["owner"] == -1,
                            z3.BoolVal(True) if woken else s["spur"] > 0)
                eff = [s2["owner"] == t, s2["bb%d" % t] == s["wret%d" % t], s2["count"] == s["count"],
                       s2["spur"] == (s["spur"] if woken else s["spur"] - 1), s2["op%d" % t] == i,
                       s2["acq_done"] == s["acq_done"], s2["rel_started"] == s["rel_started"], s2["panic"] == s["panic"],
                       s2["race"] == s["race"], s2["wret%d" % t] == s["wret%d" % t]]
                eff += self.keep_locals(s, s2, t) + self.keep_opdone(s, s2, t)
                alts.append((en, eff, None))
            for b, outs in a.steps.items():
                at = z3.And(at_op, s["bb%d" % t] == b)
                if b == 0:
                    at = z3.And(at, self.dep_ok(s, op))
                for o in outs:
                    cond = self.subst(a, s, t, o.cond)
                    en = z3.And(at, cond)
                    eff = []
                    newcount = self.subst(a, s, t, o.count)
                    eff.append(s2["count"] == newcount)
                    for key, term in o.locs.items():
                        eff.append(s2[("loc", t, a.tag, key)] == self.subst(a, s, t, term))
                    other = self.rel if a is self.acq else self.acq
                    for key in other.in_locs:
                        eff.append(s2[("loc", t, other.tag, key)] == s[("loc", t, other.tag, key)])
                    rel_started = s["rel_started"] + (1 if (op[0] == "release" and b == 0) else 0)
                    eff.append(s2["rel_started"] == rel_started)
                    eff.append(s2["spur"] == s["spur"])
                    racy = z3.BoolVal(True) if o.race else (s["owner"] != t if o.needs_held else z3.BoolVal(False))
                    eff.append(s2["race"] == z3.Or(s["race"], racy))
                    owner2, notify = s["owner"], None
                    if o.action == "lock":
                        en = z3.And(en, s["owner"] == -1)
                        owner2 = z3.IntVal(t)
                    elif o.action == "unlock":
                        owner2 = z3.IntVal(-1)
                    elif o.action == "wait":
                        owner2 = z3.IntVal(-1)
                    elif o.action in ("notify_one", "notify_all"):
                        notify = o.action
                    eff.append(s2["owner"] == owner2)
                    if o.nxt == "panic":
                        eff += [s2["panic"], s2["op%d" % t] == i, s2["bb%d" % t] == b, s2["acq_done"] == s["acq_done"],
                                s2["wret%d" % t] == s["wret%d" % t]] + self.keep_opdone(s, s2, t)
                    elif o.nxt == "ret":
                        eff += [s2["panic"] == s["panic"], s2["op%d" % t] == i + 1, s2["bb%d" % t] == 0,
                                s2["acq_done"] == s["acq_done"] + (1 if op[0] == "acquire" else 0), s2["wret%d" % t] == 0]
                        eff += [s2["opdone%d" % t][j] == (z3.BoolVal(True) if j == i else s["opdone%d" % t][j]) for j in range(len(prog))]
                    else:
                        eff += [s2["panic"] == s["panic"], s2["op%d" % t] == i, s2["acq_done"] == s["acq_done"]] + self.keep_opdone(s, s2, t)
                        if o.action == "wait":
                            eff += [s2["bb%d" % t] == -1, s2["wret%d" % t] == o.nxt]
                        else:
                            eff += [s2["bb%d" % t] == o.nxt, s2["wret%d" % t] == s["wret%d" % t]]
                    alts.append((en, eff, notify))
        return alts

    def keep_locals(self, s, s2, t):
        out = []
        for a in (self.acq, self.rel):
            for key in a.in_locs:
                out.append(s2[("loc", t, a.tag, key)] == s[("loc", t, a.tag, key)])
        return out

    def keep_opdone(self, s, s2, t):
        return [s2["opdone%d" % t][j] == s["opdone%d" % t][j] for j in range(len(self.cfg.programs[t]))]

    def keep_thread(self, s, s2, u, except_bb=False):
        out = [s2["op%d" % u] == s["op%d" % u], s2["wret%d" % u] == s["wret%d" % u]] + self.keep_locals(s, s2, u) + self.keep_opdone(s, s2, u)
        if not except_bb:
            out.append(s2["bb%d" % u] == s["bb%d" % u])
        return out

    def transition(self, s, s2, k):
        """T(s, s2): exactly one thread takes one enabled macro step"""
        sched = z3.Int("sched@%d" % k)
        wake = z3.Int("wake@%d" % k)
        disj = []
        enabled_any = []
        for t in range(self.nt):
            for en, eff, notify in self.thread_step(s, s2, t, wake):
                enabled_any.append(en)
                others = []
                if notify is None:
                    for u in range(self.nt):
                        if u != t:
                            others += self.keep_thread(s, s2, u)
                else:
                    sleepers = [s["bb%d" % u] == -1 for u in range(self.nt)]
                    for u in range(self.nt):
                        if u == t:
                            continue
                        others += self.keep_thread(s, s2, u, except_bb=True)
                        if notify == "notify_all":
                            others.append(s2["bb%d" % u] == z3.If(s["bb%d" % u] == -1, -2, s["bb%d" % u]))
                        else:
                            others.append(s2["bb%d" % u] == z3.If(z3.And(s["bb%d" % u] == -1, wake == u), -2, s["bb%d" % u]))
                    if notify == "notify_one":
                        # if anybody sleeps, exactly one sleeper (the chosen one) is woken
                        others.append(z3.Implies(z3.Or(*[sl for u, sl in enumerate(sleepers) if u != t] or [z3.BoolVal(False)]),
                                                 z3.Or(*[z3.And(wake == u, sleepers[u]) for u in range(self.nt) if u != t] or [z3.BoolVal(False)])))
                disj.append(z3.And(sched == t, en, *(eff + others)))
        return z3.Or(*disj), z3.Or(*enabled_any)

    def enabled(self, s):
        """is any macro step enabled in s (no successor needed)"""
        dummy = self.new_state(-1)
        ens = []
        for t in range(self.nt):
            for en, eff, notify in self.thread_step(s, dummy, t, z3.Int("w")):
                ens.append(en)
        return z3.Or(*ens)

    def check(self, f):
        t0 = time.time()
        self.solver.push()
        self.solver.add(f)
        r = self.solver.check()
        m = self.solver.model() if r == z3.sat else None
        self.solver.pop()
        self.queries += 1
        self.solver_s += time.time() - t0
        return r, m

    def run(self, K):
        """Returns dict(verdict, kind, step, trace).  Properties: safety (holders <= permits), no panic, no deadlock,
        restoration."""
        s = self.new_state(0)
        self.solver.add(*self.init_constraints(s))
        states = [s]
        maxp = max(self.cfg.permits, 0)
        all_done_seen = False
        for k in range(K + 1):
            s = states[k]
            holders = s["acq_done"] - s["rel_started"]
            alldone = z3.And(*[self.finished(s, t) for t in range(self.nt)])
            bad = {
                "more holders than permits": holders > maxp,
                "arithmetic overflow panic": s["panic"],
                "permits not restored after all guards were dropped": z3.And(alldone, s["count"] != z3.BitVecVal(self.cfg.permits, 64)),
                "deadlock / lost wake-up": z3.And(z3.Not(alldone), z3.Not(s["panic"]), z3.Not(self.enabled(s))),
            }
            bad["shared counter accessed without holding the mutex"] = s["race"]
            r, m = self.check(z3.Or(*bad.values()))
            if r == z3.unknown:
                return {"verdict": "inconclusive", "kind": "solver unknown at depth %d" % k, "depth": k}
            if r == z3.sat:
                kind = [kd for kd, f in bad.items() if z3.is_true(m.eval(f, model_completion=True))]
                return {"verdict": "violated", "kind": kind[0] if kind else "?", "step": k, "trace": self.trace(m, states), "depth": k}
            r, m = self.check(alldone)
            if r == z3.sat:
                all_done_seen = True
            # can anybody still move?
            s2 = self.new_state(k + 1)
            T, _ = self.transition(s, s2, k)
            r, m = self.check(z3.And(z3.Not(alldone), self.enabled(s)))
            if r == z3.unsat:
                return {"verdict": "holds", "depth": k, "complete": True, "all_done_reachable": all_done_seen}
            self.solver.add(z3.Or(T, z3.And(z3.Or(alldone, z3.Not(self.enabled(s))), *self.stutter(s, s2))))
            states.append(s2)
        return {"verdict": "inconclusive", "kind": "bound K=%d reached with threads still able to move" % K, "depth": K}

    def stutter(self, s, s2):
        out = [s2[k] == s[k] for k in ("count", "owner", "spur", "acq_done", "rel_started", "panic", "race")]
        for t in range(self.nt):
            out += self.keep_thread(s, s2, t)
        return out

    def trace(self, m, states):
        tr = []
        for k, s in enumerate(states):
            row = {"step": k, "count": m.eval(s["count"], model_completion=True).as_signed_long(),
                   "owner": m.eval(s["owner"], model_completion=True).as_long()}
            for t in range(self.nt):
                row["t%d" % t] = "op%s bb%s" % (m.eval(s["op%d" % t], model_completion=True), m.eval(s["bb%d" % t], model_completion=True))
            sc = m.eval(z3.Int("sched@%d" % k), model_completion=True)
            row["next"] = int(str(sc))
            tr.append(row)
        return tr
