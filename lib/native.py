"""Native builds of the scratch copy for replay (only needed once a counterexample exists)."""
import os
import subprocess

from common import Inconclusive, cargo_env, say, scratch_root

_built = {}


def build_binary(src, release=False):
    key = (src, release)
    if key in _built:
        return _built[key]
    tdir = os.path.join(scratch_root(), "native-target")
    cmd = ["cargo", "build", "--offline", "--bin", "fclones", "--target-dir", tdir]
    if release:
        cmd.append("--release")
    say("  native build for replay (%s)" % ("release" if release else "dev"))
    p = subprocess.run(cmd, cwd=os.path.join(src, "fclones"), env=cargo_env(),
                       stdout=subprocess.PIPE, stderr=subprocess.STDOUT, timeout=1800)
    if p.returncode != 0:
        raise Inconclusive("native build failed: " + p.stdout.decode(errors="replace")[-800:])
    b = os.path.join(tdir, "release" if release else "debug", "fclones")
    _built[key] = b
    return b
