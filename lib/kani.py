"""E1: Kani driver.  Injects /verif/harness/<module>.rs into a scratch copy of /repo as
`#[cfg(kani)] mod verif_<module>` (child modules: private items are reachable), runs
`cargo kani`, parses the per-harness verdicts."""
import os
import re
import resource
import subprocess
import time

from common import VERIF, Inconclusive, cargo_env, say, scratch_root

HARNESS_DIR = os.path.join(VERIF, "harness")


def inject(src, modules):
    """Append the harness module declarations to the scratch sources."""
    for m in modules:
        hp = os.path.join(HARNESS_DIR, m + ".rs")
        sp = os.path.join(src, "fclones", "src", m + ".rs")
        if not os.path.exists(sp):
            raise Inconclusive("source file fclones/src/%s.rs no longer exists" % m)
        with open(sp, "a") as f:
            f.write('\n#[cfg(kani)]\n#[path = "%s"]\npub(crate) mod verif_%s;\n' % (hp, m))


def apply_shims(src, shims):
    """Textual shims needed only because Kani 0.68 cannot compile thread-locals.
    shims: list of (file, old, new).  Returns list of descriptions; raises if the anchor is gone."""
    done = []
    for f, old, new in shims:
        p = os.path.join(src, "fclones", "src", f)
        s = open(p).read()
        if old not in s:
            raise Inconclusive("shim anchor not found in %s: %r" % (f, old[:60]))
        s = s.replace(old, new, 1)
        open(p, "w").write(s)
        done.append("%s: %s -> cfg(kani) shim" % (f, old.strip().splitlines()[0][:70]))
    return done


def _limit():
    try:
        resource.setrlimit(resource.RLIMIT_AS, (48 << 30, 48 << 30))
    except Exception:
        pass


_TH = re.compile(r"^(?:Thread (\d+): )?(.*)$")


def parse(log):
    """Returns {harness: {...}} from a `cargo kani --output-format terse` log."""
    res = {}
    cur = {}      # thread -> harness
    last = "0"
    for raw in log.splitlines():
        m = _TH.match(raw)
        # result blocks are printed as `Thread N: ` followed by unprefixed lines
        if m.group(1) is not None:
            last = m.group(1)
        th, line = last, m.group(2)
        mm = re.match(r"Checking harness (\S+?)\.\.\.", line)
        if mm:
            h = mm.group(1)
            cur[th] = h
            res[h] = {"status": None, "failed": [], "covers": None, "time": None, "checks": None, "stubs": []}
            continue
        h = cur.get(th)
        if h is None:
            continue
        r = res[h]
        mm = re.match(r"\s*- Stub: (.*)$", line)
        if mm:
            r["stubs"].append(mm.group(1).replace(" ", ""))
        mm = re.match(r"\s*\*\* (\d+) of (\d+) failed", line)
        if mm:
            r["checks"] = (int(mm.group(1)), int(mm.group(2)))
        mm = re.match(r"\s*\*\* (\d+) of (\d+) cover properties satisfied", line)
        if mm:
            r["covers"] = (int(mm.group(1)), int(mm.group(2)))
        mm = re.match(r"\s*Failed Checks: (.*)$", line)
        if mm:
            r["failed"].append(mm.group(1).strip().strip('"'))
        mm = re.match(r"\s*VERIFICATION:- (\w+)", line)
        if mm:
            r["status"] = mm.group(1)
        mm = re.match(r"\s*Verification Time: ([\d.]+)s", line)
        if mm:
            r["time"] = float(mm.group(1))
        mm = re.match(r'\s*- Description: "(.*)"$', line)
        if mm:
            r.setdefault("_lastdesc", mm.group(1))
    return res


def run(src, patterns, jobs=8, timeout=1800, exact=False, name="k", cover_report=False):
    """Runs the harnesses whose names match the patterns.  Returns (results, log path, wall)."""
    tdir = os.path.join(scratch_root(), "kani-target")
    logp = os.path.join(scratch_root(), "%s.log" % name)
    cmd = ["cargo", "kani", "-Z", "stubbing", "--output-format", "terse", "-j", str(jobs),
           "--target-dir", tdir]
    if exact:
        cmd.append("--exact")
    for p in patterns:
        cmd += ["--harness", p]
    t0 = time.time()
    say("  kani: %s (cap %ds)" % (" ".join(patterns), timeout))
    with open(logp, "w") as lf:
        try:
            p = subprocess.run(cmd, cwd=os.path.join(src, "fclones"), env=cargo_env(),
                               stdout=lf, stderr=subprocess.STDOUT, timeout=timeout,
                               preexec_fn=_limit)
            rc = p.returncode
        except subprocess.TimeoutExpired:
            rc = -9
            subprocess.run(["killall", "-q", "cbmc", "kani-driver", "cargo-kani", "goto-instrument"])
    wall = time.time() - t0
    log = open(logp, errors="replace").read()
    res = parse(log)
    if not res:
        tail = "\n".join(l for l in log.splitlines() if l.startswith("error") or "error[" in l)[:1500]
        raise Inconclusive("cargo kani produced no harness result (rc=%s, %.0fs): %s" % (
            rc, wall, tail or log[-1500:]))
    for h, r in res.items():
        if r["status"] is None:
            r["status"] = "TIMEOUT" if rc == -9 else "ERROR"
    return res, logp, wall


def classify(r, prop):
    """-> (verdict, detail).  Only failures of assertions tagged `VP-..<prop>..` count as violations."""
    if r["status"] == "SUCCESSFUL":
        return "holds", ""
    if r["status"] in ("TIMEOUT", "ERROR"):
        return "inconclusive", "kani status " + r["status"]
    mine = [f for f in r["failed"] if f.startswith("VP-") and prop in f.split(":")[0]]
    other_vp = [f for f in r["failed"] if f.startswith("VP-") and prop not in f.split(":")[0]]
    rest = [f for f in r["failed"] if not f.startswith("VP-")]
    if mine:
        return "violated", "; ".join(mine)
    if rest:
        return "inconclusive", "non-property checks failed (harness/model mismatch, panic or unsupported construct): " + "; ".join(rest)[:400]
    if other_vp:
        return "holds", "only assertions of other properties failed: " + "; ".join(other_vp)[:200]
    return "inconclusive", "FAILED without a failed-check line"
