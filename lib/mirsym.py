"""E2 `mirsym`: bounded symbolic execution of rustc MIR (text dump) into z3 terms.

Path mode: depth-first enumeration of the paths of a function (crate-local callees inlined on
request, everything else summarised or havocked and recorded as an event), with solver-checked
feasibility of every branch.  Integers are bit-vectors of their Rust width; structs / enums /
references are lazily materialised symbolic trees; loops are unrolled up to a bound and a path that
wants more is reported as `bound` (never silently dropped)."""
import os
import re
import subprocess
import time

import z3

import mirparse
from mirparse import Place
from common import Inconclusive, cargo_env, say, text_hash

INT_W = {"u8": 8, "i8": 8, "u16": 16, "i16": 16, "u32": 32, "i32": 32, "u64": 64, "i64": 64,
         "u128": 128, "i128": 128, "usize": 64, "isize": 64, "char": 32}


def is_signed(ty):
    return ty.startswith("i")


# ------------------------------------------------------------------ values (immutable)

class V:
    pass


class Int(V):
    __slots__ = ("t", "ty")

    def __init__(self, t, ty):
        self.t, self.ty = t, ty

    def __repr__(self):
        return "Int(%s:%s)" % (z3.simplify(self.t), self.ty)


class Bool(V):
    __slots__ = ("t",)

    def __init__(self, t):
        self.t = t

    def __repr__(self):
        return "Bool(%s)" % z3.simplify(self.t)


class Unit(V):
    def __repr__(self):
        return "()"


class Agg(V):
    """tuple / struct / closure; `base` names the lazy origin (missing fields are lazy children)."""
    __slots__ = ("ty", "fields", "base")

    def __init__(self, ty, fields, base=None):
        self.ty, self.fields, self.base = ty, dict(fields), base

    def __repr__(self):
        return "Agg(%s %s%s)" % (self.ty, self.fields, " base=" + self.base if self.base else "")


class EnumV(V):
    """concrete variant of an enum"""
    __slots__ = ("ty", "variant", "idx", "fields")

    def __init__(self, ty, variant, idx, fields):
        self.ty, self.variant, self.idx, self.fields = ty, variant, idx, dict(fields)

    def __repr__(self):
        return "%s::%s%s" % (self.ty, self.variant, self.fields if self.fields else "")


class Ref(V):
    __slots__ = ("cell", "path", "mut")

    def __init__(self, cell, path=(), mut=False):
        self.cell, self.path, self.mut = cell, tuple(path), mut

    def __repr__(self):
        return "&%s%s" % (self.cell, list(self.path) if self.path else "")


class Lazy(V):
    """unknown value of a type; children are named deterministically"""
    __slots__ = ("name", "ty")

    def __init__(self, name, ty):
        self.name, self.ty = name, ty

    def __repr__(self):
        return "Lazy(%s: %s)" % (self.name, self.ty[:40])


class Str(V):
    """byte string (str / String / OsString / CString / Vec<u8> / Cow<str>) with a concrete number of symbolic bytes"""
    __slots__ = ("items", "kind")

    def __init__(self, items, kind="str"):
        self.items, self.kind = tuple(items), kind

    def __repr__(self):
        out = []
        for b in self.items:
            sb = z3.simplify(b)
            out.append("%02x" % sb.as_long() if z3.is_bv_value(sb) else "?")
        return "Str(%s)" % " ".join(out)


class ListV(V):
    """Vec / slice / iterator with a concrete number of (symbolic) elements"""
    __slots__ = ("items", "ty")

    def __init__(self, items, ty="Vec"):
        self.items, self.ty = tuple(items), ty

    def __repr__(self):
        return "List%s" % (list(self.items),)


class FnV(V):
    __slots__ = ("name", "captures")

    def __init__(self, name, captures=None):
        self.name, self.captures = name, captures

    def __repr__(self):
        return "Fn(%s)" % self.name


class Opaque(V):
    __slots__ = ("name",)

    def __init__(self, name):
        self.name = name

    def __repr__(self):
        return "Opaque(%s)" % self.name


def strip_generics(s):
    """Remove `::<...>` and `<...>` generic argument lists (balanced)."""
    out, depth, i = [], 0, 0
    while i < len(s):
        c = s[i]
        if c == "-" and s[i:i + 2] == "->":
            if depth == 0:
                out.append("->")
            i += 2
            continue
        if c == "<":
            if depth == 0 and out[-2:] == [":", ":"]:
                out = out[:-2]
            depth += 1
        elif c == ">":
            depth -= 1
        elif depth == 0:
            out.append(c)
        i += 1
    return "".join(out)


def type_base(ty):
    """`&'a mut std::option::Option<T>` -> `Option`"""
    t = ty.strip()
    while True:
        t2 = re.sub(r"^(&|\*const |\*mut |mut |'[a-z_]+ |dyn )", "", t).strip()
        if t2 == t:
            break
        t = t2
    t = strip_generics(t)
    return t.split("::")[-1].strip()


def is_ref_type(ty):
    return ty.strip().startswith(("&", "*const ", "*mut "))


def sanitize(n):
    return re.sub(r"[^A-Za-z0-9_.*@#:\[\]$-]", "_", n)


# ------------------------------------------------------------------ source tables

class SourceInfo:
    """struct field orders and enum variant orders scanned from fclones/src/*.rs (cfg(unix) assumed)."""

    BUILTIN_ENUMS = {
        "Option": ["None", "Some"], "Result": ["Ok", "Err"], "Ordering": ["Less", "Equal", "Greater"],
        "ControlFlow": ["Continue", "Break"], "Cow": ["Borrowed", "Owned"],
        # std::io::ErrorKind: only the leading variants whose position is stable are listed
        "ErrorKind": ["NotFound", "PermissionDenied"],
    }

    def __init__(self, srcdir):
        self.structs = {}   # name -> [field names]
        self.enums = dict(self.BUILTIN_ENUMS)
        self.files = {}
        self.derives = {}   # type -> set of derived traits
        for fn in sorted(os.listdir(srcdir)):
            if fn.endswith(".rs"):
                txt = open(os.path.join(srcdir, fn), errors="replace").read()
                self.files["fclones/src/" + fn] = txt
                self._scan(txt)

    @staticmethod
    def _strip_comments(txt):
        txt = re.sub(r"//[^\n]*", "", txt)
        return re.sub(r"/\*.*?\*/", "", txt, flags=re.S)

    def _scan(self, txt):
        t = self._strip_comments(txt)
        for m in re.finditer(r"((?:#\[[^\]]*\]\s*)*)(?:pub(?:\([a-z]+\))? )?(struct|enum) (\w+)(?:<[^>{(]*>)?\s*(?:where[^{]*)?([({;])", t):
            attrs, kind, name, opener = m.groups()
            der = set()
            for a in re.finditer(r"derive\(([^)]*)\)", attrs):
                der |= {x.strip() for x in a.group(1).split(",") if x.strip()}
            self.derives[name] = der
            if opener == ";":
                self.structs[name] = []
                continue
            i = m.end() - 1
            j = mirparse.match_close(t, i)
            body = t[i + 1:j]
            items = mirparse.split_top(body)
            names = []
            for it in items:
                it = it.strip()
                if not it:
                    continue
                skip = False
                while it.startswith("#["):
                    k = mirparse.match_close(it, 1)
                    attr = it[2:k].strip()
                    it = it[k + 1:].strip()
                    mm = re.match(r"cfg\((.*)\)$", attr, re.S)
                    if mm:
                        c = mm.group(1).strip()
                        if c == "windows" or c.startswith("not(unix") or c.startswith('target_os = "windows"') or c == "test":
                            skip = True
                if skip:
                    continue
                it2 = re.sub(r"^pub(\([a-z]+\))?\s+", "", it)
                if kind == "struct" and opener == "(":
                    names.append(str(len(names)))
                else:
                    mm = re.match(r"(\w+)", it2)
                    if mm:
                        names.append(mm.group(1))
            if kind == "struct":
                self.structs[name] = names
            else:
                self.enums[name] = names

    def field_name(self, ty, idx):
        f = self.structs.get(type_base(ty))
        if f and idx < len(f):
            return f[idx]
        return str(idx)

    def field_index(self, struct, name):
        return self.structs[struct].index(name)

    def variant_index(self, enum, variant):
        v = self.enums.get(enum)
        if v and variant in v:
            return v.index(variant)
        return None


# ------------------------------------------------------------------ MIR acquisition

def dump_mir(src, target="lib", cache_dir=None):
    """Runs the nightly compiler on the scratch copy; returns MIR text."""
    crate = os.path.join(src, "fclones")
    tdir = os.path.join(os.path.dirname(src), "mir-target")
    subprocess.run(["touch", os.path.join(crate, "src", "lib.rs"), os.path.join(crate, "src", "main.rs")])
    cmd = ["cargo", "+nightly", "rustc", "--offline", "--target-dir", tdir]
    cmd += ["--lib"] if target == "lib" else ["--bin", "fclones"]
    cmd += ["--", "-Zunpretty=mir", "-C", "debug-assertions=off", "-C", "overflow-checks=on"]
    t0 = time.time()
    p = subprocess.run(cmd, cwd=crate, env=cargo_env(), stdout=subprocess.PIPE, stderr=subprocess.PIPE, timeout=1800)
    out = p.stdout.decode(errors="replace")
    if p.returncode != 0 or len(out) < 1000:
        raise Inconclusive("MIR dump failed (rc=%d): %s" % (p.returncode, p.stderr.decode(errors="replace")[-800:]))
    say("  MIR dump (%s): %d lines in %.0fs" % (target, out.count("\n"), time.time() - t0))
    return out


class Program:
    """Parsed MIR of a crate + source tables + function resolution."""

    def __init__(self, mir_text, srcdir):
        self.src = SourceInfo(srcdir)
        self.fns = {k: v for k, v in mirparse.parse_mir(mir_text).items() if not isinstance(v, Exception)}
        self.by_last = {}
        self.consts = {}
        for name, f in self.fns.items():
            if name.startswith("const "):
                self.consts.setdefault(strip_generics(name[6:]).split("::")[-1], []).append(f)
                continue
            last = strip_generics(name).split("::")[-1]
            self.by_last.setdefault(last, []).append(f)
        self._impl_cache = {}

    def impl_info(self, f):
        """(trait or None, self type basename or None) of the impl a function was defined in."""
        if f.name in self._impl_cache:
            return self._impl_cache[f.name]
        res = (None, None)
        ms = list(re.finditer(r"<impl at (fclones/src/\w+\.rs):(\d+):(\d+): \d+:\d+>", f.name))
        if ms:
            m = ms[-1]
            txt = self.src.files.get(m.group(1))
            if txt:
                lines = txt.split("\n")
                ln, col = int(m.group(2)) - 1, int(m.group(3)) - 1
                line = lines[ln] if ln < len(lines) else ""
                seg = " ".join(lines[ln:ln + 3])
                segx = seg[col:] if seg[col:].startswith(("impl", "unsafe")) else seg
                # drop the (possibly nested) generic parameter list right after `impl`
                mg = re.match(r"(\s*(?:unsafe )?impl)\s*<", segx)
                if mg:
                    try:
                        k = mirparse.match_close(segx, mg.end() - 1)
                        segx = mg.group(1) + segx[k + 1:]
                    except Exception:
                        pass
                mm = re.match(r"\s*(?:unsafe )?impl(?:<[^>]*>)?\s+(?:(\S+?)(?:<.*?>)?\s+for\s+)?&?([\w:]+)", segx)
                if mm and seg.lstrip().startswith(("impl", "unsafe impl")) or (mm and seg[col:].startswith("impl")):
                    res = (mm.group(1).split("::")[-1] if mm.group(1) else None, mm.group(2).split("::")[-1])
                else:
                    # derive(...) position: the trait name starts at col
                    tm = re.match(r"(\w+)", line[col:])
                    trait = tm.group(1) if tm else None
                    selfty = None
                    if f.args:
                        selfty = type_base(f.args[0][1])
                    if (selfty in (None, "") or not f.args) and f.ret:
                        selfty = type_base(f.ret)
                    res = (trait, selfty)
        self._impl_cache[f.name] = res
        return res

    def find(self, pattern):
        """Unique function whose name matches the regex; raises Inconclusive otherwise."""
        c = [f for n, f in self.fns.items() if re.search(pattern, n) and not n.startswith("const ")]
        if len(c) != 1:
            raise Inconclusive("anchor function %r: %d matches in the MIR dump%s" % (
                pattern, len(c), " (" + ", ".join(x.name[-60:] for x in c[:4]) + ")" if c else ""))
        return c[0]

    def method(self, ty, name):
        """Crate-local method `name` of type `ty` (inherent impl or trait impl)."""
        c = [f for f in self.by_last.get(name, []) if "{closure" not in f.name and self.impl_info(f)[1] == ty]
        if len(c) != 1:
            raise Inconclusive("anchor method %s::%s: %d matches in the MIR dump" % (ty, name, len(c)))
        return c[0]

    def closures_of(self, f):
        pre = f.name + "::{closure#"
        res = [g for n, g in self.fns.items() if n.startswith(pre) and "::{closure#" not in n[len(pre):]]
        return sorted(res, key=lambda g: int(re.match(r"(\d+)", g.name[len(pre):]).group(1)))

    def closure_by_span(self, span):
        """`{closure@fclones/src/walk.rs:377:33: 377:41}` -> Fn whose first arg has that type"""
        for n, g in self.fns.items():
            if "{closure#" in n and g.args:
                a = g.args[0][1]
                if span in a:
                    return g
        return None

    def resolve_call(self, callee, caller=None):
        """Crate-local Fn for a call-site callee text, or None."""
        c = callee.strip()
        m = re.match(r"<(.+) as (.+)>::(\w+)$", strip_generics_keep_as(c))
        if m:
            ty, trait, meth = type_base(m.group(1)), m.group(2).split("::")[-1], m.group(3)
            trait = strip_generics(trait)
            cands = [f for f in self.by_last.get(meth, []) if "{closure" not in f.name]
            cands = [f for f in cands if self.impl_info(f) == (trait, ty)]
            return cands[0] if len(cands) == 1 else None
        mi = re.search(r"(?:^|::)<impl (.+)>::(\w+)$", c)
        if mi and " as " not in mi.group(1):
            ty, meth0 = type_base(mi.group(1)), mi.group(2)
            cands = [f for f in self.by_last.get(meth0, []) if "{closure" not in f.name and self.impl_info(f)[1] == ty]
            inh = [f for f in cands if self.impl_info(f)[0] is None]
            if len(inh) == 1:
                return inh[0]
            if len(cands) == 1:
                return cands[0]
        s = strip_generics(c)
        parts = [p for p in s.split("::") if p]
        if not parts:
            return None
        meth = parts[-1]
        cands = [f for f in self.by_last.get(meth, []) if "{closure" not in f.name]
        if len(parts) >= 2:
            owner = parts[-2]
            typed = [f for f in cands if self.impl_info(f)[1] == owner]
            if len(typed) == 1:
                return typed[0]
            if len(typed) > 1:
                inh = [f for f in typed if self.impl_info(f)[0] is None]
                if len(inh) == 1:
                    return inh[0]
                return None
            free = [f for f in cands if "<impl at" not in f.name and strip_generics(f.name).split("::")[-2:-1] == [owner]]
            if len(free) == 1:
                return free[0]
            return None
        free = [f for f in cands if "<impl at" not in f.name]
        if len(free) == 1:
            return free[0]
        if caller is not None and len(free) > 1:
            mod = caller.name.split("::")[0]
            same = [f for f in free if f.name.split("::")[0] == mod]
            if len(same) == 1:
                return same[0]
        return None


def strip_generics_keep_as(s):
    """strip only `::<..>` turbofish lists, keeping the leading `<T as Trait>` qualifier"""
    if not s.startswith("<"):
        return s
    k = mirparse.match_close(s, 0)
    head = s[:k + 1]
    inner = head[1:-1]
    j = mirparse.find_top(inner, " as ")
    if j < 0:
        return s
    return "<%s as %s>%s" % (inner[:j], strip_generics(inner[j + 4:]), strip_generics(s[k + 1:]))


# ------------------------------------------------------------------ execution state

class Event:
    __slots__ = ("kind", "callee", "args", "ret", "pc_len", "site", "info")

    def __init__(self, kind, callee, args, ret, pc_len, site, info=None):
        self.kind, self.callee, self.args, self.ret, self.pc_len, self.site, self.info = kind, callee, args, ret, pc_len, site, info

    def __repr__(self):
        return "%s %s%s" % (self.kind, self.callee[:70], list(self.args) if self.args else "")


class Frame:
    __slots__ = ("fn", "cells", "bb", "visits", "dest", "ret_bb", "fid", "then", "final", "post")

    def __init__(self, fn, cells, fid):
        self.fn, self.cells, self.bb, self.visits, self.dest, self.ret_bb, self.fid = fn, cells, 0, {}, None, None, fid
        self.then = ()        # further (fn, args) invocations to run after this frame returns (summary 'invoke_seq')
        self.final = None     # value written to dest after the last invocation (None: the last return value)
        self.post = None      # function applied to the return value before it is written to dest (summary 'invoke' with post)

    def clone(self):
        f = Frame(self.fn, self.cells, self.fid)
        f.bb, f.visits, f.dest, f.ret_bb, f.then, f.final = self.bb, dict(self.visits), self.dest, self.ret_bb, self.then, self.final
        f.post = self.post
        return f


class State:
    def __init__(self):
        self.mem = {}
        self.pc = []
        self.events = []
        self.frames = []
        self.counter = 0
        self.nframes = 0
        self.status = "running"
        self.result = None
        self.note = ""

    def clone(self):
        s = State()
        s.mem = dict(self.mem)
        s.pc = list(self.pc)
        s.events = list(self.events)
        s.frames = [f.clone() for f in self.frames]
        s.counter, s.nframes, s.status, s.result, s.note = self.counter, self.nframes, self.status, self.result, self.note
        return s

    def fresh(self, hint):
        self.counter += 1
        return "h%d_%s" % (self.counter, sanitize(hint)[-40:])


class Path:
    """One explored path: status in {'return','panic','bound','abort'}."""

    def __init__(self, st):
        self.pc = st.pc
        self.events = st.events
        self.result = st.result
        self.status = st.status
        self.note = st.note
        self.mem = st.mem

    def cond(self):
        return z3.And(*self.pc) if self.pc else z3.BoolVal(True)

    def calls(self, pattern):
        return [e for e in self.events if re.search(pattern, e.callee)]


class Engine:
    def __init__(self, prog, inline=None, summaries=None, unroll=2, max_paths=20000, solver_timeout_ms=20000,
                 inline_all=False, max_depth=12):
        self.prog = prog
        self.inline = inline or (lambda callee, f: False)
        self.inline_all = inline_all
        self.summaries = summaries or {}
        self.unroll = unroll
        self.max_paths = max_paths
        self.max_depth = max_depth
        self.solver = z3.Solver()
        self.solver.set("timeout", solver_timeout_ms)
        self.queries = 0
        self.solver_s = 0.0
        self.stats = {"blocks": 0, "havoc": 0, "inlined": 0, "summarised": 0}
        self.encoded = {}   # fn name -> hash of MIR text

    # ---------------------------------------------------------- solver helpers
    def check(self, *terms):
        t0 = time.time()
        self.solver.push()
        for t in terms:
            self.solver.add(t)
        r = self.solver.check()
        self.solver.pop()
        self.queries += 1
        self.solver_s += time.time() - t0
        return r

    def feasible(self, st, extra=None):
        terms = list(st.pc)
        if extra is not None:
            terms.append(extra)
        if not terms:
            return True
        r = self.check(*terms)
        if r == z3.unknown:
            return True
        return r == z3.sat

    # ---------------------------------------------------------- lazy values
    def make_lazy(self, name, ty):
        ty = ty.strip()
        name = sanitize(name)
        if ty in INT_W:
            return Int(z3.BitVec(name, INT_W[ty]), ty)
        if ty == "bool":
            return Bool(z3.Bool(name))
        if ty == "()":
            return Unit()
        return Lazy(name, ty)

    def child_name(self, v, idx, parent_ty):
        return "%s.%s" % (v.name, self.prog.src.field_name(parent_ty, idx))

    # ---------------------------------------------------------- places
    def read_proj(self, st, v, proj):
        """value of projection `proj` applied to value v (no deref here)."""
        k = proj[0]
        if k == "field":
            idx, fty = proj[1], proj[2]
            if isinstance(v, Agg):
                if idx in v.fields:
                    return v.fields[idx]
                if v.base is not None:
                    return self.make_lazy("%s.%s" % (v.base, self.prog.src.field_name(v.ty, idx)), fty)
                raise Inconclusive("read of missing field %d of %r" % (idx, v))
            if isinstance(v, EnumV):
                if idx in v.fields:
                    return v.fields[idx]
                raise Inconclusive("read of missing field %d of %r" % (idx, v))
            if isinstance(v, Lazy):
                return self.make_lazy("%s.%s" % (v.name, self.prog.src.field_name(v.ty, idx)), fty)
            if isinstance(v, (Str, Opaque, FnV)):
                return self.make_lazy("%s.%d" % (getattr(v, "name", "strfield"), idx), fty)
            raise Inconclusive("field %d of %r" % (idx, v))
        if k == "downcast":
            if isinstance(v, EnumV):
                if v.variant != proj[1]:
                    raise Inconclusive("downcast of %r to %s" % (v, proj[1]))
                return v
            if isinstance(v, Lazy):
                return Lazy("%s@%s" % (v.name, proj[1]), v.ty)
            raise Inconclusive("downcast of %r" % (v,))
        if k == "elem":
            if isinstance(v, ListV) and 0 <= proj[1] < len(v.items):
                return v.items[proj[1]]
            raise Inconclusive("element %r of %r" % (proj[1], v))
        if k in ("index", "constindex"):
            if isinstance(v, ListV):
                if k == "constindex":
                    i = proj[1]
                else:
                    iv = self.read_place(st, Place(proj[1]))
                    sv = z3.simplify(iv.t) if isinstance(iv, Int) else None
                    i = sv.as_long() if sv is not None and z3.is_bv_value(sv) else None
                if i is not None and 0 <= i < len(v.items):
                    return v.items[i]
                raise Inconclusive("index %r into %r" % (proj, v))
            if isinstance(v, Agg) and k == "constindex" and proj[1] in v.fields:
                return v.fields[proj[1]]
            if isinstance(v, Agg) and k == "index":
                iv = self.read_place(st, Place(proj[1]))
                if isinstance(iv, Int) and z3.is_bv_value(z3.simplify(iv.t)):
                    i = z3.simplify(iv.t).as_long()
                    if i in v.fields:
                        return v.fields[i]
            raise Inconclusive("index projection on %r" % (v,))
        raise Inconclusive("projection %r" % (proj,))

    def write_proj(self, v, projs, new, st):
        """functional update: returns v with `projs` replaced by `new`."""
        if not projs:
            return new
        p = projs[0]
        if p[0] == "field":
            idx = p[1]
            if isinstance(v, Agg):
                inner = v.fields.get(idx)
                if inner is None:
                    inner = self.read_proj(st, v, p) if len(projs) > 1 else None
                f = dict(v.fields)
                f[idx] = self.write_proj(inner, projs[1:], new, st)
                return Agg(v.ty, f, v.base)
            if isinstance(v, Lazy):
                inner = self.read_proj(st, v, p) if len(projs) > 1 else None
                return Agg(v.ty, {idx: self.write_proj(inner, projs[1:], new, st)}, v.name)
            if isinstance(v, EnumV):
                f = dict(v.fields)
                f[idx] = self.write_proj(v.fields.get(idx), projs[1:], new, st)
                return EnumV(v.ty, v.variant, v.idx, f)
            if v is None:
                return Agg("?", {idx: self.write_proj(None, projs[1:], new, st)}, None)
        if p[0] == "downcast":
            if isinstance(v, EnumV):
                return self.write_proj(v, projs[1:], new, st)
        if p[0] in ("elem", "constindex") and isinstance(v, ListV) and 0 <= p[1] < len(v.items):
            items = list(v.items)
            items[p[1]] = self.write_proj(items[p[1]], projs[1:], new, st)
            return ListV(items, v.ty)
        raise Inconclusive("write through projection %r of %r" % (p, v))

    def resolve_place(self, st, pl):
        """-> (cell, path) after following derefs."""
        fr = st.frames[-1]
        cell = fr.cells[pl.local]
        path = []
        for p in pl.projs:
            if p[0] == "deref":
                v = self.load(st, cell, path)
                cell, path = self.deref_target(st, v)
            else:
                path.append(p)
        return cell, path

    def deref_target(self, st, v):
        if isinstance(v, Ref):
            return v.cell, list(v.path)
        if isinstance(v, Lazy):
            c = "lazy:" + v.name
            if c not in st.mem:
                inner = v.ty.strip()
                m = re.match(r"^(&|\*const |\*mut )\s*('[a-z_]+ )?(mut )?(.*)$", inner, re.S)
                if m:
                    pointee = m.group(4)
                else:
                    mm = re.match(r"^(?:std::boxed::|alloc::boxed::)?Box<(.*)>$", inner, re.S)
                    pointee = mm.group(1) if mm else "?"
                st.mem[c] = self.make_lazy(v.name + "*", pointee)
            return c, []
        if isinstance(v, Agg) and type_base(v.ty) in ("Box", "Arc", "Rc") and 0 in v.fields:
            c = "box:%d" % id(v)
            st.mem.setdefault(c, v.fields[0])
            return c, []
        raise Inconclusive("deref of %r" % (v,))

    def load(self, st, cell, path):
        if cell not in st.mem:
            raise Inconclusive("read of uninitialised cell %s" % cell)
        v = st.mem[cell]
        for p in path:
            v = self.read_proj(st, v, p)
        return v

    def read_place(self, st, pl):
        cell, path = self.resolve_place(st, pl)
        return self.load(st, cell, path)

    def write_place(self, st, pl, val):
        cell, path = self.resolve_place(st, pl)
        if not path:
            st.mem[cell] = val
        else:
            st.mem[cell] = self.write_proj(st.mem.get(cell), path, val, st)

    def store(self, st, cell, path, val):
        if not path:
            st.mem[cell] = val
        else:
            st.mem[cell] = self.write_proj(st.mem.get(cell), list(path), val, st)

    # ---------------------------------------------------------- operands / rvalues
    def const(self, st, text, ty_hint=None):
        t = text.strip()
        m = re.match(r"^(-?\d+)_(u8|i8|u16|i16|u32|i32|u64|i64|u128|i128|usize|isize)$", t)
        if m:
            return Int(z3.BitVecVal(int(m.group(1)), INT_W[m.group(2)]), m.group(2))
        if t == "true":
            return Bool(z3.BoolVal(True))
        if t == "false":
            return Bool(z3.BoolVal(False))
        if t == "()":
            return Unit()
        if t.startswith("'") and t.endswith("'"):
            c = decode_rust_literal(t[1:-1])
            return Int(z3.BitVecVal(ord(c.decode("utf-8")) if c else 0, 32), "char")
        if t.startswith('"') and t.endswith('"'):
            return Str(bytes_to_items(decode_rust_literal(t[1:-1])), "str")
        if t.startswith('b"') and t.endswith('"'):
            return Str(bytes_to_items(decode_rust_literal(t[2:-1])), "bytes")
        if t.startswith("fn "):
            return FnV(t[3:])
        if t.startswith("ZeroSized: "):
            return FnV(t[len("ZeroSized: "):])
        m = re.match(r"^(\w+)\((-?\d+)_(\w+)\)$", t)     # FileLen(0_u64)
        if m and m.group(3) in INT_W:
            return Agg(m.group(1), {0: Int(z3.BitVecVal(int(m.group(2)), INT_W[m.group(3)]), m.group(3))})
        m = re.match(r"^(.*)::(\w+)$", strip_generics(t))
        if m:
            en = m.group(1).split("::")[-1]
            idx = self.prog.src.variant_index(en, m.group(2))
            if idx is not None:
                return EnumV(en, m.group(2), idx, {})
        m = re.match(r"^(?:core::num::|std::num::)?<impl (\w+)>::(MAX|MIN|BITS)$", t) or re.match(r"^(?:std::|core::)?(\w+)::(MAX|MIN|BITS)$", t)
        if m and m.group(1) in INT_W and m.group(1) != "char":
            ty, w = m.group(1), INT_W[m.group(1)]
            if m.group(2) == "BITS":
                return Int(z3.BitVecVal(w, 32), "u32")
            if m.group(2) == "MAX":
                return Int(z3.BitVecVal((2 ** (w - 1) - 1) if is_signed(ty) else (2 ** w - 1), w), ty)
            return Int(z3.BitVecVal((2 ** (w - 1)) if is_signed(ty) else 0, w), ty)
        v = self.const_item(st, t)
        if v is not None:
            return v
        return Opaque("const:" + t)

    def const_item(self, st, t):
        """named / promoted constants with a MIR body"""
        f = None
        m = re.search(r"promoted\[(\d+)\]$", t)
        if m and st.frames:
            f = self.prog.fns.get("const %s::promoted[%s]" % (st.frames[-1].fn.name, m.group(1)))
        else:
            parts = strip_generics(t).split("::")
            cands = self.prog.consts.get(parts[-1], [])
            if len(parts) >= 2:
                typed = [c for c in cands if self.prog.impl_info(c)[1] == parts[-2] or strip_generics(c.name[6:]).split("::")[-2:-1] == [parts[-2]]]
                if len(typed) == 1:
                    f = typed[0]
                elif not typed and len(cands) == 1:
                    f = cands[0]
            elif len(cands) == 1:
                f = cands[0]
        if f is None:
            return None
        if f.const_value is not None:
            return self.const(st, f.const_value)
        s2 = State()
        s2.mem = st.mem
        s2.nframes = st.nframes + 500
        s2.frames.append(self.new_frame(s2, f, []))
        for _ in range(200):
            succ = self.step(s2)
            if len(succ) != 1:
                return None
            s2 = succ[0]
            if s2.status == "return":
                st.nframes = max(st.nframes, s2.nframes)
                return s2.result
            if s2.status != "running":
                return None
        return None

    def operand(self, st, op):
        if op[0] in ("copy", "move"):
            return self.read_place(st, op[1])
        return self.const(st, op[1])

    def as_bv(self, v, width=None):
        if isinstance(v, Int):
            return v.t
        if isinstance(v, Bool):
            return z3.If(v.t, z3.BitVecVal(1, width or 8), z3.BitVecVal(0, width or 8))
        raise Inconclusive("expected integer, got %r" % (v,))

    def binop(self, st, op, a, b):
        if op in ("Eq", "Ne") and isinstance(a, Bool) and isinstance(b, Bool):
            t = a.t == b.t
            return Bool(t if op == "Eq" else z3.Not(t))
        if op in ("BitAnd", "BitOr", "BitXor") and isinstance(a, Bool) and isinstance(b, Bool):
            return Bool({"BitAnd": z3.And, "BitOr": z3.Or, "BitXor": z3.Xor}[op](a.t, b.t))
        if isinstance(a, EnumV) and isinstance(b, EnumV) and op in ("Eq", "Ne"):
            r = a.idx == b.idx
            return Bool(z3.BoolVal(r if op == "Eq" else not r))
        if not (isinstance(a, Int) and isinstance(b, Int)):
            raise Inconclusive("binop %s on %r, %r" % (op, a, b))
        x, y, ty = a.t, b.t, a.ty
        sg = is_signed(ty)
        w = x.size()
        if y.size() != w:
            if op in ("Shl", "Shr", "ShlUnchecked", "ShrUnchecked"):
                y = z3.ZeroExt(w - y.size(), y) if y.size() < w else z3.Extract(w - 1, 0, y)
            else:
                raise Inconclusive("width mismatch in %s" % op)
        if op in ("Add", "AddUnchecked"):
            return Int(x + y, ty)
        if op in ("Sub", "SubUnchecked"):
            return Int(x - y, ty)
        if op in ("Mul", "MulUnchecked"):
            return Int(x * y, ty)
        if op == "Div":
            return Int(x / y if sg else z3.UDiv(x, y), ty)
        if op == "Rem":
            return Int(z3.SRem(x, y) if sg else z3.URem(x, y), ty)
        if op == "BitAnd":
            return Int(x & y, ty)
        if op == "BitOr":
            return Int(x | y, ty)
        if op == "BitXor":
            return Int(x ^ y, ty)
        if op in ("Shl", "ShlUnchecked"):
            return Int(x << y, ty)
        if op in ("Shr", "ShrUnchecked"):
            return Int(x >> y if sg else z3.LShR(x, y), ty)
        if op == "Eq":
            return Bool(x == y)
        if op == "Ne":
            return Bool(x != y)
        if op == "Lt":
            return Bool(x < y if sg else z3.ULT(x, y))
        if op == "Le":
            return Bool(x <= y if sg else z3.ULE(x, y))
        if op == "Gt":
            return Bool(x > y if sg else z3.UGT(x, y))
        if op == "Ge":
            return Bool(x >= y if sg else z3.UGE(x, y))
        if op == "Cmp":
            lt = (x < y) if sg else z3.ULT(x, y)
            return Int(z3.If(lt, z3.BitVecVal(-1, 8), z3.If(x == y, z3.BitVecVal(0, 8), z3.BitVecVal(1, 8))), "i8")
        if op in ("AddWithOverflow", "SubWithOverflow", "MulWithOverflow"):
            if op[0] == "A":
                r = x + y
                ov = z3.Not(z3.BVAddNoOverflow(x, y, sg))
                if sg:
                    ov = z3.Or(ov, z3.Not(z3.BVAddNoUnderflow(x, y)))
            elif op[0] == "S":
                r = x - y
                ov = z3.Not(z3.BVSubNoUnderflow(x, y, sg))
                if sg:
                    ov = z3.Or(ov, z3.Not(z3.BVSubNoOverflow(x, y)))
            else:
                r = x * y
                ov = z3.Not(z3.BVMulNoOverflow(x, y, sg))
                if sg:
                    ov = z3.Or(ov, z3.Not(z3.BVMulNoUnderflow(x, y)))
            return Agg("(%s, bool)" % ty, {0: Int(r, ty), 1: Bool(ov)})
        raise Inconclusive("binop %s" % op)

    def cast(self, st, v, ty, kind):
        ty = ty.strip()
        if ty in INT_W:
            w = INT_W[ty]
            if isinstance(v, Bool):
                return Int(z3.If(v.t, z3.BitVecVal(1, w), z3.BitVecVal(0, w)), ty)
            if isinstance(v, Int):
                sw = v.t.size()
                if sw == w:
                    return Int(v.t, ty)
                if sw > w:
                    return Int(z3.Extract(w - 1, 0, v.t), ty)
                return Int(z3.SignExt(w - sw, v.t) if is_signed(v.ty) else z3.ZeroExt(w - sw, v.t), ty)
            if isinstance(v, EnumV) and v.idx is not None:
                return Int(z3.BitVecVal(v.idx, w), ty)
            if isinstance(v, Lazy):
                return Int(z3.BitVec(sanitize(v.name + "#d"), 64), "isize") if w == 64 else Int(z3.Extract(w - 1, 0, z3.BitVec(sanitize(v.name + "#d"), 64)), ty)
        # pointer / unsize / fn-pointer casts keep the value
        return v

    def discriminant(self, st, v):
        if isinstance(v, EnumV):
            if v.idx is None:
                raise Inconclusive("discriminant of %r: variant index unknown" % (v,))
            return Int(z3.BitVecVal(v.idx, 64), "isize")
        if isinstance(v, Lazy):
            return Int(z3.BitVec(sanitize(v.name + "#d"), 64), "isize")
        raise Inconclusive("discriminant of %r" % (v,))

    def aggregate(self, st, kind, name, ops):
        if kind == "tuple":
            vals = [self.operand(st, o) for o in ops]
            if not vals:
                return Unit()
            return Agg("tuple", dict(enumerate(vals)))
        if kind == "array":
            vals = [self.operand(st, o) for o in ops]
            return Agg("array", dict(enumerate(vals)))
        if kind == "closure":
            vals = [self.operand(st, o[1]) for o in ops]
            return Agg(name, dict(enumerate(vals)))
        sname = strip_generics(name)
        parts = sname.split("::")
        if kind == "struct":
            base = parts[-1]
            # enum struct-variant?  `FsCommand::Move { .. }`
            if len(parts) >= 2:
                idx = self.prog.src.variant_index(parts[-2], parts[-1])
                if idx is not None:
                    return EnumV(parts[-2], parts[-1], idx, {i: self.operand(st, o[1]) for i, o in enumerate(ops)})
            fields = {}
            order = self.prog.src.structs.get(base)
            for i, (fn, o) in enumerate(ops):
                k = order.index(fn) if order and fn in order else i
                fields[k] = self.operand(st, o)
            return Agg(base, fields)
        if kind in ("variant", "unit"):
            vals = [self.operand(st, o) for o in ops]
            if len(parts) >= 2:
                idx = self.prog.src.variant_index(parts[-2], parts[-1])
                if idx is not None:
                    return EnumV(parts[-2], parts[-1], idx, dict(enumerate(vals)))
            if kind == "variant":
                # tuple struct constructor `FileLen(move _1)`
                return Agg(parts[-1], dict(enumerate(vals)))
            dty = getattr(self, "cur_dest_ty", None)
            if dty and len(parts) == 1:
                # bare unit variant (`_1 = NotFound;`): the enum is the type of the destination local
                idx = self.prog.src.variant_index(type_base(dty), parts[-1])
                if idx is not None:
                    return EnumV(type_base(dty), parts[-1], idx, {})
            return self.const(st, name)
        raise Inconclusive("aggregate %s %s" % (kind, name))

    def rvalue(self, st, rv):
        k = rv[0]
        if k == "use":
            return self.operand(st, rv[1])
        if k == "ref":
            cell, path = self.resolve_place(st, rv[2])
            return Ref(cell, path, "mut" in rv[1])
        if k == "binop":
            return self.binop(st, rv[1], self.operand(st, rv[2]), self.operand(st, rv[3]))
        if k == "unop":
            v = self.operand(st, rv[2])
            if rv[1] == "Not":
                if isinstance(v, Bool):
                    return Bool(z3.Not(v.t))
                return Int(~self.as_bv(v), v.ty)
            if rv[1] == "Neg":
                return Int(-self.as_bv(v), v.ty)
            if rv[1] == "PtrMetadata":
                return self.ptr_len(st, v)
            raise Inconclusive("unop " + rv[1])
        if k == "cast":
            return self.cast(st, self.operand(st, rv[1]), rv[2], rv[3])
        if k == "discr":
            return self.discriminant(st, self.read_place(st, rv[1]))
        if k == "aggregate":
            return self.aggregate(st, rv[1], rv[2], rv[3])
        if k == "len":
            return self.ptr_len(st, self.read_place(st, rv[1]))
        if k == "repeat":
            return Opaque("repeat")
        raise Inconclusive("rvalue %r" % (k,))

    def ptr_len(self, st, v):
        if isinstance(v, Ref):
            v = self.load(st, v.cell, v.path)
        if isinstance(v, Str):
            return Int(z3.BitVecVal(len(v.items), 64), "usize")
        if isinstance(v, Agg) and v.ty == "array":
            return Int(z3.BitVecVal(len(v.fields), 64), "usize")
        if isinstance(v, ListV):
            return Int(z3.BitVecVal(len(v.items), 64), "usize")
        if isinstance(v, Lazy):
            return Int(z3.BitVec(sanitize(v.name + "#len"), 64), "usize")
        raise Inconclusive("len of %r" % (v,))

    # ---------------------------------------------------------- running
    def new_frame(self, st, fn, args):
        st.nframes += 1
        fid = st.nframes
        cells = {}
        for idx in fn.locals:
            cells[idx] = "f%d:%s:_%d" % (fid, fn.name[-24:], idx)
        cells.setdefault(0, "f%d:%s:_0" % (fid, fn.name[-24:]))
        fr = Frame(fn, cells, fid)
        for (idx, ty), v in zip(fn.args, args):
            st.mem[cells[idx]] = v
        self.encoded.setdefault(fn.name, text_hash(fn.text))
        return fr

    def run(self, fn, args=None, arg_names=None, pre=None, mem=None):
        """Explore all paths of fn.  args: list of values (None => lazy named after the debug name).
        mem: memory of a parent path (so that references captured by a closure stay valid)."""
        st = State()
        if mem:
            st.mem.update(mem)
            st.nframes = 1000 + len(mem)
        vals = []
        dbg = {v: k for k, v in fn.debug.items()}
        for i, (idx, ty) in enumerate(fn.args):
            if args is not None and i < len(args) and args[i] is not None:
                vals.append(args[i])
            else:
                nm = (arg_names[i] if arg_names and i < len(arg_names) else dbg.get("_%d" % idx, "arg%d" % idx))
                vals.append(self.make_lazy(nm, ty))
        st.frames.append(self.new_frame(st, fn, vals))
        if pre:
            st.pc.extend(pre)
        done = []
        work = [st]
        while work:
            s = work.pop()
            if len(done) + len(work) > self.max_paths:
                raise Inconclusive("more than %d paths in %s" % (self.max_paths, fn.name))
            try:
                succ = self.step(s)
            except Inconclusive as e:
                s.status, s.note = "abort", str(e)
                succ = []
                done.append(Path(s))
                continue
            for x in succ:
                if x.status == "running":
                    work.append(x)
                else:
                    done.append(Path(x))
        return done

    def end(self, st, status, note=""):
        st.status, st.note = status, note
        return [st]

    def step(self, st):
        """Execute the current block of the top frame; returns successor states."""
        fr = st.frames[-1]
        blk = fr.fn.blocks.get(fr.bb)
        if blk is None:
            raise Inconclusive("missing block bb%d in %s" % (fr.bb, fr.fn.name))
        n = fr.visits.get(fr.bb, 0) + 1
        fr.visits[fr.bb] = n
        if n > self.unroll + 1:
            return self.end(st, "bound", "block bb%d of %s visited more than %d times" % (fr.bb, fr.fn.name[-40:], self.unroll + 1))
        self.stats["blocks"] += 1
        for s in blk.stmts:
            if s[0] == "assign":
                self.cur_dest_ty = fr.fn.locals.get(s[1].local) if not s[1].projs else None
                self.write_place(st, s[1], self.rvalue(st, s[2]))
            elif s[0] == "setdiscr":
                raise Inconclusive("SetDiscriminant")
        t = blk.term
        k = t[0]
        if k == "goto":
            fr.bb = t[1]
            return [st]
        if k == "return":
            return self.do_return(st)
        if k == "unreachable":
            return []     # rustc proved this edge impossible
        if k == "resume":
            return self.end(st, "panic", "resume")
        if k == "drop":
            return self.do_drop(st, t)
        if k == "assert":
            v = self.operand(st, t[1])
            c = v.t if isinstance(v, Bool) else (self.as_bv(v) != 0)
            ok = c if t[2] else z3.Not(c)
            out = []
            if self.feasible(st, z3.Not(ok)):
                s2 = st.clone()
                s2.pc.append(z3.Not(ok))
                s2.events.append(Event("panic", "assert", (), None, len(s2.pc), self.site(st), t[3]))
                out += self.end(s2, "panic", "assert failed: " + t[3][:80])
            if self.feasible(st, ok):
                st.pc.append(ok) if not z3.is_true(z3.simplify(ok)) else None
                fr.bb = t[4]
                out.append(st)
            return out
        if k == "switch":
            return self.do_switch(st, t)
        if k == "call":
            return self.do_call(st, t)
        raise Inconclusive("terminator %r" % (k,))

    def site(self, st):
        fr = st.frames[-1]
        return "%s:bb%d" % (fr.fn.name[-50:], fr.bb)

    def do_switch(self, st, t):
        v = self.operand(st, t[1])
        fr = st.frames[-1]
        out = []
        if isinstance(v, Bool):
            conds = []
            for val, bb in t[2]:
                conds.append((z3.Not(v.t) if val == 0 else v.t, bb))
            other = z3.And(*[z3.Not(c) for c, _ in conds]) if conds else z3.BoolVal(True)
        else:
            x = self.as_bv(v)
            conds = [(x == z3.BitVecVal(val, x.size()), bb) for val, bb in t[2]]
            other = z3.And(*[z3.Not(c) for c, _ in conds]) if conds else z3.BoolVal(True)
        if t[3] is not None:
            conds.append((other, t[3]))
        feas = []
        for c, bb in conds:
            cs = z3.simplify(c)
            if z3.is_false(cs):
                continue
            if z3.is_true(cs):
                feas = [(None, bb)]
                break
            # edges into `unreachable` blocks are compiler-proved impossible
            tb = fr.fn.blocks.get(bb)
            if tb is not None and not tb.stmts and tb.term and tb.term[0] == "unreachable":
                continue
            if self.feasible(st, c):
                feas.append((c, bb))
        for i, (c, bb) in enumerate(feas):
            s2 = st if i == len(feas) - 1 else st.clone()
            if c is not None:
                s2.pc.append(c)
            s2.frames[-1].bb = bb
            out.append(s2)
        return out

    def do_return(self, st):
        fr = st.frames[-1]
        rv = st.mem.get(fr.cells[0], Unit())
        if len(st.frames) == 1:
            st.result = rv
            return self.end(st, "return")
        st.frames.pop()
        caller = st.frames[-1]
        if fr.then:
            (nfn, nargs), rest = fr.then[0], fr.then[1:]
            nf = self.new_frame(st, nfn, nargs)
            nf.dest, nf.ret_bb, nf.then, nf.final = fr.dest, fr.ret_bb, rest, fr.final
            st.frames.append(nf)
            return [st]
        if fr.final is not None:
            rv = fr.final
        if fr.post is not None:
            rv = fr.post(rv)
            if isinstance(rv, list):
                # the post-processing forks: [(condition or None, value)]
                alts = [(c, v) for c, v in rv if c is None or self.feasible(st, c)]
                out = []
                for i, (c, v) in enumerate(alts):
                    s2 = st if i == len(alts) - 1 else st.clone()
                    if c is not None:
                        s2.pc.append(c)
                    if fr.dest is not None:
                        self.write_place(s2, fr.dest, v)
                    if fr.ret_bb is None:
                        out += self.end(s2, "diverge")
                        continue
                    s2.frames[-1].bb = fr.ret_bb
                    out.append(s2)
                return out
        if fr.dest is not None:
            self.write_place(st, fr.dest, rv)
        if fr.ret_bb is None:
            return self.end(st, "diverge")
        caller.bb = fr.ret_bb
        return [st]

    def do_drop(self, st, t):
        fr = st.frames[-1]
        ty = fr.fn.locals.get(t[1].local, "?") if not t[1].projs else "?"
        try:
            v = self.read_place(st, t[1])
        except Inconclusive:
            v = None
        st.events.append(Event("drop", "drop(%s)" % type_base(ty), (v,), None, len(st.pc), self.site(st), ty))
        hook = self.summaries.get("@drop")
        if hook:
            r = hook(self, st, t, ty, v)
            if r is not None:
                return r
        fr.bb = t[2]
        return [st]

    def canon(self, st, v, depth=0):
        """canonical text of a symbolic value"""
        if depth > 4:
            return "?"
        if isinstance(v, Ref):
            try:
                return self.canon(st, self.load(st, v.cell, v.path), depth + 1)
            except Inconclusive:
                return "&" + str(v.cell)
        if isinstance(v, Lazy):
            return v.name
        if isinstance(v, (Int, Bool)):
            return str(z3.simplify(v.t))
        if isinstance(v, Agg):
            if v.base and not v.fields:
                return v.base
            return "%s{%s}" % (type_base(v.ty), ",".join("%s:%s" % (k, self.canon(st, x, depth + 1)) for k, x in sorted(v.fields.items(), key=lambda kv: str(kv[0]))))
        if isinstance(v, EnumV):
            return "%s(%s)" % (v.variant, ",".join(self.canon(st, x, depth + 1) for x in v.fields.values()))
        return repr(v)[:40]

    def havoc_refs(self, st, args, callee):
        """A havocked callee may write through every `&mut` it receives (also inside tuples / structs)."""
        todo, refs, seen = list(args), [], 0
        while todo and seen < 200:
            a = todo.pop()
            seen += 1
            if isinstance(a, Ref):
                if a.mut:
                    refs.append(a)
            elif isinstance(a, (Agg, EnumV)):
                todo.extend(a.fields.values())
            elif isinstance(a, ListV):
                todo.extend(a.items)
        for a in refs:
            try:
                old = self.load(st, a.cell, a.path)
            except Inconclusive:
                old = None
            ty = getattr(old, "ty", "?") if old is not None else "?"
            if isinstance(old, Int):
                new = self.make_lazy(st.fresh("mut"), old.ty)
            elif isinstance(old, Bool):
                new = self.make_lazy(st.fresh("mut"), "bool")
            else:
                new = Lazy(sanitize(st.fresh("mut")), ty if isinstance(ty, str) else "?")
            try:
                self.store(st, a.cell, a.path, new)
            except Inconclusive:
                pass

    def do_call(self, st, t):
        _, dest, callee, argops, ret_bb = t
        fr = st.frames[-1]
        args = [self.operand(st, o) for o in argops]
        dest_ty = fr.fn.locals.get(dest.local, "?") if not dest.projs else "?"
        norm = strip_generics_keep_as(callee) if callee.startswith("<") else strip_generics(callee)
        # 1. summaries
        for pat, fnc in self.summaries.items():
            if pat.startswith("@"):
                continue
            if re.search(pat, norm):
                res = fnc(self, st, callee, args, dest_ty)
                if res is NotImplemented:
                    continue
                self.stats["summarised"] += 1
                if isinstance(res, tuple) and len(res) == 3 and res[0] == "invoke":
                    nf = self.new_frame(st, res[1], res[2])
                    nf.dest, nf.ret_bb = dest, ret_bb
                    st.frames.append(nf)
                    return [st]
                if isinstance(res, tuple) and len(res) == 3 and res[0] == "invoke_seq":
                    calls, final = res[1], res[2]
                    if not calls:
                        return self.finish_call(st, dest, ret_bb, final)
                    nf = self.new_frame(st, calls[0][0], calls[0][1])
                    nf.dest, nf.ret_bb, nf.then, nf.final = dest, ret_bb, tuple(calls[1:]), final
                    st.frames.append(nf)
                    return [st]
                return self.finish_call(st, dest, ret_bb, res)
        # 2. inline crate-local
        target = self.prog.resolve_call(callee, fr.fn)
        if target is None and args and isinstance(args[0], (Agg, FnV)) and re.search(r"(FnOnce|FnMut|Fn)(<.*>)?>::call(_once|_mut)?$", norm):
            target = None
        if target is not None and len(st.frames) < self.max_depth and (self.inline_all or self.inline(norm, target)):
            self.stats["inlined"] += 1
            nf = self.new_frame(st, target, args)
            nf.dest, nf.ret_bb = dest, ret_bb
            st.frames.append(nf)
            return [st]
        # 3. havoc + event (the arguments' canonical text is taken before `&mut` targets are havocked)
        self.stats["havoc"] += 1
        rv = self.make_lazy(st.fresh(norm.split("::")[-1]), dest_ty)
        st.events.append(Event("call", norm, tuple(args), rv, len(st.pc), self.site(st),
                               {"resolved": target.name if target is not None else None,
                                "args": [self.canon(st, a) for a in args]}))
        self.havoc_refs(st, args, norm)
        return self.finish_call(st, dest, ret_bb, [(None, rv)])

    def finish_call(self, st, dest, ret_bb, res):
        """res: a value, or a list of (extra condition or None, value|'diverge') alternatives, or
        ('multi', [(cond, ('store', ref, new value, return value))...]) for alternatives with a side effect."""
        if isinstance(res, V):
            res = [(None, res)]
        if isinstance(res, tuple) and len(res) == 2 and res[0] == "multi":
            res = res[1]
        out = []
        alts = []
        for c, v in res:
            if c is None or self.feasible(st, c):
                alts.append((c, v))
        for i, (c, v) in enumerate(alts):
            s2 = st if i == len(alts) - 1 else st.clone()
            if c is not None:
                s2.pc.append(c)
            if isinstance(v, tuple) and v and v[0] == "store":
                self.store(s2, v[1].cell, v[1].path, v[2])
                v = v[3]
            if isinstance(v, tuple) and v and v[0] == "invoke":
                # alternative that runs a crate-local function / closure body; optional post-processing of its result
                nf = self.new_frame(s2, v[1], v[2])
                nf.dest, nf.ret_bb = dest, ret_bb
                nf.post = v[3] if len(v) > 3 else None
                s2.frames.append(nf)
                out.append(s2)
                continue
            if isinstance(v, str) and v == "diverge" or ret_bb is None:
                out += self.end(s2, "panic" if isinstance(v, str) and v == "diverge" else "diverge", "call does not return")
                continue
            self.write_place(s2, dest, v)
            s2.frames[-1].bb = ret_bb
            out.append(s2)
        return out


# ------------------------------------------------------------------ literals / sequences

def decode_rust_literal(s):
    """Body of a Rust (byte) string/char literal as printed in MIR -> bytes."""
    out = bytearray()
    i = 0
    while i < len(s):
        c = s[i]
        if c == "\\":
            n = s[i + 1]
            if n == "x":
                out.append(int(s[i + 2:i + 4], 16))
                i += 4
                continue
            if n == "u":
                j = s.index("}", i)
                out += chr(int(s[i + 3:j], 16)).encode("utf-8")
                i = j + 1
                continue
            out += {"n": b"\n", "t": b"\t", "r": b"\r", "0": b"\0", "\\": b"\\", "'": b"'", '"': b'"'}.get(n, n.encode())
            i += 2
            continue
        out += c.encode("utf-8")
        i += 1
    return bytes(out)


def bytes_to_items(b):
    return tuple(z3.BitVecVal(x, 8) for x in b)
