"""Summaries for the insertion-ordered map (indexmap::IndexMap, by its documented contract) and a few more list
adapters (position, from_iter, index_mut with a concrete index, slices by RangeFrom, sum of integers, flat_map on values).
The map is a list of (key, value) pairs; key equality of lazily materialised structs is the conjunction of the equalities of
their integer fields (FileId = {inode, device})."""
import re

import z3

import listsum
from common import Inconclusive
from mirsym import Agg, Bool, EnumV, FnV, Int, Lazy, ListV, Ref, Str, Unit, sanitize
from summaries import deref_val, meth_name


def key_eq(e, st, a, b):
    """z3 Bool: equality of two map keys (integers, or structs of integers named by the source tables)"""
    a, b = deref_val(e, st, a), deref_val(e, st, b)
    if isinstance(a, Int) and isinstance(b, Int):
        return a.t == b.t
    ta = getattr(a, "ty", None)
    from mirsym import type_base
    fields = e.prog.src.structs.get(type_base(ta or "")) if ta else None
    if fields and isinstance(a, (Lazy, Agg)) and isinstance(b, (Lazy, Agg)):
        conj = []
        for i, _ in enumerate(fields):
            fa = e.read_proj(st, a, ("field", i, "u64"))
            fb = e.read_proj(st, b, ("field", i, "u64"))
            if not (isinstance(fa, Int) and isinstance(fb, Int)):
                raise Inconclusive("map key field is not an integer: %r" % (fa,))
            conj.append(fa.t == fb.t)
        return z3.And(*conj)
    raise Inconclusive("map key equality of %r and %r" % (a, b))


def s_map_new(e, st, callee, args, dty):
    return Agg("IndexMap", {0: ListV((), "pairs")})


def s_map_entry(e, st, callee, args, dty):
    if not isinstance(args[0], Ref):
        return NotImplemented
    return Agg("IdxEntry", {0: args[0], 1: args[1]})


def s_entry_or_insert(e, st, callee, args, dty):
    ent = args[0]
    if not (isinstance(ent, Agg) and ent.ty == "IdxEntry"):
        return NotImplemented
    mref, key = ent.fields[0], ent.fields[1]
    m = deref_val(e, st, mref)
    pairs = m.fields[0]
    alts = []
    none_eq = []
    for i, pr in enumerate(pairs.items):
        eq = key_eq(e, st, key, pr.fields[0])
        cond = z3.And(*(none_eq + [eq])) if none_eq else eq
        ref = Ref(mref.cell, mref.path + (("field", 0, "?"), ("elem", i), ("field", 1, "?")), True)
        alts.append((cond, ref))
        none_eq.append(z3.Not(eq))
    # not present: append (key, default)
    n = len(pairs.items)
    newpairs = ListV(pairs.items + (Agg("tuple", {0: key, 1: args[1]}),), "pairs")
    newmap = Agg("IndexMap", {0: newpairs})
    ref = Ref(mref.cell, mref.path + (("field", 0, "?"), ("elem", n), ("field", 1, "?")), True)
    cond = z3.And(*none_eq) if none_eq else None
    alts.append((cond, ("store", mref, newmap, ref)))
    return ("multi", alts)


def s_map_into_values(e, st, callee, args, dty):
    m = deref_val(e, st, args[0])
    if not (isinstance(m, Agg) and m.ty == "IndexMap"):
        return NotImplemented
    return ListV([p.fields[1] for p in m.fields[0].items], "iter")


def s_map_len(e, st, callee, args, dty):
    m = deref_val(e, st, args[0])
    if not (isinstance(m, Agg) and m.ty == "IndexMap"):
        return NotImplemented
    return Int(z3.BitVecVal(len(m.fields[0].items), 64), "usize")


def s_position(e, st, callee, args, dty):
    """Iterator::position(pred) on a concrete-length list: first index whose predicate holds"""
    l = listsum.as_list(e, st, args[0])
    if l is None:
        return NotImplemented
    alts, negs = [], []
    for i, it in enumerate(l.items):
        c = listsum.closure_term(e, st, args[1], [it])
        cond = z3.And(*(negs + [c]))
        alts.append((cond, EnumV("Option", "Some", 1, {0: Int(z3.BitVecVal(i, 64), "usize")})))
        negs.append(z3.Not(c))
    alts.append((z3.And(*negs) if negs else None, EnumV("Option", "None", 0, {})))
    return alts


def s_from_iter(e, st, callee, args, dty):
    l = listsum.as_list(e, st, args[0])
    if l is None:
        return NotImplemented
    return ListV(l.items, "Vec")


def s_index_mut(e, st, callee, args, dty):
    r, i = args[0], args[1]
    l = listsum.as_list(e, st, r)
    if l is None or not isinstance(r, Ref) or not isinstance(i, Int):
        return NotImplemented
    iv = z3.simplify(i.t)
    if not z3.is_bv_value(iv):
        return NotImplemented
    k = iv.as_long()
    if k >= len(l.items):
        return [(None, "diverge")]
    return Ref(r.cell, r.path + (("elem", k),), True)


def s_index_range_from(e, st, callee, args, dty):
    """<Vec<T> as Index<RangeFrom<usize>>>::index with a possibly symbolic start: one alternative per start value"""
    l = listsum.as_list(e, st, args[0])
    rng = args[1]
    if l is None or not isinstance(rng, Agg):
        return NotImplemented
    start = rng.fields.get(0)
    if not isinstance(start, Int):
        return NotImplemented
    sv = z3.simplify(start.t)
    n = len(l.items)
    if z3.is_bv_value(sv):
        k = sv.as_long()
        if k > n:
            return [(None, "diverge")]
        return ListV(l.items[k:], "slice")
    alts = [(start.t == z3.BitVecVal(k, 64), ListV(l.items[k:], "slice")) for k in range(n + 1)]
    alts.append((z3.UGT(start.t, z3.BitVecVal(n, 64)), "diverge"))
    return alts


def s_sum_ints(e, st, callee, args, dty):
    l = listsum.as_list(e, st, args[0])
    if l is None:
        return NotImplemented
    t = z3.BitVecVal(0, 64)
    for x in l.items:
        x = deref_val(e, st, x)
        if not isinstance(x, Int):
            return NotImplemented
        t = t + x.t
    return Int(z3.simplify(t), "usize")


def s_vec_len_any(e, st, callee, args, dty):
    l = listsum.as_list(e, st, args[0])
    if l is None:
        return NotImplemented
    return Int(z3.BitVecVal(len(l.items), 64), "usize")


def s_box_into_vec(e, st, callee, args, dty):
    """`vec![a, b, ..]`: Box::new_uninit() + write of the array through the raw pointer + box_assume_init_into_vec_unsafe"""
    b = args[0]
    if not isinstance(b, Lazy):
        return NotImplemented
    pref = "lazy:" + sanitize(b.name)
    cells = [k for k in st.mem if isinstance(k, str) and k.startswith(pref)]
    if len(cells) != 1:
        return NotImplemented
    v = st.mem[cells[0]]
    for _ in range(6):
        if isinstance(v, Agg) and v.ty == "array":
            return ListV([v.fields[i] for i in sorted(v.fields)], "Vec")
        if isinstance(v, Agg) and len(v.fields) == 1:
            v = list(v.fields.values())[0]
        else:
            break
    return NotImplemented


def s_slice_is_empty(e, st, callee, args, dty):
    l = listsum.as_list(e, st, args[0])
    if l is None:
        return NotImplemented
    return Bool(z3.BoolVal(len(l.items) == 0))


MAP = {
    r"^core::slice::(<impl \[.*\]>::)?is_empty$": s_slice_is_empty,
    r"^core::slice::(<impl \[.*\]>::)?len$": s_vec_len_any,
    r"^(std::boxed::|alloc::boxed::)?box_assume_init_into_vec_unsafe$": s_box_into_vec,
    r"^(indexmap::(map::)?)?IndexMap::new$": s_map_new,
    r"^(indexmap::(map::)?)?IndexMap::entry$": s_map_entry,
    r"^(indexmap::(map::)?)?(map::)?Entry::or_insert$": s_entry_or_insert,
    r"^(indexmap::(map::)?)?IndexMap::into_values$": s_map_into_values,
    r"^(indexmap::(map::)?)?IndexMap::len$": s_map_len,
    r"^<.* as (std::iter::)?Iterator>::position$": s_position,
    r"^<(std::vec::|alloc::vec::)?Vec<.*> as (std::iter::)?FromIterator(<.*>)?>::from_iter$": s_from_iter,
    r"^<(std::vec::|alloc::vec::)?Vec<.*> as (std::ops::)?IndexMut(<usize>)?>::index_mut$": s_index_mut,
    r"^<(std::vec::|alloc::vec::)?Vec<.*> as (std::ops::)?Index(<.*>)?>::index$": s_index_range_from,
}
