"""Summaries of the Option / Result combinators (opt-in: pass `extra=optsum.SUMMARIES` to oblig.engine).
Closure arguments built in the analysed code are executed (their MIR body is invoked); anything else falls back to havoc."""
import re

import z3

from mirsym import Agg, Bool, EnumV, FnV, Int, Lazy, Ref, Unit
from summaries import deref_val, enum_payload, generic_args, meth_name, option_variants, result_variants

NONE = lambda: EnumV("Option", "None", 0, {})
SOME = lambda p: EnumV("Option", "Some", 1, {0: p})
OK = lambda p: EnumV("Result", "Ok", 0, {0: p})
ERR = lambda p: EnumV("Result", "Err", 1, {0: p})


def closure_invocation(e, st, f, inner, post=None):
    """('invoke', fn, args, post) for a closure value / capture-less closure / crate-local fn item, or None"""
    fv = deref_val(e, st, f)
    span = fv.ty if isinstance(fv, Agg) and "closure" in fv.ty else (fv.name if isinstance(fv, FnV) and "closure" in fv.name else None)
    if span is None:
        if isinstance(fv, FnV):
            # tuple-struct / enum-variant constructors used as functions: `.map(Some)`
            nm = fv.name.split("::")[-1]
            if nm in ("Some", "Ok", "Err") and len(inner) == 1:
                val = {"Some": SOME, "Ok": OK, "Err": ERR}[nm](inner[0])
                return ("value", post(val) if post else val)
            target = e.prog.resolve_call(fv.name)
            if target is not None:
                return ("invoke", target, list(inner), post)
        return None
    cf = e.prog.closure_by_span(span)
    if cf is None:
        return None
    if isinstance(fv, FnV):
        fv = Agg(span, {})
    a0 = fv
    if cf.args and cf.args[0][1].strip().startswith("&"):
        if isinstance(f, Ref):
            a0 = f
        else:
            cell = "optclo:%d" % st.counter
            st.counter += 1
            st.mem[cell] = fv
            a0 = Ref(cell, (), True)
    return ("invoke", cf, [a0] + list(inner), post)


def _alts(items):
    out = []
    for c, v in items:
        if isinstance(v, tuple) and v and v[0] == "value":
            v = v[1]
        out.append((c, v))
    return out


def _is_result(callee):
    return bool(re.match(r"^(std::result::|core::result::)?Result", callee))


def s_map(e, st, callee, args, dty):
    v, f = args[0], args[1]
    items = []
    if _is_result(callee):
        for c, ok, p in result_variants(e, st, v):
            if ok:
                inv = closure_invocation(e, st, f, [p], OK)
                if inv is None:
                    return NotImplemented
                items.append((c, inv))
            else:
                items.append((c, ERR(p)))
    else:
        for c, some, p in option_variants(e, st, v):
            if some:
                inv = closure_invocation(e, st, f, [p], SOME)
                if inv is None:
                    return NotImplemented
                items.append((c, inv))
            else:
                items.append((c, NONE()))
    return _alts(items)


def s_and_then(e, st, callee, args, dty):
    v, f = args[0], args[1]
    items = []
    variants = result_variants(e, st, v) if _is_result(callee) else option_variants(e, st, v)
    for c, good, p in variants:
        if good:
            inv = closure_invocation(e, st, f, [p])
            if inv is None:
                return NotImplemented
            items.append((c, inv))
        else:
            items.append((c, ERR(p) if _is_result(callee) else NONE()))
    return _alts(items)


def s_or(e, st, callee, args, dty):
    v, alt = args[0], args[1]
    items = []
    if _is_result(callee):
        for c, ok, p in result_variants(e, st, v):
            items.append((c, OK(p) if ok else alt))
    else:
        for c, some, p in option_variants(e, st, v):
            items.append((c, SOME(p) if some else alt))
    return items


def s_or_else(e, st, callee, args, dty):
    v, f = args[0], args[1]
    items = []
    if _is_result(callee):
        for c, ok, p in result_variants(e, st, v):
            if ok:
                items.append((c, OK(p)))
            else:
                inv = closure_invocation(e, st, f, [p])
                if inv is None:
                    return NotImplemented
                items.append((c, inv))
    else:
        for c, some, p in option_variants(e, st, v):
            if some:
                items.append((c, SOME(p)))
            else:
                inv = closure_invocation(e, st, f, [])
                if inv is None:
                    return NotImplemented
                items.append((c, inv))
    return _alts(items)


def s_unwrap_or_else(e, st, callee, args, dty):
    v, f = args[0], args[1]
    items = []
    if _is_result(callee):
        for c, ok, p in result_variants(e, st, v, dty):
            if ok:
                items.append((c, p))
            else:
                inv = closure_invocation(e, st, f, [p])
                if inv is None:
                    return NotImplemented
                items.append((c, inv))
    else:
        for c, some, p in option_variants(e, st, v, dty):
            if some:
                items.append((c, p))
            else:
                inv = closure_invocation(e, st, f, [])
                if inv is None:
                    return NotImplemented
                items.append((c, inv))
    return _alts(items)


def s_result_ok(e, st, callee, args, dty):
    return [(c, SOME(p) if ok else NONE()) for c, ok, p in result_variants(e, st, args[0])]


def s_result_err(e, st, callee, args, dty):
    return [(c, NONE() if ok else SOME(p)) for c, ok, p in result_variants(e, st, args[0])]


def s_ok_or(e, st, callee, args, dty):
    return [(c, OK(p) if some else ERR(args[1])) for c, some, p in option_variants(e, st, args[0])]


def s_as_ref(e, st, callee, args, dty):
    r = args[0]
    if not isinstance(r, Ref):
        return NotImplemented
    v = deref_val(e, st, r)
    if _is_result(callee):
        out = []
        for c, ok, p in result_variants(e, st, v):
            path = r.path + (("downcast", "Ok" if ok else "Err"), ("field", 0, "?"))
            out.append((c, (OK if ok else ERR)(Ref(r.cell, path, r.mut))))
        return out
    out = []
    for c, some, p in option_variants(e, st, v):
        out.append((c, SOME(Ref(r.cell, r.path + (("downcast", "Some"), ("field", 0, "?")), r.mut)) if some else NONE()))
    return out


def s_zip(e, st, callee, args, dty):
    out = []
    for c1, s1, p1 in option_variants(e, st, args[0]):
        for c2, s2, p2 in option_variants(e, st, args[1]):
            conds = [c for c in (c1, c2) if c is not None]
            c = z3.And(*conds) if conds else None
            out.append((c, SOME(Agg("tuple", {0: p1, 1: p2})) if (s1 and s2) else NONE()))
    return out


def s_option_into_iter(e, st, callee, args, dty):
    """Option<T>::into_iter -> a list of 0 or 1 elements"""
    from mirsym import ListV
    v = args[0]
    if isinstance(v, EnumV) and v.ty == "Option":
        return ListV([v.fields[0]] if v.variant == "Some" else [], "iter")
    return NotImplemented


def s_map_err(e, st, callee, args, dty):
    v, f = args[0], args[1]
    items = []
    for c, ok, p in result_variants(e, st, v):
        if ok:
            items.append((c, OK(p)))
        else:
            inv = closure_invocation(e, st, f, [p], ERR)
            if inv is None:
                return NotImplemented
            items.append((c, inv))
    return _alts(items)


def s_enum_into_iter(e, st, callee, args, dty):
    """<Option<T> / Result<T, E> as IntoIterator>::into_iter -> list of 0 or 1 elements"""
    from mirsym import ListV
    v = args[0]
    if isinstance(v, Ref):
        return NotImplemented
    m = re.match(r"^<(std::|core::)?(option::Option|result::Result|Option|Result)<", callee)
    if not m:
        return NotImplemented
    if "Result" in m.group(2):
        return [(c, ListV([p] if ok else [], "iter")) for c, ok, p in result_variants(e, st, v)]
    return [(c, ListV([p] if some else [], "iter")) for c, some, p in option_variants(e, st, v)]


def _list(e, st, v):
    from mirsym import ListV
    v0 = deref_val(e, st, v)
    return v0 if isinstance(v0, ListV) else None


def s_for_each(e, st, callee, args, dty):
    l = _list(e, st, args[0])
    if l is None:
        return NotImplemented
    calls = []
    for it in l.items:
        inv = closure_invocation(e, st, args[1], [it])
        if inv is None or inv[0] != "invoke":
            return NotImplemented
        calls.append((inv[1], inv[2]))
    return ("invoke_seq", calls, Unit())


def s_filter01(e, st, callee, args, dty):
    """Iterator::filter on a list of 0 or 1 elements: the predicate's body is executed"""
    from mirsym import ListV
    l = _list(e, st, args[0])
    if l is None or len(l.items) > 1:
        return NotImplemented
    if not l.items:
        return ListV([], "iter")
    it = l.items[0]
    cell = "filt:%d" % st.counter
    st.counter += 1
    st.mem[cell] = it

    def post(r):
        if isinstance(r, Bool):
            return [(r.t, ListV([it], "iter")), (z3.Not(r.t), ListV([], "iter"))]
        return ListV([it], "iter")
    inv = closure_invocation(e, st, args[1], [Ref(cell, (), False)], post)
    if inv is None or inv[0] != "invoke":
        return NotImplemented
    return [(None, inv)]


def s_enum_eq(e, st, callee, args, dty):
    """PartialEq::eq / ne on field-less enums (e.g. io::ErrorKind): comparison of the discriminants"""
    a, b = deref_val(e, st, args[0]), deref_val(e, st, args[1])
    if isinstance(a, (Lazy, EnumV)) and isinstance(b, (Lazy, EnumV)):
        try:
            t = e.discriminant(st, a).t == e.discriminant(st, b).t
        except Exception:
            return NotImplemented
        return Bool(t if meth_name(callee) == "eq" else z3.Not(t))
    return NotImplemented


def s_is_some_and(e, st, callee, args, dty):
    """Option::is_some_and / is_none_or, Result::is_ok_and / is_err_and"""
    v, f = args[0], args[1]
    m = meth_name(callee)
    items = []
    if _is_result(callee):
        for c, ok, p in result_variants(e, st, v):
            if ok == (m == "is_ok_and"):
                inv = closure_invocation(e, st, f, [p])
                if inv is None:
                    return NotImplemented
                items.append((c, inv))
            else:
                items.append((c, Bool(z3.BoolVal(False))))
    else:
        for c, some, p in option_variants(e, st, v):
            if some:
                inv = closure_invocation(e, st, f, [p])
                if inv is None:
                    return NotImplemented
                items.append((c, inv))
            else:
                items.append((c, Bool(z3.BoolVal(m == "is_none_or"))))
    return _alts(items)


def s_map_or(e, st, callee, args, dty):
    """Option::map_or(default, f) / Result::map_or(default, f)"""
    v, d, f = args[0], args[1], args[2]
    items = []
    variants = result_variants(e, st, v) if _is_result(callee) else option_variants(e, st, v)
    for c, good, p in variants:
        if good:
            inv = closure_invocation(e, st, f, [p])
            if inv is None:
                return NotImplemented
            items.append((c, inv))
        else:
            items.append((c, d))
    return _alts(items)


def s_bool_then(e, st, callee, args, dty):
    """bool::then(f) / bool::then_some(v)"""
    c = args[0]
    if not isinstance(c, Bool):
        return NotImplemented
    if meth_name(callee) == "then_some":
        return [(c.t, SOME(args[1])), (z3.Not(c.t), NONE())]
    inv = closure_invocation(e, st, args[1], [], SOME)
    if inv is None:
        return NotImplemented
    return _alts([(c.t, inv), (z3.Not(c.t), NONE())])


P = r"^(std::option::|core::option::)?Option::"
R = r"^(std::result::|core::result::)?Result::"

SUMMARIES = {
    P + r"map$": s_map, R + r"map$": s_map,
    P + r"and_then$": s_and_then, R + r"and_then$": s_and_then,
    P + r"or$": s_or, R + r"or$": s_or,
    P + r"or_else$": s_or_else, R + r"or_else$": s_or_else,
    P + r"unwrap_or_else$": s_unwrap_or_else, R + r"unwrap_or_else$": s_unwrap_or_else,
    R + r"ok$": s_result_ok, R + r"err$": s_result_err,
    P + r"ok_or$": s_ok_or,
    P + r"as_ref$": s_as_ref, R + r"as_ref$": s_as_ref,
    # Option<String>::as_deref: a view of the payload (the string model does not distinguish String from &str)
    P + r"as_deref$": s_as_ref,
    P + r"zip$": s_zip,
    R + r"map_err$": s_map_err,
    r"^(core::bool::|std::bool::)?(<impl bool>::|bool::)?then(_some)?$": s_bool_then,
    P + r"(is_some_and|is_none_or)$": s_is_some_and, R + r"(is_ok_and|is_err_and)$": s_is_some_and,
    P + r"map_or$": s_map_or, R + r"map_or$": s_map_or,
    r"^<(std::|core::)?(option::|result::)?(Option|Result)<.*> as (std::iter::)?IntoIterator>::into_iter$": s_enum_into_iter,
    r"^<.* as (std::iter::)?Iterator>::for_each$": s_for_each,
    r"^<.* as (std::iter::)?Iterator>::filter$": s_filter01,
    r"^<(std::io::|std::io::error::)?ErrorKind as (std::cmp::)?PartialEq>::(eq|ne)$": s_enum_eq,
}
