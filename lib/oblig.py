"""Obligation helpers for E2 (mirsym): context set-up, per-path validity checks, model extraction."""
import os
import re
import time

import z3

import mirsym
import summaries
from common import Inconclusive, Obligation, copy_repo, say, scratch_root

CACHE = os.environ.get("VERIF_CACHE", "/var/tmp/fclones-verif-cache")


class Ctx:
    """Scratch copy of /repo + its MIR (lib and, on demand, bin)."""

    def __init__(self):
        self.src = copy_repo("mir-src")
        self.srcdir = os.path.join(self.src, "fclones", "src")
        self._lib = None
        self._bin = None

    def _dump(self, target):
        crate = os.path.join(self.src, "fclones")
        os.makedirs(CACHE, exist_ok=True)
        import subprocess
        from common import cargo_env
        tdir = os.path.join(CACHE, "mir-target")
        subprocess.run(["touch", os.path.join(crate, "src", "lib.rs"), os.path.join(crate, "src", "main.rs")])
        cmd = ["cargo", "+nightly", "rustc", "--offline", "--target-dir", tdir]
        cmd += ["--lib"] if target == "lib" else ["--bin", "fclones"]
        cmd += ["--", "-Zunpretty=mir", "-C", "debug-assertions=off", "-C", "overflow-checks=on"]
        t0 = time.time()
        p = subprocess.run(cmd, cwd=crate, env=cargo_env(), stdout=subprocess.PIPE, stderr=subprocess.PIPE, timeout=1800)
        out = p.stdout.decode(errors="replace")
        if p.returncode != 0 or len(out) < 1000:
            raise Inconclusive("MIR dump of the working tree failed (rc=%d): %s" % (
                p.returncode, p.stderr.decode(errors="replace")[-1200:]))
        say("  MIR dump (%s): %d lines, %.0fs" % (target, out.count("\n"), time.time() - t0))
        return out

    @property
    def lib(self):
        if self._lib is None:
            self._lib = mirsym.Program(self._dump("lib"), self.srcdir)
        return self._lib

    @property
    def bin(self):
        if self._bin is None:
            self._bin = mirsym.Program(self._dump("bin"), self.srcdir)
        return self._bin


def engine(prog, inline=None, extra=None, unroll=1, **kw):
    s = {}
    if extra:
        # obligation-specific summaries take precedence (also over BASE entries with the same pattern)
        s.update(extra)
    for k, v in summaries.BASE.items():
        s.setdefault(k, v)
    if isinstance(inline, str):
        pat = inline
        inl = lambda c, t: bool(re.search(pat, t.name))
    else:
        inl = inline
    return mirsym.Engine(prog, inline=inl, summaries=s, unroll=unroll, **kw)


def model_dict(m, limit=40):
    d = {}
    for decl in m.decls()[:limit]:
        v = m[decl]
        try:
            d[decl.name()] = v.as_long() if z3.is_bv_value(v) else (z3.is_true(v) if z3.is_bool(v) else str(v))
        except Exception:
            d[decl.name()] = str(v)
    return d


def check_paths(eng, paths, name, prop, functions, bounds="loop-free, 64-bit", need_witness=True, key=None,
                allow=("return", "panic", "diverge")):
    """For every explored path p: prop(p) -> z3 Bool that must hold under p's path condition,
    or None when the path is irrelevant.  unsat(pc & !prop) on all paths => holds."""
    o = Obligation(name, "E2 mirsym/z3", functions, bounds)
    o.key = key or name
    q0, t0 = eng.queries, eng.solver_s
    relevant = 0
    bad = [p for p in paths if p.status not in allow]
    if bad:
        o.verdict = "inconclusive"
        o.detail = "%d path(s) ended with status %s: %s" % (len(bad), bad[0].status, bad[0].note[:200])
        return o
    for p in paths:
        f = prop(p)
        if f is None:
            continue
        relevant += 1
        r = eng.check(*(list(p.pc) + [z3.Not(f)]))
        if r == z3.sat:
            eng.solver.push()
            for c in p.pc:
                eng.solver.add(c)
            eng.solver.add(z3.Not(f))
            eng.solver.check()
            m = eng.solver.model()
            eng.solver.pop()
            o.verdict = "violated"
            o.cex = {"model": model_dict(m), "path_condition": [str(z3.simplify(c)) for c in p.pc][:30],
                     "events": [repr(ev)[:160] for ev in p.events][:30], "path_status": p.status}
            o.detail = "counterexample on a path with %d branch conditions" % len(p.pc)
            o._model = m
            o._path = p
            break
        if r == z3.unknown:
            o.verdict, o.detail = "inconclusive", "solver returned unknown"
            break
    else:
        o.verdict = "holds"
    o.queries = eng.queries - q0
    o.solver_s = eng.solver_s - t0
    o.stats = {"paths": len(paths), "relevant_paths": relevant, "states": len(paths),
               "transitions": eng.stats.get("blocks", 0)}
    o.witness = "%d of %d paths reach the asserted situation" % (relevant, len(paths))
    if o.verdict == "holds" and need_witness and relevant == 0:
        o.verdict, o.detail = "inconclusive", "vacuous: no explored path reaches the asserted situation"
    return o


def valid(eng, name, formula, functions, bounds="64-bit", witness=None, key=None):
    """formula must be valid (unsat of its negation)."""
    o = Obligation(name, "E2 mirsym/z3", functions, bounds)
    o.key = key or name
    q0, t0 = eng.queries, eng.solver_s
    r = eng.check(z3.Not(formula))
    if r == z3.unsat:
        o.verdict = "holds"
    elif r == z3.sat:
        eng.solver.push()
        eng.solver.add(z3.Not(formula))
        eng.solver.check()
        m = eng.solver.model()
        eng.solver.pop()
        o.verdict = "violated"
        o.cex = {"model": model_dict(m)}
        o._model = m
        o.detail = "formula not valid"
    else:
        o.verdict, o.detail = "inconclusive", "solver returned unknown"
    if witness is not None and o.verdict == "holds":
        rw = eng.check(witness)
        o.witness = "antecedent satisfiable: %s" % rw
        if rw != z3.sat:
            o.verdict, o.detail = "inconclusive", "vacuous: antecedent unsatisfiable"
    o.queries = eng.queries - q0
    o.solver_s = eng.solver_s - t0
    o.stats = {"states": 1, "transitions": 1}
    return o


def ev_ret_bool(ev):
    """z3 Bool of an event's havocked boolean return value."""
    r = ev.ret
    if isinstance(r, mirsym.Bool):
        return r.t
    raise Inconclusive("event %r does not return bool" % (ev,))


def first(events, pattern):
    for e in events:
        if re.search(pattern, e.callee):
            return e
    return None


def fnames(eng):
    return sorted("%s#%s" % (re.sub(r"<impl at fclones/src/(\w+)\.rs:\d+:\d+: \d+:\d+>", r"<impl \1>", k)[-70:], v)
                  for k, v in eng.encoded.items())


def run_closure(prog, clo, p, extra_args=(), unroll=1, eng=None, extra=None):
    """Runs the body of the closure value `clo` (an Agg built on path p) under p's path condition and memory.
    Returns (sub engine, paths)."""
    if not isinstance(clo, mirsym.Agg) or "closure" not in clo.ty:
        raise Inconclusive("not a closure value: %r" % (clo,))
    cf = prog.closure_by_span(clo.ty)
    if cf is None:
        raise Inconclusive("closure %s not found in the MIR dump" % clo.ty)
    sub = engine(prog, unroll=unroll, extra=extra)
    mem = dict(p.mem)
    a0 = clo
    if cf.args and mirsym.is_ref_type(cf.args[0][1]):
        mem["clo:cell"] = clo
        a0 = mirsym.Ref("clo:cell", (), True)
    paths = sub.run(cf, args=[a0] + list(extra_args) + [None] * 4, pre=list(p.pc), mem=mem)
    if eng is not None:
        eng.encoded.update(sub.encoded)
        eng.queries += sub.queries
        eng.solver_s += sub.solver_s
    return sub, paths


def closure_value(v):
    """closure aggregate for an argument that is either a capturing closure (Agg) or a capture-less one (FnV)"""
    if isinstance(v, mirsym.Agg) and "closure" in v.ty:
        return v
    if isinstance(v, mirsym.FnV) and "closure" in v.name:
        return mirsym.Agg(v.name, {})
    return None


def capture_names(prog, span):
    """names of the captured variables of the closure with this `{closure@file:l:c: l:c}` type, in field order"""
    import mirparse
    for f in prog.fns.values():
        if span not in f.text:
            continue
        for b in f.blocks.values():
            for s in b.stmts:
                if s[0] == "assign" and s[2][0] == "aggregate" and s[2][1] == "closure" and s[2][2] == span:
                    return [x[0] for x in s[2][3]]
    return None


def invoke_closure_summary(prog, clo, mem_cell="hashfn:cell"):
    """summary that routes a `dyn Fn` call to the body of the closure value `clo`"""
    cf = prog.closure_by_span(clo.ty)
    if cf is None:
        raise Inconclusive("closure %s not found" % clo.ty)

    def summ(e, st, callee, args, dty):
        st.mem[mem_cell] = clo
        a0 = mirsym.Ref(mem_cell, (), False) if mirsym.is_ref_type(cf.args[0][1]) else clo
        tup = args[1]
        inner = [tup.fields[i] for i in sorted(tup.fields)] if isinstance(tup, mirsym.Agg) else [tup]
        return ("invoke", cf, [a0] + inner)
    return summ


def same_value(a, b):
    """z3 Bool (or python bool) stating that two symbolic values are the same value"""
    if isinstance(a, mirsym.Int) and isinstance(b, mirsym.Int):
        return a.t == b.t
    if isinstance(a, mirsym.Bool) and isinstance(b, mirsym.Bool):
        return a.t == b.t
    if isinstance(a, mirsym.Lazy) and isinstance(b, mirsym.Lazy):
        return z3.BoolVal(a.name == b.name)
    if isinstance(a, mirsym.Agg) and isinstance(b, mirsym.Agg):
        if a.base is not None or b.base is not None:
            if a.base != b.base:
                return z3.BoolVal(False)
        keys = set(a.fields) | set(b.fields)
        out = []
        for k in keys:
            if k not in a.fields or k not in b.fields:
                return z3.BoolVal(False)
            out.append(same_value(a.fields[k], b.fields[k]))
        return z3.And(*out) if out else z3.BoolVal(True)
    if isinstance(a, mirsym.EnumV) and isinstance(b, mirsym.EnumV):
        if a.variant != b.variant:
            return z3.BoolVal(False)
        out = [same_value(a.fields[k], b.fields[k]) for k in a.fields if k in b.fields]
        return z3.And(*out) if out else z3.BoolVal(True)
    return z3.BoolVal(a is b)


def defined_in(prog, f, filename):
    """is the MIR function `f` (method, free function or closure) defined in fclones/src/<filename>?  (free functions are printed
    without their module path in the MIR dump, so the source text decides)"""
    key = "fclones/src/" + filename
    mod = filename[:-3]
    if ("<impl at %s:" % key) in f.name or ("{closure@%s:" % key) in f.name or f.name.startswith(mod + "::"):
        return True
    if "<impl at " in f.name:
        return False
    base = mirsym.strip_generics(f.name).split("::")[0]
    txt = prog.src.files.get(key, "")
    if not re.search(r"\bfn\s+%s\b" % re.escape(base), txt):
        return False
    # a free function of the same name in another module makes this ambiguous; inlining is semantics-preserving, so the
    # ambiguity only matters for what counts as a leaf - accept
    return True


def module_inliner(prog, filename, leaves):
    """inline predicate: every function / closure defined in fclones/src/<filename> except the leaves (regex on the callee text or
    the target name).  Makes an obligation independent of how the module's code is factored into helper functions."""
    def inl(callee, target):
        return defined_in(prog, target, filename) and not re.search(leaves, callee) and not re.search(leaves, target.name)
    return inl


def spawned_task(prog, outer, spawn_pat=r"spawn_fifo|ThreadPool::spawn"):
    """The closure handed to the thread pool inside `outer` (searched through its nested closures): returns
    (closure Fn, span, [(capture name, type of the captured local)])."""
    hits = []
    for n, g in prog.fns.items():
        if not (n == outer.name or n.startswith(outer.name + "::{closure#")):
            continue
        spans = []
        for b in g.blocks.values():
            t = b.term
            if t and t[0] == "call" and re.search(spawn_pat, t[2]):
                m = re.search(r"\{closure@[^}]*\}", t[2])
                if m:
                    spans.append(m.group(0))
        for sp in spans:
            for b in g.blocks.values():
                for st in b.stmts:
                    if st[0] == "assign" and st[2][0] == "aggregate" and st[2][1] == "closure" and st[2][2] == sp:
                        caps = [(x[0], g.locals.get(x[1][1].local, "?") if x[1][0] in ("copy", "move") else "?") for x in st[2][3]]
                        cf = prog.closure_by_span(sp)
                        if cf is not None:
                            hits.append((cf, sp, caps))
    if len(hits) != 1:
        raise Inconclusive("task closure spawned by %s: %d candidates" % (outer.name, len(hits)))
    return hits[0]


def install_battery(rep, ctx, names):
    """Fallback confirmation for abstract counterexamples: before an obligation with verdict 'violated' and without a native
    confirmation is added to the report, the property's native batteries (replay/batteries.py) are run on the binary built
    from the same scratch copy; a deviation confirms the counterexample, none leaves it inconclusive."""
    import json
    import sys
    import native
    from common import VERIF
    orig = rep.add

    def add(o):
        if o.verdict == "violated" and not o.stats.get("traces_validated") and not os.environ.get("VERIF_NO_REPLAY_GATE"):
            sys.path.insert(0, os.path.join(VERIF, "replay"))
            import batteries
            try:
                binary = native.build_binary(ctx.src)
                devs = []
                for n in names:
                    devs = getattr(batteries, n)(binary)
                    if devs:
                        break
                if devs:
                    o.stats["traces_validated"] = 1
                    o.cex = dict(o.cex or {}, native_battery=devs[:5])
                    o.detail = (o.detail + "; replayed natively (%s): %s" % (n, json.dumps(devs[0], default=str)[:400])).strip("; ")
                else:
                    o.detail += "; native batteries %s found no deviation" % ",".join(names)
            except Inconclusive as e:
                o.detail += "; replay build failed: %s" % e
        return orig(o)
    rep.add = add
