"""Summaries for Vec / iterator adapters over concrete-length lists (ListV) whose closures are crate-local:
retain, Iterator::{partition, any, all, map, flat_map, filter, rev, collect}, drain, extend.  Closures are evaluated by a
nested symbolic run of their MIR body (loop-free closures; side effects on captured state are not propagated)."""
import re

import z3

from common import Inconclusive
from mirsym import (Agg, Bool, EnumV, FnV, Int, Lazy, ListV, Opaque, Ref, Str, Unit, V, Engine, is_ref_type, strip_generics)
from summaries import deref_val, meth_name


def closure_paths(e, st, clo, argvals):
    """-> [(extra conditions list, result value)] of a closure applied to symbolic arguments"""
    clo_v = deref_val(e, st, clo)
    span = clo_v.ty if isinstance(clo_v, Agg) else (clo_v.name if isinstance(clo_v, FnV) else None)
    if span is None:
        raise Inconclusive("not a closure: %r" % (clo_v,))
    if "closure" not in span:
        # a plain function item
        target = e.prog.resolve_call(span.replace("fn ", ""), None)
        if target is None:
            raise Inconclusive("function item %s not resolved" % span)
        cf, a0 = target, None
    else:
        if isinstance(clo_v, FnV):
            clo_v = Agg(span, {})
        cf = e.prog.closure_by_span(span)
        if cf is None:
            raise Inconclusive("closure %s not in MIR" % span)
        a0 = clo_v
    sub = Engine(e.prog, inline=e.inline, summaries=e.summaries, unroll=max(e.unroll, 4), inline_all=e.inline_all)
    mem = dict(st.mem)
    args = list(argvals)
    if a0 is not None:
        if cf.args and is_ref_type(cf.args[0][1]):
            cell = "clo:cell:%d:%d" % (st.counter, len(mem))
            mem[cell] = a0
            a0 = Ref(cell, (), True)
        args = [a0] + args
    paths = sub.run(cf, args=args, pre=list(st.pc), mem=mem)
    e.encoded.update(sub.encoded)
    e.queries += sub.queries
    e.solver_s += sub.solver_s
    out = []
    has_return = any(p.status == "return" for p in paths)
    for p in paths:
        if p.status == "panic" and has_return and "overflow" in p.note:
            # arithmetic-overflow panic of a checked operation inside the closure: outside the claim (sizes and counts < 2^64)
            continue
        if p.status != "return":
            raise Inconclusive("closure %s: path %s %s" % (span, p.status, p.note[:100]))
        out.append((p.pc[len(st.pc):], p.result, p.events))
    return out


def closure_term(e, st, clo, argvals):
    """bool closure -> single z3 Bool"""
    terms = []
    for extra, res, _ in closure_paths(e, st, clo, argvals):
        if not isinstance(res, Bool):
            raise Inconclusive("closure does not return bool")
        terms.append(z3.And(*(extra + [res.t])) if extra else res.t)
    return z3.simplify(z3.Or(*terms)) if terms else z3.BoolVal(False)


def as_list(e, st, v):
    x = deref_val(e, st, v)
    return x if isinstance(x, ListV) else None


def subsets(e, st, terms):
    """all feasible truth assignments of the list of Bool terms -> [(conds, tuple of bools)]"""
    res = []
    work = [([], [])]
    while work:
        conds, vals = work.pop()
        i = len(vals)
        if i == len(terms):
            res.append((conds, tuple(vals)))
            continue
        t = terms[i]
        for val in (True, False):
            c = t if val else z3.Not(t)
            cs = z3.simplify(c)
            if z3.is_false(cs):
                continue
            if z3.is_true(cs) or e.feasible(st, z3.And(*(conds + [c]))):
                work.append((conds + ([] if z3.is_true(cs) else [c]), vals + [val]))
    return res


def s_retain(e, st, callee, args, dty):
    r = args[0]
    l = as_list(e, st, r)
    if l is None or not isinstance(r, Ref):
        return NotImplemented
    terms = []
    for i in range(len(l.items)):
        terms.append(closure_term(e, st, args[1], [Ref(r.cell, r.path + (("elem", i),), False)]))
    alts = []
    for conds, vals in subsets(e, st, terms):
        kept = [it for it, v in zip(l.items, vals) if v]
        alts.append((z3.And(*conds) if conds else None, ("store", r, ListV(kept, l.ty), Unit())))
    return ("multi", alts)


def elem_arg(e, st, it, by_ref_cell=None):
    return it


def s_iter_partition(e, st, callee, args, dty):
    l = as_list(e, st, args[0])
    if l is None:
        return NotImplemented
    terms = []
    for i, it in enumerate(l.items):
        cell = "part:elem:%d:%d" % (st.counter, i)
        st.mem[cell] = it
        terms.append(closure_term(e, st, args[1], [Ref(cell, (), False)]))
    out = []
    for conds, vals in subsets(e, st, terms):
        a = [it for it, v in zip(l.items, vals) if v]
        b = [it for it, v in zip(l.items, vals) if not v]
        out.append((z3.And(*conds) if conds else None, Agg("tuple", {0: ListV(a, "Vec"), 1: ListV(b, "Vec")})))
    return out


def s_iter_any_all(e, st, callee, args, dty):
    r = args[0]
    l = as_list(e, st, r)
    if l is None:
        return NotImplemented
    terms = []
    for i, it in enumerate(l.items):
        terms.append(closure_term(e, st, args[1], [it]))
    if meth_name(callee) == "any":
        return Bool(z3.Or(*terms) if terms else z3.BoolVal(False))
    return Bool(z3.And(*terms) if terms else z3.BoolVal(True))


def s_iter_position(e, st, callee, args, dty):
    """Iterator::position(pred) over a list: Some(i) for the first element whose predicate holds, None if none does"""
    l = as_list(e, st, args[0])
    if l is None:
        return NotImplemented
    terms = [closure_term(e, st, args[1], [it]) for it in l.items]
    alts = []
    for i, t in enumerate(terms):
        cond = z3.And(*([z3.Not(x) for x in terms[:i]] + [t]))
        alts.append((cond, EnumV("Option", "Some", 1, {0: Int(z3.BitVecVal(i, 64), "usize")})))
    alts.append((z3.And(*[z3.Not(x) for x in terms]) if terms else None, EnumV("Option", "None", 0, {})))
    return alts


def s_iter_map(e, st, callee, args, dty):
    l = as_list(e, st, args[0])
    if l is None:
        return NotImplemented
    out = []
    for it in l.items:
        ps = closure_paths(e, st, args[1], [it])
        if len(ps) != 1 or ps[0][0]:
            return NotImplemented
        st.events.extend(ps[0][2])      # calls made by the closure body happen in the caller's path
        out.append(ps[0][1])
    return ListV(out, "iter")


def s_iter_flat_map(e, st, callee, args, dty):
    l = as_list(e, st, args[0])
    if l is None:
        return NotImplemented
    out = []
    for it in l.items:
        ps = closure_paths(e, st, args[1], [it])
        if len(ps) != 1 or ps[0][0]:
            return NotImplemented
        r = deref_val(e, st, ps[0][1])
        if not isinstance(r, ListV):
            return NotImplemented
        st.events.extend(ps[0][2])
        out += list(r.items)
    return ListV(out, "iter")


def s_iter_rev(e, st, callee, args, dty):
    l = as_list(e, st, args[0])
    if l is None:
        return NotImplemented
    return ListV(tuple(reversed(l.items)), "iter")


def s_drain(e, st, callee, args, dty):
    r = args[0]
    l = as_list(e, st, r)
    rng = deref_val(e, st, args[1])
    if l is not None and isinstance(r, Ref) and "RangeFull" in repr(rng) + callee:
        # drain(..): everything is moved out
        return ("multi", [(None, ("store", r, ListV((), l.ty), ListV(l.items, "iter")))])
    if l is None or not isinstance(r, Ref) or not isinstance(rng, Agg):
        return NotImplemented
    a, b = rng.fields.get(0), rng.fields.get(1)
    if not (isinstance(a, Int) and isinstance(b, Int)):
        return NotImplemented
    alts = []
    n = len(l.items)
    for lo in range(0, n + 1):
        for hi in range(lo, n + 1):
            c = z3.And(a.t == z3.BitVecVal(lo, 64), b.t == z3.BitVecVal(hi, 64))
            if z3.is_false(z3.simplify(c)):
                continue
            alts.append((c, ("store", r, ListV(l.items[:lo] + l.items[hi:], l.ty), ListV(l.items[lo:hi], "iter"))))
    # out of range -> panic
    oob = z3.Or(z3.UGT(a.t, b.t), z3.UGT(b.t, z3.BitVecVal(n, 64)))
    alts.append((oob, "diverge"))
    return ("multi", alts)


def s_extend(e, st, callee, args, dty):
    r = args[0]
    l = as_list(e, st, r)
    add = as_list(e, st, args[1])
    if l is None or add is None or not isinstance(r, Ref):
        return NotImplemented
    e.store(st, r.cell, r.path, ListV(l.items + add.items, l.ty))
    return Unit()


def s_vec_new(e, st, callee, args, dty):
    return ListV((), "Vec")


def s_peekable(e, st, callee, args, dty):
    l = as_list(e, st, args[0])
    if l is None:
        return NotImplemented
    return ListV(l.items, "iter")


def s_peek(e, st, callee, args, dty):
    r = args[0]
    l = as_list(e, st, r)
    if l is None or not isinstance(r, Ref):
        return NotImplemented
    if not l.items:
        return EnumV("Option", "None", 0, {})
    return EnumV("Option", "Some", 1, {0: Ref(r.cell, r.path + (("elem", 0),), False)})


def s_iter_skip_take(e, st, callee, args, dty):
    """Iterator::skip(n) / take(n) on a concrete-length list; a symbolic n forks over 0..len"""
    l = as_list(e, st, args[0])
    n = args[1]
    if l is None or not isinstance(n, Int):
        return NotImplemented
    skip = meth_name(callee) == "skip"
    cut = (lambda k: l.items[k:]) if skip else (lambda k: l.items[:k])
    nv = z3.simplify(n.t)
    if z3.is_bv_value(nv):
        return ListV(cut(min(nv.as_long(), len(l.items))), "iter")
    alts = [(n.t == z3.BitVecVal(k, n.t.size()), ListV(cut(k), "iter")) for k in range(len(l.items))]
    alts.append((z3.UGE(n.t, z3.BitVecVal(len(l.items), n.t.size())), ListV(cut(len(l.items)), "iter")))
    return alts


def s_iter_count(e, st, callee, args, dty):
    l = as_list(e, st, args[0])
    if l is None:
        return NotImplemented
    return Int(z3.BitVecVal(len(l.items), 64), "usize")


def s_iter_sum_lens(e, st, callee, args, dty):
    l = as_list(e, st, args[0])
    if l is not None and l.items and all(isinstance(x, Agg) and len(x.fields) == 1 and isinstance(x.fields.get(0), Int) for x in l.items):
        # a newtype around an integer (FileLen): the sum of the wrapped values
        t = z3.BitVecVal(0, 64)
        for x in l.items:
            t = t + x.fields[0].t
        return Agg(l.items[0].ty, {0: Int(z3.simplify(t), l.items[0].fields[0].ty)})
    if l is None or not all(isinstance(x, Int) for x in l.items):
        return NotImplemented
    t = z3.BitVecVal(0, 64)
    for x in l.items:
        t = t + x.t
    return Int(z3.simplify(t), "usize")


def s_swap_remove(e, st, callee, args, dty):
    r = args[0]
    l = as_list(e, st, r)
    i = args[1]
    if l is None or not isinstance(r, Ref) or not isinstance(i, Int):
        return NotImplemented
    iv = z3.simplify(i.t)
    if not z3.is_bv_value(iv):
        return NotImplemented
    k = iv.as_long()
    if k >= len(l.items):
        return [(None, "diverge")]
    items = list(l.items)
    out = items[k]
    items[k] = items[-1]
    items.pop()
    e.store(st, r.cell, r.path, ListV(items, l.ty))
    return out


def s_vec_remove(e, st, callee, args, dty):
    r = args[0]
    l = as_list(e, st, r)
    i = args[1]
    if l is None or not isinstance(r, Ref) or not isinstance(i, Int):
        return NotImplemented
    iv = z3.simplify(i.t)
    if not z3.is_bv_value(iv):
        return NotImplemented
    k = iv.as_long()
    if k >= len(l.items):
        return [(None, "diverge")]
    items = list(l.items)
    out = items.pop(k)
    e.store(st, r.cell, r.path, ListV(items, l.ty))
    return out


LIST = {
    r"^(std::vec::|alloc::vec::)?Vec::swap_remove$": s_swap_remove,
    r"^(std::vec::|alloc::vec::)?Vec::remove$": s_vec_remove,
    r"^<.* as (std::iter::)?Iterator>::peekable$": s_peekable,
    r"^(std::iter::)?Peekable::peek$": s_peek,
    r"^<.* as (std::iter::)?Iterator>::count$": s_iter_count,
    r"^<.* as (std::iter::)?Iterator>::(skip|take)$": s_iter_skip_take,
    r"^<.* as (std::iter::)?Iterator>::sum$": s_iter_sum_lens,
    r"^(std::vec::|alloc::vec::)?Vec::retain$": s_retain,
    r"^<.* as (std::iter::)?Iterator>::partition$": s_iter_partition,
    r"^<.* as (std::iter::)?Iterator>::(any|all)$": s_iter_any_all,
    r"^<.* as (std::iter::)?Iterator>::position$": s_iter_position,
    r"^<.* as (std::iter::)?Iterator>::map$": s_iter_map,
    r"^<.* as (std::iter::)?Iterator>::flat_map$": s_iter_flat_map,
    r"^<.* as (std::iter::)?Iterator>::rev$|^<.* as (std::iter::)?DoubleEndedIterator>::rev$": s_iter_rev,
    r"^(std::vec::|alloc::vec::)?Vec::drain$": s_drain,
    r"^<(std::vec::|alloc::vec::)?Vec<.*> as (std::iter::)?Extend(<.*>)?>::extend$": s_extend,
    r"^(std::vec::|alloc::vec::)?Vec::new$": s_vec_new,
}
