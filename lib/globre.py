"""Reference semantics of fclones' documented glob language and of the regex-crate subset its translator emits, both as
z3 regular expressions over Unicode strings.  Used by the matching half of C16: the regex text produced by the *real*
translator for a concrete glob is compared with the reference language of that glob for ALL paths by z3 (sequence/regex theory).

glob AST (documented semantics, pattern.rs doc comment and README):
  ("lit", c) | ("qm",) | ("star",) | ("dstar",) | ("sep",) | ("class", negated, [c | (lo, hi)]) | ("alt", [seq..]) |
  ("ext", kind, [seq..]) with kind in "@?+*"          a seq is a list of nodes
regex AST (regex crate, the subset handled): ("lit", c) | ("dot",) | ("class", negated, items) | ("group", [seq..]) |
  ("rep", node, kind) with kind in "?*+"
"""
import z3

SPECIAL_TOP = set("\\{?*+@![/")


class Unsupported(Exception):
    pass


# ------------------------------------------------------------------ reference glob parser (documented syntax)

def parse_glob(text):
    """-> seq (list of nodes) or raises Unsupported when the text is outside the documented, unambiguous subset"""
    seq, i = _glob_seq(text, 0, "top")
    if i != len(text):
        raise Unsupported("trailing %r" % text[i:])
    return seq


def _glob_seq(t, i, scope):
    out = []
    n = len(t)
    while i < n:
        c = t[i]
        if scope == "curly" and c in ",}":
            break
        if scope == "round" and c in "|)":
            break
        if c == "\\":
            if i + 1 >= n:
                raise Unsupported("dangling escape")
            out.append(("lit", t[i + 1]))
            i += 2
        elif c == "{":
            alts, j = _glob_list(t, i + 1, "curly", ",", "}")
            out.append(("alt", alts))
            i = j
        elif c in "?*+@" and i + 1 < n and t[i + 1] == "(":
            alts, j = _glob_list(t, i + 2, "round", "|", ")")
            out.append(("ext", c, alts))
            i = j
        elif c == "!" and i + 1 < n and t[i + 1] == "(":
            raise Unsupported("!( ) is not part of the checked subset")
        elif c == "*":
            if i + 1 < n and t[i + 1] == "*":
                out.append(("dstar",))
                i += 2
            else:
                out.append(("star",))
                i += 1
        elif c == "?":
            out.append(("qm",))
            i += 1
        elif c == "[":
            j = t.find("]", i + 1)
            if j < 0:
                raise Unsupported("unterminated class")
            body = t[i + 1:j]
            neg = body.startswith("!")
            if neg:
                body = body[1:]
            if not body or any(x in body for x in "[\\^&~") or body.startswith("-") or body.endswith("-") and len(body) > 1 and False:
                raise Unsupported("class body outside the subset: %r" % body)
            items = []
            k = 0
            while k < len(body):
                if k + 2 < len(body) and body[k + 1] == "-":
                    if body[k] > body[k + 2]:
                        raise Unsupported("reversed range")
                    items.append((body[k], body[k + 2]))
                    k += 3
                else:
                    if body[k] == "-" and 0 < k < len(body) - 1:
                        raise Unsupported("ambiguous '-'")
                    items.append(body[k])
                    k += 1
            out.append(("class", neg, items))
            i = j + 1
        elif c == "/":
            out.append(("sep",))
            i += 1
        else:
            # inside {..} only `{ , }` have a meaning, inside an ext-glob (..) only `( | )`; everything else is an ordinary
            # character there ("every other character literal").  A bare opening bracket of the scope's own kind is ambiguous.
            if (scope == "curly" and c == "{") or (scope == "round" and c == "("):
                raise Unsupported("bare %r inside brackets of the same kind" % c)
            out.append(("lit", c))
            i += 1
    return out, i


def _glob_list(t, i, scope, sep, close):
    alts = []
    while True:
        s, i = _glob_seq(t, i, scope)
        alts.append(s)
        if i >= len(t):
            raise Unsupported("unterminated bracket")
        if t[i] == sep:
            i += 1
            continue
        if t[i] == close:
            return alts, i + 1
        raise Unsupported("unexpected %r" % t[i])


# ------------------------------------------------------------------ z3 regex builders

RS = z3.ReSort(z3.StringSort())
ANY = z3.AllChar(RS)
EMPTY = z3.Re("")
NONE = z3.Empty(RS)


def _cat(rs):
    rs = list(rs)
    if not rs:
        return EMPTY
    return rs[0] if len(rs) == 1 else z3.Concat(*rs)


def _union(rs):
    rs = list(rs)
    if not rs:
        return NONE
    return rs[0] if len(rs) == 1 else z3.Union(*rs)


def case_variants(c):
    """simple case folding orbit of one character (what `(?i)` of the regex crate and "folds case" mean for one char)"""
    vs = {c}
    for f in (c.lower(), c.upper()):
        if len(f) == 1:
            vs.add(f)
    extra = {"k": "\u212a", "K": "\u212a", "\u212a": "kK", "s": "\u017f", "S": "\u017f", "\u017f": "sS"}
    for v in list(vs):
        for x in extra.get(v, ""):
            vs.add(x)
    return sorted(vs)


def _chr(c, ci):
    if ci:
        return _union(z3.Re(v) for v in case_variants(c))
    return z3.Re(c)


def _class(neg, items, ci):
    parts = []
    for it in items:
        if isinstance(it, tuple):
            lo, hi = it
            parts.append(z3.Range(lo, hi))
            if ci:
                # case variants of every member of a (short) range
                if ord(hi) - ord(lo) > 64:
                    raise Unsupported("long range with case folding")
                for o in range(ord(lo), ord(hi) + 1):
                    for v in case_variants(chr(o)):
                        parts.append(z3.Re(v))
        else:
            parts.append(_chr(it, ci))
    u = _union(parts)
    return z3.Intersect(ANY, z3.Complement(u)) if neg else u


NOTSEP = z3.Intersect(ANY, z3.Complement(z3.Re("/")))
NOTNL = z3.Intersect(ANY, z3.Complement(z3.Re("\n")))


def glob_re(seq, ci=False):
    """language of a glob by the documented semantics"""
    out = []
    for nd in seq:
        k = nd[0]
        if k == "lit":
            out.append(_chr(nd[1], ci))
        elif k == "qm":
            out.append(NOTSEP)
        elif k == "star":
            out.append(z3.Star(NOTSEP))
        elif k == "dstar":
            out.append(z3.Star(ANY))
        elif k == "sep":
            out.append(z3.Re("/"))
        elif k == "class":
            out.append(_class(nd[1], nd[2], ci))
        elif k == "alt":
            out.append(_union(glob_re(s, ci) for s in nd[1]))
        elif k == "ext":
            u = _union(glob_re(s, ci) for s in nd[2])
            out.append({"@": u, "?": z3.Option(u), "+": z3.Plus(u), "*": z3.Star(u)}[nd[1]])
        else:
            raise Unsupported(k)
    return _cat(out)


# ------------------------------------------------------------------ regex-crate subset parser

REGEX_META = set("\\.+*?()|[]{}^$#&-~")
# escapes of the regex crate that are not literals (Perl classes are approximated by their ASCII members: enough to tell them from a
# literal letter, and every witness is replayed with the real regex) and the control-character escapes
ESC_CLASSES = {"d": "0-9", "D": "^0-9", "w": "A-Za-z0-9_", "W": "^A-Za-z0-9_", "s": " \t\n\r\x0b\x0c", "S": "^ \t\n\r\x0b\x0c"}
ESC_CHARS = {"a": "\x07", "f": "\x0c", "t": "\t", "n": "\n", "r": "\r", "v": "\x0b"}


def parse_regex(text):
    """-> (anchored_start, seq-alternatives, anchored_end); the subset: literals, \\x escapes of non-alphanumerics, `.`,
    classes with plain members / ranges / escapes, groups with alternation, postfix ? * +"""
    i = 0
    a0 = text.startswith("^")
    if a0:
        i = 1
    a1 = False
    body = text[i:]
    if body.endswith("$") and not _escaped_at(body, len(body) - 1):
        a1 = True
        body = body[:-1]
    alts, j = _re_alts(body, 0, top=True)
    if j != len(body):
        raise Unsupported("regex: trailing %r" % body[j:])
    return a0, alts, a1


def _escaped_at(s, k):
    n = 0
    k -= 1
    while k >= 0 and s[k] == "\\":
        n += 1
        k -= 1
    return n % 2 == 1


def _re_alts(t, i, top=False):
    alts = []
    while True:
        seq, i = _re_seq(t, i)
        alts.append(seq)
        if i < len(t) and t[i] == "|":
            i += 1
            continue
        return alts, i


def _re_seq(t, i):
    out = []
    n = len(t)
    while i < n:
        c = t[i]
        if c in "|)":
            break
        if c == "(":
            if t.startswith("(?", i):
                raise Unsupported("regex: group flags / look-around")
            alts, j = _re_alts(t, i + 1)
            if j >= n or t[j] != ")":
                raise Unsupported("regex: unbalanced group")
            node = ("group", alts)
            i = j + 1
        elif c == "[":
            node, i = _re_class(t, i)
        elif c == ".":
            node = ("dot",)
            i += 1
        elif c == "\\":
            if i + 1 >= n:
                raise Unsupported("regex: dangling escape")
            x = t[i + 1]
            if x in ESC_CLASSES:
                node = ("esc", x)
            elif x in ESC_CHARS:
                node = ("lit", ESC_CHARS[x])
            elif x.isalnum() or x == "_":
                raise Unsupported("regex: escape \\%s" % x)
            else:
                node = ("lit", x)
            i += 2
        elif c in "^$":
            raise Unsupported("regex: inner anchor")
        elif c in "*+?{":
            raise Unsupported("regex: dangling quantifier %r" % c)
        else:
            node = ("lit", c)
            i += 1
        while i < n and t[i] in "?*+":
            node = ("rep", node, t[i])
            i += 1
            if i < n and t[i] in "?+":
                raise Unsupported("regex: lazy / possessive quantifier")
        if i < n and t[i] == "{":
            raise Unsupported("regex: counted repetition")
        out.append(node)
    return out, i


def _re_class(t, i):
    n = len(t)
    j = i + 1
    neg = False
    if j < n and t[j] == "^":
        neg = True
        j += 1
    items = []
    first = True
    while True:
        if j >= n:
            raise Unsupported("regex: unterminated class")
        c = t[j]
        if c == "]" and not first:
            j += 1
            break
        if c == "[" or t.startswith("&&", j) or t.startswith("~~", j) or t.startswith("--", j):
            raise Unsupported("regex: nested class / set operation")
        if c == "\\":
            if j + 1 >= n or t[j + 1].isalnum():
                raise Unsupported("regex: class escape")
            c = t[j + 1]
            j += 2
        else:
            j += 1
        first = False
        if j + 1 < n and t[j] == "-" and t[j + 1] != "]":
            hi = t[j + 1]
            k = j + 2
            if hi == "\\":
                if k >= n or t[k].isalnum():
                    raise Unsupported("regex: class escape")
                hi = t[k]
                k += 1
            if hi == "[":
                raise Unsupported("regex: nested class")
            if c > hi:
                raise Unsupported("regex: reversed range")
            items.append((c, hi))
            j = k
        else:
            items.append(c)
    return ("class", neg, items), j


def regex_seq_re(seq, ci, dotall):
    out = []
    for nd in seq:
        out.append(regex_node_re(nd, ci, dotall))
    return _cat(out)


def regex_node_re(nd, ci, dotall):
    k = nd[0]
    if k == "lit":
        return _chr(nd[1], ci)
    if k == "esc":
        spec = ESC_CLASSES[nd[1]]
        neg = spec.startswith("^")
        body = spec[1:] if neg else spec
        parts, i = [], 0
        while i < len(body):
            if i + 2 < len(body) and body[i + 1] == "-":
                parts.append(z3.Range(body[i], body[i + 2]))
                i += 3
            else:
                parts.append(z3.Re(body[i]))
                i += 1
        u = _union(parts)
        return z3.Intersect(ANY, z3.Complement(u)) if neg else u
    if k == "dot":
        return ANY if dotall else NOTNL
    if k == "class":
        return _class(nd[1], nd[2], ci)
    if k == "group":
        return _union(regex_seq_re(s, ci, dotall) for s in nd[1])
    if k == "rep":
        r = regex_node_re(nd[1], ci, dotall)
        return {"?": z3.Option(r), "*": z3.Star(r), "+": z3.Plus(r)}[nd[2]]
    raise Unsupported(k)


def regex_re(text, ci=False, dotall=False, search_prefix_only=False):
    """language accepted by regex::Regex::is_match for this text (unanchored sides are padded with any-strings)"""
    a0, alts, a1 = parse_regex(text)
    r = _union(regex_seq_re(s, ci, dotall) for s in alts)
    parts = []
    if not a0:
        parts.append(z3.Star(ANY))
    parts.append(r)
    if not a1:
        parts.append(z3.Star(ANY))
    return _cat(parts)


def differ(r1, r2, timeout_ms=20000, extra=None):
    """-> ('unsat', None) when the languages are equal, ('sat', witness string), or ('unknown', None)"""
    s = z3.String("path")
    sol = z3.Solver()
    sol.set("timeout", timeout_ms)
    sol.add(z3.InRe(s, r1) != z3.InRe(s, r2))
    if extra is not None:
        sol.add(extra(s))
    r = sol.check()
    if r == z3.sat:
        return "sat", sol.model().eval(s, model_completion=True).as_string()
    return ("unsat" if r == z3.unsat else "unknown"), None


def member(text, r):
    """concrete membership by z3's simplifier"""
    v = z3.simplify(z3.InRe(z3.StringVal(text), r))
    if z3.is_true(v):
        return True
    if z3.is_false(v):
        return False
    sol = z3.Solver()
    sol.add(z3.InRe(z3.StringVal(text), r))
    return sol.check() == z3.sat
