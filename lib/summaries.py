"""Summaries of std / dependency functions for mirsym.  A summary is
`f(engine, state, callee_text, args, dest_type) -> value | [(cond|None, value|'diverge'), ...] | NotImplemented`.
Keys are regexes matched against the callee with turbofish generics stripped."""
import re

import z3

from mirsym import (Agg, Bool, EnumV, FnV, Int, Lazy, ListV, Opaque, Ref, Str, Unit, V, INT_W, Event,
                    sanitize, type_base, strip_generics, is_signed)
from common import Inconclusive


def meth_name(callee):
    """last path segment with turbofish generics removed: `std::cmp::max::<usize>` -> `max`"""
    return strip_generics(callee).split("::")[-1]


def deref_val(e, st, v):
    """Follow references to the value they point to."""
    while isinstance(v, Ref):
        v = e.load(st, v.cell, v.path)
    return v


def discr_of(e, st, v):
    return e.discriminant(st, v).t


def enum_payload(e, st, v, variant, idx, ty="?"):
    if isinstance(v, EnumV):
        return v.fields.get(idx)
    if isinstance(v, Lazy):
        return e.make_lazy("%s@%s.%d" % (v.name, variant, idx), ty)
    raise Inconclusive("payload of %r" % (v,))


def generic_args(callee):
    """`Result::<T, E>::unwrap` -> ['T','E'] of the first turbofish / qualified self type"""
    import mirparse
    m = re.search(r"<", callee)
    if not m:
        return []
    i = m.start()
    j = mirparse.match_close(callee, i)
    inner = callee[i + 1:j]
    k = mirparse.find_top(inner, " as ")
    if k >= 0:
        inner = inner[:k]
        m2 = re.search(r"<", inner)
        if not m2:
            return []
        j2 = mirparse.match_close(inner, m2.start())
        inner = inner[m2.start() + 1:j2]
    return mirparse.split_top(inner)


def option_variants(e, st, v, some_ty="?"):
    """[(cond, is_some, payload)] alternatives for an Option value"""
    if isinstance(v, EnumV):
        return [(None, v.variant == "Some", v.fields.get(0))]
    d = discr_of(e, st, v)
    return [(d == 0, False, None), (d == 1, True, enum_payload(e, st, v, "Some", 0, some_ty))]


def result_variants(e, st, v, ok_ty="?", err_ty="?"):
    if isinstance(v, EnumV):
        return [(None, v.variant == "Ok", v.fields.get(0))]
    d = discr_of(e, st, v)
    return [(d == 0, True, enum_payload(e, st, v, "Ok", 0, ok_ty)),
            (d == 1, False, enum_payload(e, st, v, "Err", 0, err_ty))]


def s_try_branch(e, st, callee, args, dty):
    v = args[0]
    ga = generic_args(callee)
    if re.match(r"<(std::result::|core::result::)?Result<", callee):
        okt = ga[0] if ga else "?"
        errt = ga[1] if len(ga) > 1 else "?"
        out = []
        for c, is_ok, p in result_variants(e, st, v, okt, errt):
            if is_ok:
                out.append((c, EnumV("ControlFlow", "Continue", 0, {0: p})))
            else:
                out.append((c, EnumV("ControlFlow", "Break", 1, {0: EnumV("Result", "Err", 1, {0: p})})))
        return out
    if re.match(r"<(std::option::|core::option::)?Option<", callee):
        out = []
        for c, is_some, p in option_variants(e, st, v, ga[0] if ga else "?"):
            if is_some:
                out.append((c, EnumV("ControlFlow", "Continue", 0, {0: p})))
            else:
                out.append((c, EnumV("ControlFlow", "Break", 1, {0: EnumV("Option", "None", 0, {})})))
        return out
    return NotImplemented


def s_from_residual(e, st, callee, args, dty):
    v = args[0]
    if isinstance(v, EnumV) and v.ty == "Result":
        return EnumV("Result", "Err", 1, {0: v.fields.get(0)})
    if isinstance(v, EnumV) and v.ty == "Option":
        return EnumV("Option", "None", 0, {})
    return NotImplemented


def s_unwrap(e, st, callee, args, dty):
    v = args[0]
    if re.match(r"^(std::result::|core::result::)?Result", callee):
        return [(c, p if ok else "diverge") for c, ok, p in result_variants(e, st, v, dty)]
    return [(c, p if some else "diverge") for c, some, p in option_variants(e, st, v, dty)]


def s_is_some(e, st, callee, args, dty):
    v = deref_val(e, st, args[0])
    want = 1 if meth_name(callee) in ("is_some", "is_err") else 0
    if isinstance(v, EnumV):
        return Bool(z3.BoolVal(v.idx == want))
    return Bool(discr_of(e, st, v) == want)


def s_unwrap_or(e, st, callee, args, dty):
    v, d = args[0], args[1]
    out = []
    for c, some, p in option_variants(e, st, v, dty):
        out.append((c, p if some else d))
    return out


def canon(e, st, v, depth=0):
    """canonical text of a symbolic value (for deterministic naming of pure environment functions)"""
    if depth > 4:
        return "?"
    if isinstance(v, Ref):
        try:
            return canon(e, st, e.load(st, v.cell, v.path), depth + 1)
        except Inconclusive:
            return "&" + str(v.cell)
    if isinstance(v, Lazy):
        return v.name
    if isinstance(v, Int) or isinstance(v, Bool):
        return str(z3.simplify(v.t))
    if isinstance(v, Agg):
        if v.base and not v.fields:
            return v.base
        return "%s{%s}" % (type_base(v.ty), ",".join("%s:%s" % (k, canon(e, st, x, depth + 1)) for k, x in sorted(v.fields.items(), key=lambda kv: str(kv[0]))))
    if isinstance(v, EnumV):
        return "%s(%s)" % (v.variant, ",".join(canon(e, st, x, depth + 1) for x in v.fields.values()))
    return repr(v)[:40]


def pure(tag):
    """summary of a side-effect free environment function: the result is a deterministic function of the arguments"""
    def f(e, st, callee, args, dty):
        name = "%s(%s)" % (tag, ";".join(canon(e, st, a) for a in args))
        r = e.make_lazy(name, dty)
        st.events.append(Event("call", strip_generics(callee), tuple(args), r, len(st.pc), e.site(st), {"pure": tag}))
        return r
    return f


def s_result_unwrap_or(e, st, callee, args, dty):
    v, d = args[0], args[1]
    return [(c, p if ok else d) for c, ok, p in result_variants(e, st, v, dty)]


def s_map_err_generic(e, st, callee, args, dty):
    """Result::map_err keeps the Ok payload; the error is replaced by an unknown value"""
    v = args[0]
    if isinstance(v, EnumV) and v.ty == "Result":
        return v if v.variant == "Ok" else EnumV("Result", "Err", 1, {0: Lazy(sanitize(st.fresh("mapped_err")), "?")})
    if isinstance(v, Lazy):
        out = []
        for c, ok, p in result_variants(e, st, v):
            out.append((c, EnumV("Result", "Ok", 0, {0: p}) if ok else EnumV("Result", "Err", 1, {0: Lazy(sanitize(st.fresh("mapped_err")), "?")})))
        return out
    return NotImplemented


def s_call_closure(e, st, callee, args, dty):
    """Fn / FnMut / FnOnce call on a closure value built in the analysed code: run the closure body"""
    f = args[0]
    fv = deref_val(e, st, f)
    span = fv.ty if isinstance(fv, Agg) and "closure" in fv.ty else (fv.name if isinstance(fv, FnV) and "closure" in fv.name else None)
    if span is None:
        return NotImplemented
    cf = e.prog.closure_by_span(span)
    if cf is None:
        return NotImplemented
    if isinstance(fv, FnV):
        fv = Agg(span, {})
    a0 = fv
    want_ref = cf.args and cf.args[0][1].strip().startswith("&")
    if want_ref:
        if isinstance(f, Ref):
            a0 = f
        else:
            cell = "callclo:%d" % st.counter
            st.counter += 1
            st.mem[cell] = fv
            a0 = Ref(cell, (), True)
    tup = args[1] if len(args) > 1 else None
    inner = [tup.fields[i] for i in sorted(tup.fields)] if isinstance(tup, Agg) else ([] if tup is None or isinstance(tup, Unit) else [tup])
    return ("invoke", cf, [a0] + inner)


def s_identity(e, st, callee, args, dty):
    return args[0]


def s_deref(e, st, callee, args, dty):
    """<Arc<T>/Box<T>/Rc<T>/String/Vec/PathBuf/MutexGuard as Deref>::deref(&x) -> &inner"""
    r = args[0]
    m = re.match(r"<(.*) as (?:std::ops::)?Deref(?:Mut)?>", callee)
    self_ty = type_base(m.group(1)) if m else "?"
    if self_ty in ("Arc", "Box", "Rc"):
        v = deref_val(e, st, r)
        c, p = e.deref_target(st, v if isinstance(v, (Lazy, Ref, Agg)) else r)
        return Ref(c, p, isinstance(r, Ref) and r.mut)
    if self_ty in ("String", "Vec", "PathBuf", "OsString", "CString"):
        return r
    return NotImplemented


def s_clone(e, st, callee, args, dty):
    return deref_val(e, st, args[0])


def s_arc_new(e, st, callee, args, dty):
    return Agg("Arc", {0: args[0]})


def newtype_int(e, st, v):
    v = deref_val(e, st, v)
    if isinstance(v, Int):
        return v
    if isinstance(v, (Agg, Lazy)):
        tb = type_base(v.ty)
        fields = e.prog.src.structs.get(tb)
        if fields == ["0"]:
            f = e.read_proj(st, v, ("field", 0, "u64"))
            if isinstance(f, Int):
                return f
    return None


CMP = {"lt": "Lt", "le": "Le", "gt": "Gt", "ge": "Ge", "eq": "Eq", "ne": "Ne"}


def s_cmp(e, st, callee, args, dty):
    """PartialOrd / PartialEq on integers and on derived single-field newtypes"""
    meth = meth_name(callee)
    a, b = newtype_int(e, st, args[0]), newtype_int(e, st, args[1])
    if a is None or b is None:
        av, bv = deref_val(e, st, args[0]), deref_val(e, st, args[1])
        if isinstance(av, Bool) and isinstance(bv, Bool) and meth in ("eq", "ne"):
            return e.binop(st, CMP[meth], av, bv)
        return NotImplemented
    m = re.match(r"<(.*) as ", callee)
    if m:
        tb = type_base(m.group(1))
        if tb not in INT_W and tb not in ("usize", "isize"):
            need = {"lt": "PartialOrd", "le": "PartialOrd", "gt": "PartialOrd", "ge": "PartialOrd",
                    "eq": "PartialEq", "ne": "PartialEq", "cmp": "Ord", "max": "Ord", "min": "Ord", "partial_cmp": "PartialOrd"}[meth]
            if need not in e.prog.src.derives.get(tb, set()):
                return NotImplemented
    if meth in CMP:
        return e.binop(st, CMP[meth], a, b)
    if meth in ("max", "min"):
        c = e.binop(st, "Ge" if meth == "max" else "Le", a, b)
        # Ord::max returns the second argument when equal; irrelevant for integers
        return Int(z3.If(c.t, a.t, b.t), a.ty) if isinstance(deref_val(e, st, args[0]), Int) else \
            [(c.t, deref_val(e, st, args[0])), (z3.Not(c.t), deref_val(e, st, args[1]))]
    return NotImplemented


def s_minmax(e, st, callee, args, dty):
    meth = meth_name(callee)
    if meth not in ("max", "min"):
        return NotImplemented
    a, b = newtype_int(e, st, args[0]), newtype_int(e, st, args[1])
    if a is None or b is None:
        return NotImplemented
    c = e.binop(st, "Ge" if meth == "max" else "Le", a, b)
    av, bv = deref_val(e, st, args[0]), deref_val(e, st, args[1])
    if isinstance(av, Int):
        return Int(z3.If(c.t, a.t, b.t), a.ty)
    return [(c.t, av), (z3.Not(c.t), bv)]


def s_saturating_sub(e, st, callee, args, dty):
    a, b = args
    return Int(z3.If(z3.ULT(a.t, b.t), z3.BitVecVal(0, a.t.size()), a.t - b.t), a.ty)


def s_must_use(e, st, callee, args, dty):
    return args[0]


def s_fmt_opaque(e, st, callee, args, dty):
    return Opaque("fmt")


def s_format(e, st, callee, args, dty):
    return Lazy(sanitize(st.fresh("formatted")), "String")


def s_clone_value(e, st, callee, args, dty):
    v = deref_val(e, st, args[0])
    return v


# ---- concrete-length lists ------------------------------------------------------------------

def _list_of(e, st, v):
    v0 = deref_val(e, st, v)
    return v0 if isinstance(v0, ListV) else None


def s_vec_len(e, st, callee, args, dty):
    l = _list_of(e, st, args[0])
    if l is None:
        return NotImplemented
    return Int(z3.BitVecVal(len(l.items), 64), "usize")


def s_vec_is_empty(e, st, callee, args, dty):
    l = _list_of(e, st, args[0])
    if l is None:
        return NotImplemented
    return Bool(z3.BoolVal(len(l.items) == 0))


def s_vec_index(e, st, callee, args, dty):
    r, i = args[0], args[1]
    l = _list_of(e, st, r)
    if l is None or not isinstance(r, Ref) or not isinstance(i, Int):
        return NotImplemented
    iv = z3.simplify(i.t)
    if not z3.is_bv_value(iv):
        return NotImplemented
    k = iv.as_long()
    if k >= len(l.items):
        return [(None, "diverge")]
    return Ref(r.cell, r.path + (("elem", k),), r.mut)


def s_into_iter(e, st, callee, args, dty):
    v = args[0]
    l = _list_of(e, st, v)
    if l is None:
        return NotImplemented
    if isinstance(v, Ref):
        # iterating by reference: elements are references into the list
        return ListV([Ref(v.cell, v.path + (("elem", i),), v.mut) for i in range(len(l.items))], "iter")
    return ListV(l.items, "iter")


def s_iter_next(e, st, callee, args, dty):
    r = args[0]
    l = _list_of(e, st, r)
    if l is None or not isinstance(r, Ref):
        return NotImplemented
    if not l.items:
        return EnumV("Option", "None", 0, {})
    e.store(st, r.cell, r.path, ListV(l.items[1:], l.ty))
    return EnumV("Option", "Some", 1, {0: l.items[0]})


def s_iter_enumerate(e, st, callee, args, dty):
    """Iterator::enumerate over a list iterator: (index, element) pairs"""
    l = _list_of(e, st, args[0])
    if l is None:
        return NotImplemented
    return ListV([Agg("tuple", {0: Int(z3.BitVecVal(i, 64), "usize"), 1: it}) for i, it in enumerate(l.items)], "iter")


def s_collect_vec(e, st, callee, args, dty):
    l = _list_of(e, st, args[0])
    if l is None:
        return NotImplemented
    return ListV(l.items, "Vec")


def s_vec_push(e, st, callee, args, dty):
    r = args[0]
    l = _list_of(e, st, r)
    if l is None or not isinstance(r, Ref):
        return NotImplemented
    e.store(st, r.cell, r.path, ListV(l.items + (args[1],), l.ty))
    return Unit()


BASE = {
    r" as (std::ops::)?Fn(Once|Mut)?(<.*>)?>::call(_once|_mut)?$": s_call_closure,
    r"^<.* as (std::clone::)?Clone>::clone$": s_clone_value,
    r"^(std::vec::|alloc::vec::)?Vec::len$|^core::slice::<impl \[T\]>::len$": s_vec_len,
    r"^(std::vec::|alloc::vec::)?Vec::is_empty$|^core::slice::<impl \[T\]>::is_empty$": s_vec_is_empty,
    r"^<(std::vec::|alloc::vec::)?Vec<.*> as (std::ops::)?Index(Mut)?(<usize>)?>::index(_mut)?$": s_vec_index,
    r"^<.* as (std::iter::)?IntoIterator>::into_iter$": s_into_iter,
    r"^core::slice::<impl \[.*\]>::iter(_mut)?$|^core::slice::iter(_mut)?$": s_into_iter,
    r"^<.* as (std::iter::)?Iterator>::enumerate$": s_iter_enumerate,
    r"^<.* as (std::iter::)?Iterator>::next$": s_iter_next,
    r"^<.* as (itertools::)?Itertools>::collect_vec$|^<.* as (std::iter::)?Iterator>::collect$": s_collect_vec,
    r"^(std::vec::|alloc::vec::)?Vec::push$": s_vec_push,
    r"^<.* as (std::ops::)?Try>::branch$": s_try_branch,
    r"^<.* as (std::ops::)?FromResidual.*>::from_residual$": s_from_residual,
    r"^(std::option::|core::option::)?Option::(unwrap|expect)$": s_unwrap,
    r"^(std::result::|core::result::)?Result::(unwrap|expect)$": s_unwrap,
    r"^(std::option::|core::option::)?Option::(is_some|is_none)$": s_is_some,
    r"^(std::result::|core::result::)?Result::(is_ok|is_err)$": s_is_some,
    r"^(std::option::|core::option::)?Option::unwrap_or$": s_unwrap_or,
    r"^(std::result::|core::result::)?Result::unwrap_or$": s_result_unwrap_or,
    r"^(std::result::|core::result::)?Result::map_err$": s_map_err_generic,
    r"^<.* as (std::ops::)?Deref(Mut)?>::deref(_mut)?$": s_deref,
    r"^<.* as (std::cmp::)?Partial(Ord|Eq)(<.*>)?>::(lt|le|gt|ge|eq|ne)$": s_cmp,
    r"^<.* as (std::cmp::)?Ord>::(max|min)$": s_minmax,
    r"^(std::cmp::|core::cmp::)?(max|min)$": s_minmax,
    r"^(core::num::|(usize|u64|u32|u8|u16|u128)::)saturating_sub$": s_saturating_sub,
    r"^must_use$": s_must_use,
    r"^(core::fmt::rt::)?Argument::new_(display|debug)$": s_fmt_opaque,
    r"^(std::fmt::|core::fmt::)?Arguments::new(_const)?$": s_fmt_opaque,
    r"^(std::fmt::|alloc::fmt::)?format$": s_format,
    r"^(std::sync::)?Arc::new$": s_arc_new,
    r"^<.* as (std::convert::)?(Into|From)<.*>>::(into|from)$": lambda e, st, c, a, d: NotImplemented,
}
