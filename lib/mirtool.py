"""Debug helper: python3-vt lib/mirtool.py <mir file> <srcdir> <fn regex> [inline regex]"""
import sys, re
sys.path.insert(0, __file__.rsplit("/", 1)[0])
import mirsym, summaries

def main():
    prog = mirsym.Program(open(sys.argv[1]).read(), sys.argv[2])
    f = prog.find(sys.argv[3])
    inl = sys.argv[4] if len(sys.argv) > 4 else None
    eng = mirsym.Engine(prog, inline=(lambda c, t: bool(inl and re.search(inl, t.name))), summaries=dict(summaries.BASE), unroll=1)
    paths = eng.run(f)
    print(f.name, len(paths), "paths; queries", eng.queries, eng.stats)
    for p in paths:
        print("----", p.status, p.note)
        print("  pc:", [str(mirsym.z3.simplify(c)) for c in p.pc])
        print("  result:", p.result)
        for ev in p.events:
            print("   ", ev)
main()
