#!/bin/sh
# Offline setup: nothing to build ahead of time; checks rebuild from /repo's working tree.
set -e
cd "$(dirname "$0")"
chmod +x check
python3-vt -c "import z3; print('z3', z3.get_version_string())"
cargo kani --version
mkdir -p evidence
