// Kani helper, injected as `file::verif_file`.
use super::*;

/// FileMetadata whose `stat` buffer is all zeros (len 0, mode 0) and whose id is given.
pub(crate) fn zero_meta(inode: u64, device: u64) -> FileMetadata {
    let metadata: fs::Metadata = unsafe { std::mem::zeroed() };
    FileMetadata { id: FileId { inode: inode as InodeId, device }, metadata }
}
