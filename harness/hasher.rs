// Kani harnesses for hasher.rs, injected as `hasher::verif_hasher` into a scratch copy.
// Model reader (arbitrary short reads, optional failure of one read call) + recording hasher.
#![allow(static_mut_refs, dead_code, unused_imports)]
use super::*;
use std::io::ErrorKind;

pub(crate) const N: usize = 4; // bytes in the model stream

pub(crate) static mut FED: [u8; 8] = [0; 8];
pub(crate) static mut FED_N: usize = 0;
pub(crate) static mut UPDATES: usize = 0;
pub(crate) static mut FINISHED: usize = 0;

pub(crate) struct RecHasher;

impl StreamHasher for RecHasher {
    fn new() -> Self {
        RecHasher
    }
    fn update(&mut self, bytes: &[u8]) {
        unsafe {
            UPDATES += 1;
            let mut i = 0;
            while i < bytes.len() {
                if FED_N < 8 {
                    FED[FED_N] = bytes[i];
                }
                FED_N += 1;
                i += 1;
            }
        }
    }
    fn finish(self) -> FileHash {
        unsafe {
            FINISHED += 1;
        }
        FileHash::default()
    }
}

pub(crate) struct ModelReader {
    pub data: [u8; N],
    pub len: usize,    // stream length (<= N)
    pub pos: usize,
    pub calls: usize,
    pub err_at: usize, // 0 = never; k = the k-th read call fails
    pub failed: bool,
}

impl Read for ModelReader {
    fn read(&mut self, buf: &mut [u8]) -> io::Result<usize> {
        self.calls += 1;
        if self.calls == self.err_at {
            self.failed = true;
            return Err(io::Error::from(ErrorKind::Other));
        }
        let avail = self.len - self.pos;
        if avail == 0 || buf.is_empty() {
            return Ok(0);
        }
        let max = if avail < buf.len() { avail } else { buf.len() };
        let n: usize = kani::any();
        kani::assume(n >= 1 && n <= max);
        let mut i = 0;
        while i < n {
            buf[i] = self.data[self.pos + i];
            i += 1;
        }
        self.pos += n;
        Ok(n)
    }
}

fn setup() -> (ModelReader, u64, usize) {
    let data: [u8; N] = kani::any();
    let slen: usize = kani::any();
    kani::assume(slen <= N);
    let len: u64 = kani::any();
    kani::assume(len <= (N as u64) + 1);
    let buf_len: usize = kani::any();
    kani::assume(buf_len >= 1 && buf_len <= 3);
    let err_at: usize = kani::any();
    kani::assume(err_at <= 6);
    (ModelReader { data, len: slen, pos: 0, calls: 0, err_at, failed: false }, len, buf_len)
}

/// stream_hash feeds exactly the first min(len, stream length) bytes of the stream to the hasher, once, in order,
/// and reports that count; a failed read never yields a hash.
#[kani::proof]
#[kani::unwind(8)]
pub fn stream_hash_consumes() {
    let (mut rd, len, buf_len) = setup();
    let r = stream_hash::<RecHasher>(&mut rd, FileLen(len), buf_len, |_| {});
    let expect = if (rd.len as u64) < len { rd.len } else { len as usize };
    unsafe {
        match &r {
            Ok((read_len, _)) => {
                assert!(!rd.failed, "VP-C15/C01: a read error must not produce a hash (partial data hashed)");
                assert!(FED_N == expect, "VP-C01: number of bytes hashed == min(len, stream length)");
                assert!(read_len.0 == expect as u64, "VP-C01: reported length == bytes hashed");
                let mut i = 0;
                while i < N {
                    if i < expect {
                        assert!(FED[i] == rd.data[i], "VP-C01: bytes hashed in order, each once");
                    }
                    i += 1;
                }
                assert!(FINISHED == 1, "VP-C01: hash finalised once");
                kani::cover!(expect == N && UPDATES >= 2, "whole stream in several reads");
                kani::cover!(expect == 0, "empty");
                kani::cover!(len as usize > rd.len && rd.len > 0, "stream shorter than requested");
                kani::cover!((len as usize) < rd.len && len > 0, "stream longer than requested");
            }
            Err(_) => {
                assert!(rd.failed, "VP-C15: Err only when a read failed");
                kani::cover!(FED_N > 0, "error after partial data");
            }
        }
    }
    std::mem::forget(r);
}

/// scan itself: returned count == bytes passed to the consumer == min(len, stream length) unless a read failed.
#[kani::proof]
#[kani::unwind(8)]
pub fn scan_counts() {
    let (mut rd, len, buf_len) = setup();
    let mut seen: usize = 0;
    let mut chunks_ok = true;
    let r = scan(&mut rd, FileLen(len), buf_len, |b: &[u8]| {
        if b.is_empty() || b.len() > buf_len {
            chunks_ok = false;
        }
        seen += b.len();
    });
    let expect = if (rd.len as u64) < len { rd.len } else { len as usize };
    match &r {
        Ok(n) => {
            assert!(!rd.failed, "VP-C15/C01: scan returned Ok although a read failed");
            assert!(*n == seen as u64 && seen == expect, "VP-C01: scan delivered min(len, stream length) bytes");
            assert!(chunks_ok, "VP-C01: chunk sizes within the buffer");
            kani::cover!(expect == N, "all bytes");
        }
        Err(_) => {
            assert!(rd.failed, "VP-C15: Err only when a read failed");
        }
    }
    std::mem::forget(r);
}
