// Kani harnesses for dedupe.rs, injected as `dedupe::verif_dedupe` into a scratch copy.
// Model file system + nondeterministic failure of every file-system wrapper.
#![allow(static_mut_refs, dead_code, unused_imports)]
use super::*;
use crate::file::verif_file as vf;
use crate::log::{Log, LogLevel, ProgressBarLength};
use crate::path::verif_path as vp;
use crate::progress::ProgressTracker;

// ---------------------------------------------------------------- model file system
pub(crate) const L: usize = 0; // the file being removed / replaced / moved   (path "L")
pub(crate) const T: usize = 1; // its temporary sibling                        (path "T")
pub(crate) const K: usize = 2; // the retained file                            (path "K")
pub(crate) const B: usize = 3; // an unrelated bystander                       (path "B")
pub(crate) const D: usize = 4; // move target                                  (path "P/D")
pub(crate) const NS: usize = 5;

pub(crate) const ABSENT: u8 = 0;
pub(crate) const REG: u8 = 1; // complete regular file
pub(crate) const PARTIAL: u8 = 2; // regular file whose content is being written
pub(crate) const SYMLINK: u8 = 3; // ino = slot index of the link target

#[derive(Clone, Copy, PartialEq, Eq)]
pub(crate) struct Slot {
    pub kind: u8,
    pub ino: u8,
    pub data: u8,
}

pub(crate) const S_ABSENT: Slot = Slot { kind: ABSENT, ino: 0, data: 0 };
pub(crate) const S_L: Slot = Slot { kind: REG, ino: 1, data: 1 };
pub(crate) const S_K: Slot = Slot { kind: REG, ino: 2, data: 1 };
pub(crate) const S_B: Slot = Slot { kind: REG, ino: 3, data: 3 };
pub(crate) const S_DPRE: Slot = Slot { kind: REG, ino: 4, data: 4 };

pub(crate) const OP_REMOVE: u8 = 0;
pub(crate) const OP_HARD: u8 = 1;
pub(crate) const OP_SOFT: u8 = 2;
pub(crate) const OP_MOVE: u8 = 3;
pub(crate) const OP_REF: u8 = 4;

pub(crate) static mut FS: [Slot; NS] = [S_L, S_ABSENT, S_K, S_B, S_ABSENT];
pub(crate) static mut OP: u8 = 0;
pub(crate) static mut WARNS: u32 = 0;
pub(crate) static mut FAULTS: u32 = 0;
pub(crate) static mut MUTATIONS: u32 = 0;
pub(crate) static mut INJECT: bool = true; // FS calls may fail nondeterministically
pub(crate) static mut LOCK_FAILED: bool = false;
pub(crate) static mut LOCK_ASKED: u32 = 0;
pub(crate) static mut D_PRE: bool = false;
pub(crate) static mut DIR_P: bool = false; // the parent directory of the move target exists
pub(crate) static mut NEXT_INO: u8 = 10;

pub(crate) fn slot_of(p: &Path) -> usize {
    match vp::key(p) {
        b'L' => L,
        b'T' => T,
        b'K' => K,
        b'B' => B,
        b'D' => D,
        _ => {
            assert!(false, "VPX: unexpected path handed to a file-system wrapper");
            B
        }
    }
}

fn ioerr() -> io::Error {
    io::Error::from(ErrorKind::Other)
}

fn inject() -> bool {
    unsafe {
        if INJECT && kani::any::<bool>() {
            FAULTS += 1;
            true
        } else {
            false
        }
    }
}

/// The state invariant: checked before and after the effect of every model-FS call, i.e. in
/// every state a kill or an error return can expose.
pub(crate) fn inv() {
    unsafe {
        assert!(FS[K] == S_K, "VP-C05/C02: the retained file is never touched");
        assert!(FS[B] == S_B, "VP-C05/C02: unrelated files are never touched");
        assert!(!LOCK_FAILED || MUTATIONS == 0, "VP-C20: file-system mutation although the lock was refused");
        if D_PRE {
            assert!(FS[D] == S_DPRE, "VP-C18/C02: an existing move target is never overwritten or altered");
        }
        let orig_at_l = FS[L] == S_L;
        let orig_at_t = FS[T] == S_L;
        let ok = match OP {
            OP_REMOVE => true,
            OP_HARD => orig_at_l || orig_at_t || FS[L] == S_K,
            OP_SOFT => orig_at_l || orig_at_t || FS[L] == Slot { kind: SYMLINK, ino: K as u8, data: 0 },
            // reflink overwrites in place: same inode, bytes of the retained file (identical)
            OP_REF => orig_at_l || orig_at_t,
            OP_MOVE => {
                orig_at_l || FS[D] == S_L || (FS[D].kind == REG && FS[D].data == S_L.data && !D_PRE)
            }
            _ => false,
        };
        if OP == OP_MOVE {
            assert!(ok, "VP-C05/C18/C02: moved file neither at its source path nor complete at the target (source removed before the copy was complete)");
        } else {
            assert!(ok, "VP-C05/C02: original bytes neither at the original path, nor under the temporary name, nor completely replaced");
        }
    }
}

fn stub_rename(source: &Path, target: &Path) -> io::Result<()> {
    let (s, t) = (slot_of(source), slot_of(target));
    unsafe {
        inv();
        if FS[s].kind == ABSENT || inject() {
            return Err(ioerr());
        }
        MUTATIONS += 1;
        FS[t] = FS[s];
        FS[s] = S_ABSENT;
        inv();
    }
    Ok(())
}

fn stub_remove(path: &Path) -> io::Result<()> {
    let s = slot_of(path);
    unsafe {
        inv();
        if FS[s].kind == ABSENT || inject() {
            return Err(ioerr());
        }
        MUTATIONS += 1;
        FS[s] = S_ABSENT;
        inv();
    }
    Ok(())
}

fn stub_hardlink(target: &Path, link: &Path) -> io::Result<()> {
    let (t, l) = (slot_of(target), slot_of(link));
    unsafe {
        inv();
        if FS[t].kind == ABSENT || FS[l].kind != ABSENT || inject() {
            return Err(ioerr());
        }
        MUTATIONS += 1;
        FS[l] = FS[t];
        inv();
    }
    Ok(())
}

fn stub_symlink(target: &Path, link: &Path) -> io::Result<()> {
    let (t, l) = (slot_of(target), slot_of(link));
    unsafe {
        inv();
        if FS[l].kind != ABSENT || inject() {
            return Err(ioerr());
        }
        MUTATIONS += 1;
        FS[l] = Slot { kind: SYMLINK, ino: t as u8, data: 0 };
        inv();
    }
    Ok(())
}

fn stub_check_can_rename(_source: &Path, target: &Path) -> io::Result<()> {
    let t = slot_of(target);
    unsafe {
        if FS[t].kind != ABSENT {
            return Err(io::Error::from(ErrorKind::AlreadyExists));
        }
    }
    Ok(())
}

fn stub_mkdirs(path: &Path) -> io::Result<()> {
    unsafe {
        inv();
        assert!(vp::key(path) == b'P', "VP-C18: directories are created only for the parent of the move target");
        if inject() {
            return Err(ioerr());
        }
        DIR_P = true;
    }
    Ok(())
}

/// `fs::copy`: creates/truncates the target, then fills it (two steps, either may fail).
fn stub_copy(source: &Path, target: &Path) -> io::Result<()> {
    let (s, t) = (slot_of(source), slot_of(target));
    unsafe {
        inv();
        if FS[s].kind != REG || !DIR_P || inject() {
            return Err(ioerr());
        }
        MUTATIONS += 1;
        NEXT_INO += 1;
        let ino = if FS[t].kind == ABSENT { NEXT_INO } else { FS[t].ino };
        FS[t] = Slot { kind: PARTIAL, ino, data: 0 };
        inv();
        if inject() {
            return Err(ioerr());
        }
        FS[t] = Slot { kind: REG, ino, data: FS[s].data };
        inv();
    }
    Ok(())
}

fn stub_temp_file(_path: &Path) -> Path {
    vp::mk1(b'T')
}

fn stub_maybe_lock(path: &Path, lock: bool) -> io::Result<Option<FileLock>> {
    unsafe {
        assert!(slot_of(path) == L, "VP-C20: the lock is taken on the file that is about to be changed");
        if lock {
            LOCK_ASKED += 1;
            if !INJECT && kani::any::<bool>() {
                LOCK_FAILED = true;
                return Err(io::Error::from(ErrorKind::PermissionDenied));
            }
        }
    }
    Ok(None)
}

fn stub_display(_p: &Path) -> String {
    String::new()
}

fn stub_format(_args: std::fmt::Arguments<'_>) -> String {
    String::new()
}

struct ModelLog;

impl Log for ModelLog {
    fn progress_bar(&self, _msg: &str, _len: ProgressBarLength) -> Arc<dyn ProgressTracker> {
        unreachable!()
    }
    fn log(&self, _level: LogLevel, _msg: String) {
        unsafe {
            WARNS += 1;
        }
    }
}

fn pm(p: Path, ino: u64) -> PathAndMetadata {
    PathAndMetadata { path: p, metadata: vf::zero_meta(ino, 1) }
}

fn make_cmd(op: u8, use_rename: bool) -> FsCommand {
    let link = pm(vp::mk1(b'L'), 1);
    match op {
        OP_REMOVE => FsCommand::Remove { file: link },
        OP_HARD => FsCommand::HardLink { target: Arc::new(pm(vp::mk1(b'K'), 2)), link },
        OP_SOFT => FsCommand::SoftLink { target: Arc::new(pm(vp::mk1(b'K'), 2)), link },
        _ => FsCommand::Move { source: link, target: vp::mk2(b'P', b'D'), use_rename },
    }
}

/// Runs one command from the initial model state and checks the end-state contract.
fn run(op: u8, check_lock: bool) {
    let should_lock: bool = kani::any();
    let use_rename: bool = kani::any();
    unsafe {
        OP = op;
        INJECT = !check_lock;
        if op == OP_MOVE {
            D_PRE = kani::any();
            if D_PRE {
                FS[D] = S_DPRE;
                DIR_P = true;
            } else {
                DIR_P = kani::any();
            }
        }
    }
    let cmd = make_cmd(op, use_rename);
    let log = ModelLog;
    let result = cmd.execute(should_lock, &log);
    unsafe {
        inv();
        let orig_at_l = FS[L] == S_L;
        match &result {
            Ok(_) => {
                assert!(!LOCK_FAILED, "VP-C20: command reported success although the lock was refused");
                assert!(!should_lock || LOCK_ASKED > 0, "VP-C20: locking was requested but no lock was asked for");
                match op {
                    OP_REMOVE => assert!(FS[L] == S_ABSENT, "VP-C05: remove reported success but the file is still there"),
                    OP_HARD => assert!(FS[L] == S_K, "VP-C05: link reported success but the path is not a hard link of the retained file"),
                    OP_SOFT => assert!(
                        FS[L] == Slot { kind: SYMLINK, ino: K as u8, data: 0 },
                        "VP-C05: soft link reported success but the path is not a symlink to the retained file"
                    ),
                    _ => {
                        assert!(FS[L] == S_ABSENT, "VP-C18: move reported success but the source is still there");
                        assert!(!D_PRE, "VP-C18: move reported success although the target existed");
                        assert!(
                            FS[D].kind == REG && FS[D].data == S_L.data,
                            "VP-C18: move reported success but the target does not hold the complete bytes"
                        );
                    }
                }
                assert!(FS[T] == S_ABSENT || WARNS > 0, "VP-C05: temporary file left behind without a warning");
            }
            Err(_) => {
                assert!(
                    orig_at_l || (FS[T] == S_L && WARNS > 0),
                    "VP-C05: command failed, the original path was not restored and no warning was logged"
                );
                assert!(
                    FAULTS > 1 || orig_at_l,
                    "VP-C05: a single failing call must leave the original file at its original path"
                );
                if LOCK_FAILED {
                    assert!(MUTATIONS == 0 && orig_at_l, "VP-C20: a refused lock must leave the file alone");
                }
            }
        }
        // vacuity witnesses
        kani::cover!(result.is_ok(), "VPW: success reachable");
        kani::cover!(
            (INJECT && result.is_err() && FAULTS == 1) || (!INJECT && LOCK_FAILED),
            "VPW: single fault / refused lock reachable"
        );
        kani::cover!(
            !(INJECT && (op == OP_HARD || op == OP_SOFT)) || (result.is_err() && FAULTS == 2 && !orig_at_l),
            "VPW: failed roll-back reachable"
        );
    }
    std::mem::forget(result);
    std::mem::forget(cmd);
}

macro_rules! fs_harness {
    ($name:ident, $op:expr, $lock:expr) => {
        #[kani::proof]
        #[kani::unwind(2)]
        #[kani::stub(FsCommand::unsafe_rename, stub_rename)]
        #[kani::stub(FsCommand::remove, stub_remove)]
        #[kani::stub(FsCommand::hardlink, stub_hardlink)]
        #[kani::stub(FsCommand::symlink, stub_symlink)]
        #[kani::stub(FsCommand::check_can_rename, stub_check_can_rename)]
        #[kani::stub(FsCommand::mkdirs, stub_mkdirs)]
        #[kani::stub(FsCommand::unsafe_copy, stub_copy)]
        #[kani::stub(FsCommand::temp_file, stub_temp_file)]
        #[kani::stub(FsCommand::maybe_lock, stub_maybe_lock)]
        #[kani::stub(crate::path::Path::display, stub_display)]
        #[kani::stub(alloc::fmt::format, stub_format)]
        fn $name() {
            run($op, $lock);
        }
    };
}

// fs_*: every file-system call may fail, the lock is granted.  lock_*: the lock may be refused.
fs_harness!(fs_remove, OP_REMOVE, false);
fs_harness!(fs_hardlink, OP_HARD, false);
fs_harness!(fs_softlink, OP_SOFT, false);
fs_harness!(fs_move, OP_MOVE, false);
fs_harness!(lock_remove, OP_REMOVE, true);
fs_harness!(lock_hardlink, OP_HARD, true);
fs_harness!(lock_softlink, OP_SOFT, true);
fs_harness!(lock_move, OP_MOVE, true);
