// Kani helper, injected as `path::verif_path` (child module => may use private items).
use super::*;
use std::ffi::CString;
use std::sync::Arc;

/// One-component relative path whose component is the single byte `c`.
pub(crate) fn mk1(c: u8) -> Path {
    Path::new(unsafe { CString::from_vec_unchecked(vec![c]) })
}

/// `parent/c`
pub(crate) fn mk2(parent: u8, c: u8) -> Path {
    Arc::new(mk1(parent)).push(unsafe { CString::from_vec_unchecked(vec![c]) })
}

/// `/c` (absolute)
pub(crate) fn mk_abs1(c: u8) -> Path {
    Arc::new(mk1(b'/')).push(unsafe { CString::from_vec_unchecked(vec![c]) })
}

/// First byte of the last component: the model file system's slot key.
pub(crate) fn key(p: &Path) -> u8 {
    p.component.as_bytes()[0]
}

pub(crate) fn parent_key(p: &Path) -> u8 {
    match &p.parent {
        Some(pp) => pp.component.as_bytes()[0],
        None => 0,
    }
}

pub(crate) fn ncomp(p: &Path) -> usize {
    let mut n = 1;
    let mut cur = p;
    while let Some(pp) = &cur.parent {
        n += 1;
        cur = pp.as_ref();
    }
    n
}

// ---------------------------------------------------------------- Path::is_prefix_of (C06 / C08 / C14: --isolate roots)
fn cs(c: u8) -> CString {
    unsafe { CString::from_vec_unchecked(vec![c]) }
}

/// path of n (1..=3) one-byte components
fn mkpath(n: usize, comps: [u8; 3]) -> Path {
    let mut p = mk1(comps[0]);
    if n > 1 {
        p = Arc::new(p).push(cs(comps[1]));
    }
    if n > 2 {
        p = Arc::new(p).push(cs(comps[2]));
    }
    p
}

#[cfg(kani)]
#[kani::proof]
#[kani::unwind(6)]
fn prefix_of_components() {
    let na: usize = kani::any();
    let nb: usize = kani::any();
    kani::assume(na >= 1 && na <= 3 && nb >= 1 && nb <= 3);
    let ca: [u8; 3] = kani::any();
    let cb: [u8; 3] = kani::any();
    for i in 0..3 {
        kani::assume(ca[i] == b'a' || ca[i] == b'b');
        kani::assume(cb[i] == b'a' || cb[i] == b'b');
    }
    let a = mkpath(na, ca);
    let b = mkpath(nb, cb);
    let got = a.is_prefix_of(&b);
    let mut want = na <= nb;
    for i in 0..3 {
        if i < na && i < nb && ca[i] != cb[i] {
            want = false;
        }
    }
    assert!(got == want, "VP-C06/C08/C14: is_prefix_of(a, b) iff every component of a equals the component of b at the same position");
    kani::cover!(got && na < nb, "VPW: proper prefix reachable");
    kani::cover!(!got && na <= nb, "VPW: mismatch reachable");
    std::mem::forget(a);
    std::mem::forget(b);
}
