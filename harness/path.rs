// Kani helper, injected as `path::verif_path` (child module => may use private items).
use super::*;
use std::ffi::CString;
use std::sync::Arc;

/// One-component relative path whose component is the single byte `c`.
pub(crate) fn mk1(c: u8) -> Path {
    Path::new(unsafe { CString::from_vec_unchecked(vec![c]) })
}

/// `parent/c`
pub(crate) fn mk2(parent: u8, c: u8) -> Path {
    Arc::new(mk1(parent)).push(unsafe { CString::from_vec_unchecked(vec![c]) })
}

/// `/c` (absolute)
pub(crate) fn mk_abs1(c: u8) -> Path {
    Arc::new(mk1(b'/')).push(unsafe { CString::from_vec_unchecked(vec![c]) })
}

/// First byte of the last component: the model file system's slot key.
pub(crate) fn key(p: &Path) -> u8 {
    p.component.as_bytes()[0]
}

pub(crate) fn parent_key(p: &Path) -> u8 {
    match &p.parent {
        Some(pp) => pp.component.as_bytes()[0],
        None => 0,
    }
}

pub(crate) fn ncomp(p: &Path) -> usize {
    let mut n = 1;
    let mut cur = p;
    while let Some(pp) = &cur.parent {
        n += 1;
        cur = pp.as_ref();
    }
    n
}
