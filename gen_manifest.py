#!/usr/bin/env python3
"""Regenerates MANIFEST.json from the table below (keeps the file valid and in one place)."""
import json, os
HERE = os.path.dirname(os.path.abspath(__file__))

CHECKS = {
 "C04": dict(cat="other", engine="mirsym", tech="bounded symbolic execution of rustc MIR (list model of dedupe::partition, header merge, clock/scan order) with z3 validity queries; native replays",
             text="z3 decides on the symbolic execution of dedupe::partition (groups of 2-3 files, every sub-group distribution, stat results / time comparisons as free pure functions) that only regular files of the recorded length are ever classified and that, with a time limit, every classified file passed the modification check; was_modified, fetch_files_metadata, run_dedupe's default limit and the order 'clock read < scan' with an unshifted conversion are checked on their MIR.",
             note="Trusted: MIR front end + summaries (lib/listsum.py list model), z3; FileSubGroup::group by contract; mtime-preserving replacement outside (as in the property).", ref="DESIGN.md §3 C04"),
 "C05": dict(cat="model_checking", tech="Kani/CBMC bounded model checking of the compiled FsCommand::execute over a model file system with symbolic call failures",
             text="Bounded model checking (Kani 0.68 / CBMC 6.11, CaDiCaL) of the real compiled code of execute/safe_remove/move_* for one command: all subsets of failing FS calls and all kill points between model-FS effects are covered by one SAT query per operation. Right level because the property quantifies over fault positions and crash points of a short straight-line protocol.",
             note="Trusted: Kani's translation, the model file system stubs (POSIX atomic rename/link/unlink, two-step copy), unwind 2 with unwinding assertions. RefLink path and thin wrappers checked separately where listed in evidence.", ref="DESIGN.md §3 C05"),
 "C10": dict(cat="other", engine="mirsym", tech="bounded symbolic execution of the MIR of the text report writer and reader over byte-list strings, z3 validity per token-class shape; native replay through the real writer/reader",
             text="For file names of <= 2 tokens over 12 byte classes (3 over 4) the real write_as_text is executed symbolically, its emitted path / base-dir line bytes are fed to the symbolic execution of read_paths and of the base-dir handling in read_header, and z3 decides that the value read equals the value written and that cuts of the last path line are rejected. The command line is C17's join/split. JSON (serde_json), regexes and chrono are outside the encoding.",
             note="Trusted: MIR front end, string summaries incl. the stfu8 model (validated natively in C17), the model of `^# Base dir: (.*)`; counterexamples are replayed natively.", ref="DESIGN.md §3 C10"),
 "C11": dict(cat="other", engine="mirsym", tech="bounded symbolic execution of rustc MIR: to_shell_str templates vs. execute's wrapper-call sequence, z3/term comparison; CLI replay dry-run vs real run",
             text="For Remove, SoftLink, HardLink and Move{rename,copy} the lines printed by to_shell_str (verb, quoted paths, order) are reconstructed from the format! templates and compared with the file-system wrapper calls of execute on its success path; space_to_reclaim is compared with execute's return value; dedupe() must yield one item per group. Partial: order restoration across threads, bash and RefLink are outside; quoting is C17.",
             note="Trusted: MIR front end + summaries; temp_file treated as a function of the path.", ref="DESIGN.md §3 C11"),
 "C12": dict(cat="other", engine="mirsym", tech="bounded symbolic execution of rustc MIR with z3 validity queries (cache key/get/put/open, hasher cache protocol); CLI replay with --cache",
             text="Kernel-level: z3 decides on the symbolic execution of HashCache::{key,get,put,open} and FileHasher::{hash_file,hash_transformed} (sled as an uninterpreted map, stat/clock accessors as pure functions) that a hit requires equal millisecond mtime and length and returns the stored pair, that entries are stored under (file id, chunk) in a tree named after hash function and transform, and that the hashers store exactly what they computed. The end-to-end statement follows under the property's proviso.",
             note="Trusted: MIR front end + summaries, z3, sled as a map. Durability / interrupted runs and inode reuse within one millisecond are outside.", ref="DESIGN.md §3 C12"),
 "C17": dict(cat="other", engine="mirsym", tech="bounded symbolic execution of the MIR of arg::quote/split over byte-list strings (symbolic bytes, concrete length), z3 validity per token-class shape; native translator validation; bash replay",
             text="For every argument built from <= 2 tokens over 17 byte classes and 3 tokens over 8 classes (thorough: more), with the concrete bytes chosen by the solver inside each class, z3 decides on the symbolic execution of the real quote / split state machine that split(quote(x)) == [x] and that a reference bash decoder returns x. Bounded: longer arguments are outside the claim; the stfu8 crate is a validated reference model.",
             note="Trusted: MIR front end, string summaries (lib/strsum.py) incl. the stfu8 model and the bash word model - both checked natively on every run (1055 concrete inputs; every counterexample replayed with the real functions and real bash).", ref="DESIGN.md §3 C17"),
 "C18": dict(cat="model_checking", tech="Kani/CBMC bounded model checking of execute(Move) over a model file system",
             text="Bounded model checking of the compiled move path (existence check, mkdirs, rename or copy+delete) with symbolic target existence and call failures.",
             note="Trusted: stubs as C05; TOCTOU and real cross-device rename outside the claim.", ref="DESIGN.md §3 C18"),
 "C19": dict(cat="model_checking", engine="bmc", tech="interleaving bounded model checking with z3 over thread automata extracted from the MIR of Semaphore::acquire/release; shuttle DFS replay",
             text="Bounded model checking over all interleavings (symbolic scheduler and woken waiter) of 2-3 threads (4 in thorough) doing 1-3 acquire/release pairs, guards released on the acquiring or another thread, 0-2 permits, 0-2 spurious wake-ups; the unrolling is continued until no reachable state has an enabled transition, so each configuration is covered completely. Safety (holders <= permits, no overflow, no unlocked access), no lost wake-up (no stuck state with unfinished threads) and permit restoration are checked in every reachable state.",
             note="Trusted: library semantics given to Mutex::lock / Condvar::wait / notify_one / guard drop; macro-step extraction by lib/bmc.py + lib/mirsym.py; z3. Fairness/starvation outside.", ref="DESIGN.md §3 C19"),
 "C20": dict(cat="model_checking", tech="Kani/CBMC bounded model checking of FsCommand::execute with a nondeterministically refused lock stub",
             text="Bounded model checking of the compiled execute for each command with maybe_lock refused nondeterministically: no model-FS mutation may follow a refusal and the command must return Err.",
             note="Trusted: Kani translation, lock stub contract (fcntl semantics outside the claim).", ref="DESIGN.md §3 C20"),
 "C01": dict(cat="other", engine="mirsym", tech="bounded symbolic execution of rustc MIR (stage closures composed by role into rehash) with z3 validity queries; Kani on the streaming hash; CLI replay",
             text="Kernel-level: z3 decides over all 64-bit file lengths, prefix sizes and disk kinds that the stage closures hash every byte of every file of an admitted group in the stage producing the final key, that the key contains the length, that hard links of one inode get the same key in every stage (hash closure of each stage composed into rehash's task closure, id-groups of 2 paths), and that the transform output is hashed without a cap. The end-to-end statement follows by the composition argument in DESIGN.md under collision freedom.",
             note="Trusted: MIR front end + summaries, z3, collision freedom of the hash functions; thread-pool plumbing, device detection, child processes and the walk are outside the claim.", ref="DESIGN.md §3 C01"),
 "C02": dict(cat="other", engine="mirsym", tech="bounded symbolic execution of rustc MIR (list model of partition and dedupe_script) with z3 validity queries + Kani/CBMC on FsCommand::execute; native replays",
             text="Kernel-level: z3 decides for groups of 2-3 files in every sub-group distribution that max(1, n) sub-groups are kept out of the drop list, nothing is lost or duplicated and protected sub-groups are never dropped; dedupe_script is executed symbolically for all five operations; Kani shows that executing a command never touches the retained file, an unrelated file or an existing move target under arbitrary call failures. Round trip of paths through the report is C10, staleness C04.",
             note="Trusted: MIR front end + list summaries, z3, Kani translation + model FS stubs; FileSubGroup::group by contract; whole-tree inventory and real file systems outside.", ref="DESIGN.md §3 C02"),
 "C03": dict(cat="other", engine="mirsym", tech="bounded symbolic execution of rustc MIR with z3 validity queries (filter semantics, rehash wiring, task closure)",
             text="Kernel-level: z3 decides for all 64-bit counts that the replication filter is the documented one and monotone (a candidate group is never pruned when a refinement could qualify); the rehash tail and task closure are executed symbolically (id-groups of 2 paths) to show that a stage drops a file only when its hash failed and passes skipped groups through.",
             note="Trusted: MIR front end + summaries, z3; sub-group counting (IndexMap), plumbing and the walk are outside the claim.", ref="DESIGN.md §3 C03"),
 "C06": dict(cat="other", engine="mirsym", tech="bounded symbolic execution of rustc MIR with z3 validity queries against the documented filter semantics; CLI replay",
             text="z3 decides for all option values and all 64-bit counts that matches/matches_strictly/missing_count/redundant_count and GroupConfig::group_filter implement the documented replication filter and defaults, and that isolate roots are canonicalised like scanned paths. Hard-link / symlink sub-grouping (IndexMap) is not encodable and outside the claim.",
             note="Trusted: MIR front end + summaries, z3. Partial claim: the sub-group count is a free symbol.", ref="DESIGN.md §3 C06"),
 "C07": dict(cat="other", engine="mirsym", tech="bounded symbolic execution of rustc MIR (make_args closure sequences x Drop impls, open flags, dry-run branch) with z3; CLI replay with tree snapshots",
             text="z3/path enumeration over Transform::make_args (argument closure invoked for [], [IN], [OUT], [IN,OUT], [OUT,IN]; copy and in_place symbolic) composed with the Drop impls of Input/Output: every path deleted, created or written derives from the per-run temp dir and copy targets are fresh random names; prepare_input_file copies; open_noatime is read-only; run_dedupe prints iff --dry-run; cache under dirs::cache_dir(). Partial: what the user's transform does and sled's files are outside.",
             note="Trusted: MIR front end + summaries, contract of parse_command (one closure call per $VAR), z3.", ref="DESIGN.md §3 C07"),
 "C08": dict(cat="other", engine="mirsym", tech="bounded symbolic execution of rustc MIR (list model of partition, sort_by_priority table, header merge) with z3 validity queries; native partition/sort replays",
             text="z3 decides on the symbolic execution of dedupe::partition (2-3 files, every sub-group distribution, pattern matches as free predicates) that exactly the unprotected sub-groups ranked last are dropped so that n = max(1, rf_over or 1) survive and sub-groups stay whole; each Priority variant's key/direction, the last-to-first application with a stable sort, and run_dedupe's inheritance of rf_over / match_links / size-check / isolate roots are checked on their MIR. Hard-link sub-grouping itself is outside (IndexMap).",
             note="Trusted: MIR front end + list summaries, z3, stability of std's sort_by_key; glob matching is C16.", ref="DESIGN.md §3 C08"),
 "C09": dict(cat="other", engine="mirsym", tech="bounded symbolic execution of rustc MIR (own engine) with z3 validity queries against a reference decision table; CLI replay",
             text="Every path of the walk's decision functions and of the closures carrying the nesting level is enumerated symbolically from the MIR of the working tree (environment calls are free symbols); z3 decides for all option values and all 64-bit levels/depths/sizes that the effects equal the documented decision table. Bounded symbolic execution, not a proof: loops over directory entries are cut after one iteration (each entry is handled by the same closure).",
             note="Trusted: my MIR front end and summaries (lib/mirsym.py, lib/summaries.py), rustc's MIR dump, z3; the `ignore` crate, glob matching (C16) and real directory iteration are outside the claim.", ref="DESIGN.md §3 C09"),
 "C15": dict(cat="other", engine="mirsym", tech="bounded symbolic execution of rustc MIR with every I/O result symbolic (z3 validity per path) + Kani/CBMC on hasher::scan/stream_hash with a failing model reader; CLI replay under an LD_PRELOAD fault shim",
             text="Faults are symbolic variables: each I/O call on the analysed paths returns an arbitrary Ok/Err. Kani/CBMC decides on the compiled hasher::scan/stream_hash (stream <= 4 bytes, arbitrary short reads, the k-th read failing) that a failed read never yields a hash; z3 decides on the MIR of file_hash, hash_file, hash_transformed, the *_or_log_err wrappers, the hash closure of every stage, rehash's task closure, file_info_or_log_err, FileInfo::new, scan_files' consumer, visit_path/visit_link/visit_dir, run's roots loop, sorted_entries and update_file_locations that an error removes exactly the failing entry (no hash, no stand-in hash, no cache entry, warning unless NotFound), that no panic is conditional on an I/O error and that the roots loop continues. Kernel-level: the end-to-end statement follows with C03's wiring facts.",
             note="Trusted: MIR front end + summaries (lib/optsum.py: Option/Result combinators execute their closure bodies), z3, Kani translation + model reader; error reporting of std::fs / child processes. Real syscall-level fault injection only in the replay step.", ref="DESIGN.md §3 C15"),
 "C16": dict(cat="other", engine="mirsym", tech="bounded symbolic execution of the MIR of regex::Regex::new/get_fixed_prefix/is_partial_match over byte-list strings (regex = fragment classes with solver-chosen bytes, directory = symbolic characters), z3 validity against a reference matcher written as an SMT dynamic programme; native replay with the real Regex",
             text="Pruning half: for every anchored regex of <= 3 fragments from the menu the glob translator emits (plain / escaped / two-byte literal, '/', [^/]*, .*, [^/], (a|b), (a)?, [ab], plus c? and c* of raw regexes; bytes chosen by the solver) and every directory string of <= 4 symbolic characters ending in '/', z3 decides on the symbolic execution of Regex::new + get_fixed_prefix + is_partial_match that a directory which is a prefix of a matched string is never rejected. Counterexamples are grouped by call site (comparison vs. prefix computation) and replayed with the real Regex. The matching half (glob -> regex by nom combinators, the regex engine) is not encodable and outside the claim.",
             note="Trusted: MIR front end + string summaries, the reference semantics of the regex fragments (validated natively on the replayed counterexamples), z3. Two defects found on the unchanged tree are pinned by an existing unit test and recorded as known findings.", ref="DESIGN.md §3 C16"),
 "C14": dict(cat="other", engine="mirsym", tech="bounded symbolic execution of rustc MIR (write_report_at statistics, FileSubGroup::group with an insertion-ordered-map model against a declarative reference, redundant/missing counts, sort keys, the four writers) with z3 validity queries; CLI replay recomputing the header from the body",
             text="z3 decides on the symbolic execution of write_report_at (2 symbolic groups) that every header statistic is the sum over the very list handed to the writer; on FileSubGroup::group (<= 3 files x <= 2 roots, symbolic ids and prefix relation, IndexMap modelled by its contract) that the sub-groups are the documented ones, and on redundant_count / missing_count / matches(_strictly) composed with it that they equal their documented definitions; sort_by_path keeps the files of one isolate root together in root order; the final group order is by decreasing (length, hash); the text, fdupes, CSV and JSON writers list the same files in the same order and the text header count equals the number of path lines. Kernel-level: csv / serde_json output and the parallel sort are trusted.",
             note="Trusted: MIR front end + list / map / Option summaries, z3, std sorts, csv and serde_json. Counterexamples are replayed through the CLI (replay/c14_consistency.py: 80 runs over formats x options, header recomputed from the body).", ref="DESIGN.md §3 C14"),
}

NOT_YET = {}

NA = {
 "C13": "Quantifies over OS schedules of rayon pools / channels and process termination; Kani has no concurrency support and the code has no sequential kernel whose solver verdict would decide the property (the only encodable schedule-sensitive unit, the semaphore, is C19).",
}

def main():
    props = [json.loads(l)["id"] for l in open(os.path.join(HERE, "properties.jsonl"))]
    checks = []
    for pid in props:
        if pid in CHECKS:
            c = CHECKS[pid]
            checks.append({
                "property_id": pid,
                "quick_cmd": "./check %s --tier quick" % pid,
                "thorough_cmd": "./check %s --tier thorough" % pid,
                "evidence_file": "/verif/evidence/%s.json" % pid,
                "replay_cmd_template": "./check %s --replay {path}" % pid,
                "engine": c.get("engine", "kani"),
                "level_claimed": {"category": c["cat"], "text": c["text"], "design_ref": c["ref"]},
                "level_note": c["note"],
                "technique": c["tech"],
            })
    na = []
    for pid in props:
        if pid in CHECKS:
            continue
        reason = NA.get(pid) or NOT_YET.get(pid) or "check not built yet in this session (solver-based check planned in DESIGN.md §3); not claimed"
        na.append({"property_id": pid, "reason": reason})
    man = {
        "version": 1,
        "setup_cmd": "./setup.sh",
        "hooks": {"guard": "kani", "enable": "no source hooks in /repo: harness modules from /verif/harness are injected into a scratch copy as #[cfg(kani)] child modules", 
                  "baseline_off_cmd": "cd /repo/fclones && cargo test --workspace --no-fail-fast --offline", "source_commits": [], "add_only": True},
        "engines": [
            {"name": "kani", "path": "lib/kani.py", "serves_properties": [p for p in props if p in CHECKS and CHECKS[p].get("engine", "kani") == "kani"], "kind_free_text": "E1: Kani harnesses (CBMC) over the compiled code in a scratch copy"},
            {"name": "bmc", "path": "lib/bmc.py", "serves_properties": ["C19"], "kind_free_text": "E3: z3 interleaving BMC of MIR-derived thread automata"},
            {"name": "mirsym", "path": "lib/mirsym.py", "serves_properties": [p for p in props if p in CHECKS and CHECKS[p].get("engine") == "mirsym"], "kind_free_text": "E2: bounded symbolic execution of the nightly MIR dump of the working tree into z3 (path mode, events, lazy symbolic values)"},
        ],
        "checks": checks,
        "not_applicable": na,
        "notes": "Exit 0 = all obligations discharged; 1 = VIOLATION (replayed); 2 = inconclusive (never reported as success or violation).",
    }
    json.dump(man, open(os.path.join(HERE, "MANIFEST.json"), "w"), indent=1)

main()
