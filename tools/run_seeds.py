#!/usr/bin/env python3
"""Runs the checks named by each seed's meta.json (breaks_property) against a scratch worktree with the seed applied.
usage: run_seeds.py [seed ids...] [--props C01,C02] [--jobs N]   -> table on stdout, logs in /tmp/seedruns/"""
import json, os, subprocess, sys, concurrent.futures as cf
V = "/verif"
args = [a for a in sys.argv[1:] if not a.startswith("--")]
jobs = 3
props_override = None
for a in sys.argv[1:]:
    if a.startswith("--jobs="): jobs = int(a.split("=")[1])
    if a.startswith("--props="): props_override = a.split("=")[1].split(",")
seeds = args or sorted(os.listdir(V + "/seeded"))
os.makedirs("/tmp/seedruns", exist_ok=True)
def one(sid):
    sd = os.path.join(V, "seeded", sid)
    patch = os.path.join(sd, "patch.diff")
    if not os.path.exists(patch):
        sd = "/tmp/seedout/" + sid; patch = sd + "/patch.diff"
    meta = json.load(open(os.path.join(sd, "meta.json"))) if os.path.exists(os.path.join(sd, "meta.json")) else {}
    props = props_override or [p.strip() for p in meta.get("breaks_property", "").split(",") if p.strip()]
    wt = "/tmp/sr_" + sid
    subprocess.run(["git", "-C", "/repo", "worktree", "remove", "--force", wt], stderr=subprocess.DEVNULL)
    subprocess.run(["git", "-C", "/repo", "worktree", "add", "-q", "--detach", wt, "HEAD"], check=True)
    res = {}
    try:
        if subprocess.run(["git", "-C", wt, "apply", patch]).returncode != 0:
            return sid, {"*": "patch does not apply"}
        for p in props:
            if not os.path.exists(os.path.join(V, "obligations", p + ".py")):
                res[p] = "no check"; continue
            env = dict(os.environ, VERIF_REPO=wt, VERIF_EVIDENCE_DIR="/tmp/seedruns/ev_%s" % sid, VERIF_SCRATCH="/var/tmp")
            r = subprocess.run(["./check", p], cwd=V, env=env, stdout=subprocess.PIPE, stderr=subprocess.STDOUT, timeout=7200)
            out = r.stdout.decode(errors="replace")
            open("/tmp/seedruns/%s_%s.log" % (sid, p), "w").write(out)
            nviol = sum(1 for l in out.splitlines() if l.startswith("VIOLATION"))
            res[p] = "exit=%d viol=%d" % (r.returncode, nviol)
    finally:
        subprocess.run(["git", "-C", "/repo", "worktree", "remove", "--force", wt], stderr=subprocess.DEVNULL)
    return sid, res
with cf.ThreadPoolExecutor(jobs) as ex:
    for sid, res in ex.map(one, seeds):
        print(sid, res, flush=True)
