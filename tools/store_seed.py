#!/usr/bin/env python3
"""usage: store_seed.py <src dir with patch.diff, notes.json, demo*> <seed id>  - copies an agent-made seed into /verif/seeded/<id>"""
import json, os, shutil, sys
src, sid = sys.argv[1], sys.argv[2]
dst = os.path.join("/verif/seeded", sid)
os.makedirs(dst, exist_ok=True)
for f in os.listdir(src):
    if f.startswith(("patch", "demo")):
        shutil.copy(os.path.join(src, f), os.path.join(dst, f))
n = json.load(open(os.path.join(src, "notes.json")))
meta = {"id": sid, "breaks_property": n.get("breaks_property", sid.split("-")[0]), "summary": n.get("summary", ""),
        "needs_to_manifest": n.get("needs_to_manifest", ""), "files_changed": n.get("files_changed", []),
        "how_to_run_demo": n.get("how_to_run_demo", ""), "test_filter": n.get("test_filter", ""),
        "author": "independent sub-agent given only the property text and a scratch worktree",
        "confirmed_by_me": sys.argv[3] if len(sys.argv) > 3 else "tools/confirm_seed.sh in a scratch worktree: suite 170+4+2 passes with the patch; demo fails with the patch and passes without",
        "caught_by": "pending"}
json.dump(meta, open(os.path.join(dst, "meta.json"), "w"), indent=1)
print("stored", dst)
