#!/bin/sh
# usage: try_seed.sh <patch.diff> <label> <prop>...   -- runs checks against a scratch worktree with the patch applied
set -u
patch="$1"; label="$2"; shift 2
wt=/tmp/sw_$label
git -C /repo worktree remove --force "$wt" 2>/dev/null
git -C /repo worktree add -q --detach "$wt" HEAD || exit 3
if ! git -C "$wt" apply "$patch"; then echo "PATCH DOES NOT APPLY"; git -C /repo worktree remove --force "$wt"; exit 3; fi
mkdir -p /tmp/seedev_$label
for p in "$@"; do
  echo "=== $label $p"
  (cd /verif && VERIF_REPO="$wt" VERIF_EVIDENCE_DIR=/tmp/seedev_$label ./check "$p" 2>&1 | grep -E "VIOLATION|KNOWN|OK property|INCONCLUSIVE|\[C" ; echo "exit=$?")
done
git -C /repo worktree remove --force "$wt"
