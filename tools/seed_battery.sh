#!/bin/sh
# usage: seed_battery.sh <seed id> <battery>...  - builds the seed's binary in a scratch worktree and runs replay batteries on it
sid=$1; shift
wt=/tmp/sb_$sid
git -C /repo worktree remove --force $wt 2>/dev/null
git -C /repo worktree add -q --detach $wt HEAD || exit 3
git -C $wt apply --3way /verif/seeded/$sid/patch.diff 2>/dev/null || git -C $wt apply /verif/seeded/$sid/patch.diff || { echo "PATCH DOES NOT APPLY"; git -C /repo worktree remove --force $wt; exit 3; }
(cd $wt/fclones && CARGO_NET_OFFLINE=true cargo build --offline --bin fclones --target-dir /var/tmp/seedbuild_$sid >/dev/null 2>&1)
python3 /verif/tools/run_battery.py /var/tmp/seedbuild_$sid/debug/fclones "$@" 2>&1 | grep -v "^WARNING"
git -C /repo worktree remove --force $wt
rm -rf /var/tmp/seedbuild_$sid
