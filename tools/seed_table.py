#!/usr/bin/env python3
"""usage: seed_table.py <sweep output of run_seeds.py>...   - rewrites the seed table in DESIGN.md (between the SEED-TABLE markers)
and the `caught_by` field of seeded/*/meta.json from the sweep results (later files override earlier ones)."""
import ast, json, os, re, sys
V = "/verif"
res = {}
for f in sys.argv[1:]:
    for line in open(f):
        m = re.match(r"^(C\d\d-\d+) (\{.*\})\s*$", line)
        if m:
            res.setdefault(m.group(1), {}).update(ast.literal_eval(m.group(2)))
rows = []
for sid in sorted(os.listdir(V + "/seeded")):
    mp = os.path.join(V, "seeded", sid, "meta.json")
    if not os.path.exists(mp):
        continue
    meta = json.load(open(mp))
    r = res.get(sid, {})
    cells = []
    caught = []
    for prop, v in sorted(r.items()):
        mark = "V" if "exit=1" in v and "viol=0" not in v else ("?" if "exit=2" in v else ("-" if "exit=0" in v else v))
        cells.append("%s:%s" % (prop, mark))
        if mark == "V":
            caught.append(prop)
    what = (meta.get("summary") or meta.get("needs_to_manifest") or "")[:150].replace("|", "/").replace("\n", " ")
    status = meta.get("status", "")
    if status.startswith("obsolete"):
        cells = ["obsolete (benign after a fix)"]
    rows.append("| %s | %s | %s | %s |" % (sid, meta.get("breaks_property", ""), " ".join(cells) or "not run", what))
    if r and not status.startswith("obsolete"):
        meta["caught_by"] = ("checks " + ", ".join(caught) + " (exit 1 with a replayed VIOLATION, tools/run_seeds.py)") if caught else "not caught (see DESIGN.md 9.5)"
        json.dump(meta, open(mp, "w"), indent=1)
table = "| seed | breaks | result of the checks of the seed's properties | change |\n|---|---|---|---|\n" + "\n".join(rows)
p = V + "/DESIGN.md"
s = open(p).read()
a, b = s.index("<!-- SEED-TABLE-BEGIN -->"), s.index("<!-- SEED-TABLE-END -->")
s = s[:a] + "<!-- SEED-TABLE-BEGIN -->\n" + table + "\n" + s[b:]
open(p, "w").write(s)
n = len(rows)
caught_n = sum(1 for r in rows if ":V" in r)
print("seeds", n, "with at least one V", caught_n)
