#!/usr/bin/env python3-vt
"""Development helper: run one obligation function against /repo's working tree.
usage: tools/run_part.py <module> <function> [lib|ctx]    e.g.  tools/run_part.py C05_e2 add ctx"""
import importlib
import sys
sys.path.insert(0, '/verif/lib'); sys.path.insert(0, '/verif')
import oblig
from common import Report
mod, fn = sys.argv[1], sys.argv[2]
how = sys.argv[3] if len(sys.argv) > 3 else "ctx"
m = importlib.import_module("obligations." + mod)
rep = Report("DEV", "other", "dev")
ctx = oblig.Ctx()
if how == "ctx":
    getattr(m, fn)(rep, ctx)
elif how == "lib":
    getattr(m, fn)(rep, ctx.lib)
elif how == "ctxlib":
    getattr(m, fn)(rep, ctx, ctx.lib)
for o in rep.obls:
    print("%-90s %-12s %s" % (o.name[:90], o.verdict, (o.detail or o.witness or "")[:500]))
