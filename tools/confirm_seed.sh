#!/bin/sh
# usage: confirm_seed.sh <worktree> <seed dir> <unit-demo diff | -> <test filter | -> [script demo cmd using $BIN]
# Confirms: (1) suite passes with the patch, (2) demo fails with the patch, (3) demo passes without it.
wt="$1"; sd="$2"; demo="$3"; filt="$4"; script="${5:-}"
head=$(git -C /repo rev-parse HEAD)
git -C "$wt" checkout -q -- . ; git -C "$wt" clean -fdq -e target; git -C "$wt" checkout -q --detach "$head"
cd "$wt" || exit 3
git apply "$sd/patch.diff" || { echo "RESULT patch-does-not-apply"; exit 3; }
(cd fclones && cargo test --offline 2>&1 | grep -E "^test result" | tr '\n' ' '); echo
suite=$(cd fclones && cargo test --offline 2>&1 | grep -cE "^test result: ok")
with=NA; without=NA
if [ "$demo" != "-" ]; then
  git apply "$sd/$demo" || echo "demo diff does not apply"
  (cd fclones && cargo test --offline --lib "$filt" > /tmp/confirm_with.log 2>&1); with=$?
  git apply -R "$sd/patch.diff"
  (cd fclones && cargo test --offline --lib "$filt" > /tmp/confirm_without.log 2>&1); without=$?
  git apply -R "$sd/$demo"
fi
swith=NA; swithout=NA
if [ -n "$script" ]; then
  git -C "$wt" checkout -q -- .; git apply "$sd/patch.diff"
  (cd fclones && cargo build --offline >/dev/null 2>&1)
  BIN="$wt/target/debug/fclones" sh -c "$script" > /tmp/confirm_swith.log 2>&1; swith=$?
  git -C "$wt" checkout -q -- .
  (cd fclones && cargo build --offline >/dev/null 2>&1)
  BIN="$wt/target/debug/fclones" sh -c "$script" > /tmp/confirm_swithout.log 2>&1; swithout=$?
fi
git -C "$wt" checkout -q -- . ; git -C "$wt" clean -fdq -e target
echo "RESULT seed=$sd suites_ok=$suite unit_with=$with unit_without=$without script_with=$swith script_without=$swithout"
