import sys, json, time
sys.path.insert(0,'/verif/replay')
import batteries
b = sys.argv[1]
for name in sys.argv[2:]:
    t=time.time()
    d = getattr(batteries, name)(b)
    print(name, len(d), "deviations", round(time.time()-t,1), "s")
    for x in d[:6]: print("   ", json.dumps(x)[:400])
