#!/bin/sh
# usage: run_all.sh [tier] [jobs]   - runs every registered check on /repo (evidence is rewritten), prints one line per check
tier=${1:-quick}; jobs=${2:-3}
mkdir -p /tmp/runall
cd /verif
ls obligations | sed -n 's/^\(C[0-9][0-9]\)\.py$/\1/p' | xargs -P $jobs -I{} sh -c './check {} --tier '$tier' > /tmp/runall/{}.log 2>&1; echo "{} exit=$? $(grep -E "^(OK|VIOLATION|INCONCLUSIVE|KNOWN)" /tmp/runall/{}.log | head -3 | cut -c1-160 | tr "\n" " ")"'
