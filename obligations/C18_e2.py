"""C18, E2 part: the path mapping of `move`.

move_target(dir, source): on every path the result is Path::join(prefix, Path::strip_root(source)) where the prefix is built from
`dir` and the root of `source` only - the source's components below the root reach the target untouched, so distinct absolute
sources under one root get distinct targets (join and strip_root are component-wise; their own code is outside this obligation).
dedupe_script (Move): every command's target is move_target(target_dir, <the dropped file's path>) and use_rename is exactly
are_on_same_mount(source, target_dir) - checked in C02's script obligation.
A counterexample is abstract; it is confirmed natively with the real move_target on a menu of troublesome source paths
(':' and '\\' in names, invalid UTF-8 bytes, names differing only in such bytes): replay/dedupe_test.rs."""
import os
import re
import sys

import z3

import mirsym
import oblig
import optsum
import summaries
from common import Inconclusive, Obligation, VERIF, copy_repo, scratch_root
from mirsym import Agg, Lazy, Ref

MENU = [b"/d/ab", b"/d/a:b", b"/d/a\\b", b"/d/a/b", b"/d/\xffx", b"/d/\xfex", b"/d/\xc5\xbc", b"/d/a b", b"/e/ab", b"/d/ab/c", b"/d/a:/b", b"/d/:ab", b"/d/ab:",
        b"/d/\xef\xbf\xbdx", b"/d/a\nb", b"/d/.hidden", b"/d/a..b"]


def native_move_targets():
    sys.path.insert(0, os.path.join(VERIF, "replay"))
    import native_driver
    src = copy_repo("dedupe-replay-src")
    drv = native_driver.NativeDriver(src, scratch_root(), [("dedupe", "dedupe_test.rs", "verif_dedupe_test")])
    out = drv.run("dedupe::verif_dedupe_test::verif_dedupe_driver", ["MT %s %s" % (b"/T/arch".hex(), " ".join(m.hex() for m in MENU))], "mt")
    if not out or out[0] in ("PANIC", "?"):
        return [{"problem": "move_target panics on the path menu"}]
    res = [bytes.fromhex(h) for h in out[0].split()]
    devs = []
    seen = {}
    for s, t in zip(MENU, res):
        want = b"/T/arch" + s
        t = os.path.normpath(t)        # the root "/" contributes an empty name, printed as "/./"
        if t in seen and seen[t] != s:
            devs.append({"problem": "two sources map to one target", "sources": [repr(seen[t]), repr(s)], "target": repr(t)})
        seen[t] = s
        if t != want:
            devs.append({"problem": "target is not DIR/<absolute source path without the root>", "source": repr(s), "target": repr(t), "documented": repr(want)})
    return devs


def add(rep, ctx=None):
    ctx = ctx or oblig.Ctx()
    prog = ctx.lib
    f = prog.method("PartitionedFileGroup", "move_target")
    eng = oblig.engine(prog, inline=oblig.module_inliner(prog, "dedupe.rs", r"^$"), extra=dict(optsum.SUMMARIES))
    d, s = Lazy("dir", f.args[0][1]), Lazy("src", f.args[1][1])
    ps = eng.run(f, args=[d, s])
    o = Obligation("move_target(DIR, source) = DIR [/ name of the root] / source without its root: the components of the source reach the target untouched",
                   "E2 mirsym/z3", oblig.fnames(eng), "loop-free; Path::join / strip_root / root are leaves")
    o.key = "move_target:mapping"
    verdict, detail, n = "holds", "", 0
    for p in ps:
        if p.status in ("abort", "bound"):
            verdict, detail = "inconclusive", "path %s: %s" % (p.status, p.note[:120])
            break
        if p.status != "return":
            o.queries += 1
            if eng.check(*p.pc) == z3.sat:
                verdict, detail = "violated", "a feasible path ends with %s" % p.status
                break
            continue
        n += 1
        st = mirsym.State()
        st.mem, st.pc = p.mem, list(p.pc)
        joins = [ev for ev in p.events if re.search(r"Path::join$", ev.callee)]
        strips = [ev for ev in p.events if re.search(r"Path::strip_root$", ev.callee) and ev.args and ev.args[0] is s]
        fin = [ev for ev in joins if ev.ret is p.result]
        ok = False
        if len(fin) == 1 and len(strips) >= 1:
            suffix = summaries.deref_val(eng, st, fin[0].args[1])
            ok = any(suffix is ev.ret for ev in strips)
            # the prefix must not depend on the source below its root
            pre = summaries.canon(eng, st, fin[0].args[0])
            other_src = [ev for ev in p.events if ev.args and any(a is s for a in ev.args) and not re.search(r"Path::(root|strip_root)$", ev.callee)]
            ok = ok and not other_src
        if not ok:
            o.queries += 1
            if eng.check(*p.pc) == z3.sat:
                verdict = "violated"
                detail = "on a feasible path the result is not join(<prefix from DIR and the root>, strip_root(source)): events %s" % [ev.callee[-40:] for ev in p.events][:10]
                o.cex = {"events": [repr(ev)[:120] for ev in p.events][:12]}
                break
    if verdict == "holds" and n == 0:
        verdict, detail = "inconclusive", "vacuous"
    o.verdict, o.detail = verdict, detail
    o.witness = "%d returning paths" % n
    o.stats = {"paths": len(ps), "states": len(ps), "transitions": eng.stats.get("blocks", 0)}
    if o.verdict == "violated":
        try:
            devs = native_move_targets()
        except Exception as ex:   # noqa
            devs = None
            o.detail += " (native driver: %s)" % str(ex)[-200:]
        if devs:
            o.stats["traces_validated"] = 1
            o.cex = dict(o.cex or {}, native=devs[:4])
            o.detail += "; replayed natively with the real move_target: %s" % devs[0]
        elif devs is not None:
            o.verdict = "inconclusive"
            o.detail += "; the real move_target maps the whole path menu as documented"
    rep.add(o)
    try:
        target_dir_obligations(rep, ctx)
    except Inconclusive as ex:
        o2 = Obligation("move target directory", "E2 mirsym/z3")
        o2.verdict, o2.detail = "inconclusive", str(ex)
        rep.add(o2)


def target_dir_obligations(rep, ctx):
    """`move DIR`: main() resolves DIR against the working directory of the move command (absolute DIR unchanged - Path::resolve),
    hands exactly that path to run_dedupe, and run_dedupe hands its operation on to the script builder unchanged"""
    binp = ctx.bin
    eng = oblig.engine(binp, unroll=1, inline=None, extra=dict(optsum.SUMMARIES))
    mn = binp.find(r"^main$")
    ps = eng.run(mn)

    def mprop(p):
        rd = [ev for ev in p.events if ev.kind == "call" and re.search(r"(^|::)run_dedupe$", ev.callee)]
        if not rd or not (isinstance(rd[0].args[0], mirsym.EnumV) and rd[0].args[0].variant == "Move"):
            return None
        st = mirsym.State()
        st.mem, st.pc = p.mem, list(p.pc)
        payload = summaries.canon(eng, st, rd[0].args[0])
        res = [ev for ev in p.events if ev.kind == "call" and re.search(r"Path::resolve$", ev.callee)]
        cwd = [ev for ev in p.events if ev.kind == "call" and re.search(r"(^|::)current_dir$", ev.callee)]
        if len(res) != 1 or len(cwd) != 1 or not isinstance(res[0].ret, Lazy) or res[0].ret.name not in payload:
            return z3.BoolVal(False)
        base, rel = summaries.canon(eng, st, res[0].args[0]), summaries.canon(eng, st, res[0].args[1])

        def derives(c, name, depth=5):
            for _ in range(depth):
                if name in c:
                    return True
                prod = [ev for ev in p.events if ev.kind == "call" and isinstance(ev.ret, Lazy) and ev.ret.name in c and ev.args]
                if not prod:
                    return False
                c = summaries.canon(eng, st, prod[0].args[0])
            return False
        ok = derives(base, cwd[0].ret.name) and derives(rel, "command@Move") and not derives(base, "command@Move")
        return z3.BoolVal(bool(ok))
    o = oblig.check_paths(eng, ps, "main(): `move DIR` resolves DIR against the current working directory and hands that path to run_dedupe",
                          mprop, oblig.fnames(eng), key="move:target-dir-resolution", allow=("return", "panic", "diverge", "bound"))
    rep.add(o)
    rdp = binp.find(r"(^|::)run_dedupe$")
    eng2 = oblig.engine(binp, unroll=0, inline=None, extra=dict(optsum.SUMMARIES))
    opv = Lazy("op", rdp.args[0][1])
    ps = eng2.run(rdp, args=[opv, Lazy("config", rdp.args[1][1]), Lazy("log", rdp.args[2][1])])

    def rprop(p):
        d = [ev for ev in p.events if ev.kind == "call" and re.search(r"(^|::)dedupe$", ev.callee)]
        if not d:
            return None
        st = mirsym.State()
        st.mem, st.pc = p.mem, list(p.pc)
        return z3.BoolVal(any(summaries.canon(eng2, st, a).strip("&*") == "op" for a in d[0].args))
    rep.add(oblig.check_paths(eng2, ps, "run_dedupe: the operation (with its target directory) reaches the script builder unchanged",
                              rprop, oblig.fnames(eng2), key="move:op-passthrough", allow=("return", "panic", "diverge", "bound")))
