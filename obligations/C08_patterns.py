"""C08: should_keep / may_drop (dedupe.rs) - which string each pattern list is asked about.

should_keep(path) = some --keep-name pattern matches the file name (lossy form, as everywhere else) or some --keep-path pattern
matches the path; may_drop(path) = no --name/--path pattern given, or some --name pattern matches the file name (lossy form) or some
--path pattern matches the path.  E2 with pattern lists of 0..2 elements (list model), pattern verdicts as free booleans tagged with
the provenance of the string they are asked about.  Replay: replay/batteries.py c08_battery (names that are not valid UTF-8)."""
import re

import z3

import listsum
import mirsym
import oblig
import optsum
import summaries
from common import Inconclusive, Obligation
from mirsym import Agg, Bool, Lazy, ListV, Ref
from summaries import deref_val


def provenance(e, st, v, depth=6):
    """callee names on the chain that produced the value"""
    names = []
    for _ in range(depth):
        if isinstance(v, Ref):
            try:
                v = deref_val(e, st, v)
            except Exception:   # noqa
                pass
        cn = summaries.canon(e, st, v)
        base = re.split(r"[@.*]", cn.lstrip("&"))[0]
        prod = [ev for ev in st.events if ev.kind == "call" and ev.ret is not None and summaries.canon(e, st, ev.ret) in (cn, base)]
        if not prod:
            break
        names.append(prod[0].callee)
        if not prod[0].args:
            break
        v = prod[0].args[0]
    return names


def s_verdict(e, st, callee, args, dty):
    who = deref_val(e, st, args[0])
    nm = getattr(who, "name", None)
    if nm is None:
        return NotImplemented
    pv = " ".join(provenance(e, st, args[1]))
    if callee.endswith("matches_path"):
        tag = "path" if re.search(r"to_path_buf", pv) else "other:" + pv[-40:]
    else:
        if re.search(r"to_string_lossy", pv) and re.search(r"file_name", pv):
            tag = "lossy-name"
        elif re.search(r"file_name", pv):
            tag = "strict-name"
        else:
            tag = "other:" + pv[-160:]
    return Bool(z3.Bool("%s|%s" % (nm, tag)))


def add(rep, prog):
    fi = prog.src.field_index
    ex = dict(optsum.SUMMARIES)
    ex.update(listsum.LIST)
    ex[r"Pattern::(matches|matches_path)$"] = s_verdict
    inl = oblig.module_inliner(prog, "dedupe.rs", r"^$")
    specs = [("should_keep", "keep_name_patterns", "keep_path_patterns", False,
              "should_keep: some --keep-name pattern matches the (lossy) file name or some --keep-path pattern matches the path"),
             ("may_drop", "name_patterns", "path_patterns", True,
              "may_drop: no --name/--path pattern is given, or one matches the (lossy) file name / the path")]
    for fname, nfield, pfield, empty_is_true, title in specs:
        f = prog.find(r"^(dedupe::)?%s$" % fname)
        o = Obligation(title, "E2 mirsym/z3 (list model)", [], "0..2 name patterns x 0..2 path patterns, pattern verdicts free")
        o.key = "patterns:%s" % fname
        verdict, detail, npaths, nq = "holds", "", 0, 0
        enc = {}
        for nn in (0, 1, 2):
            for np_ in (0, 1, 2):
                if verdict != "holds":
                    break
                eng = oblig.engine(prog, inline=inl, extra=ex, unroll=4)
                cfg = Agg("DedupeConfig", {fi("DedupeConfig", nfield): ListV(tuple(Lazy("N%d" % i, "pattern::Pattern") for i in range(nn)), "Vec"),
                                           fi("DedupeConfig", pfield): ListV(tuple(Lazy("P%d" % i, "pattern::Pattern") for i in range(np_)), "Vec")})
                ps = eng.run(f, args=[Lazy("path", f.args[0][1]), Ref("CFG", (), False)], mem={"CFG": cfg})
                enc.update(eng.encoded)
                for p in ps:
                    npaths += 1
                    if p.status in ("abort", "bound"):
                        verdict, detail = "inconclusive", "%d/%d patterns: path %s %s" % (nn, np_, p.status, p.note[:100])
                        break
                    if p.status != "return" or not isinstance(p.result, Bool):
                        if eng.check(*p.pc) == z3.sat:
                            verdict, detail = "violated", "%d/%d patterns: a feasible path ends with %s" % (nn, np_, p.status)
                            break
                        continue
                    # a file without a file name (the root) matches no name pattern: name verdicts only count when there is a name
                    names = [z3.Bool("N%d|lossy-name" % i) for i in range(nn)]
                    paths = [z3.Bool("P%d|path" % i) for i in range(np_)]
                    noname = [c for c in p.pc if "file_name" in str(c)]
                    has_name = z3.BoolVal(True)
                    for c in p.pc:
                        for v in z3.z3util.get_vars(c):
                            if "file_name" in str(v) and str(v).endswith("#d") and z3.is_bv(v):
                                has_name = v == 1      # Option discriminant of Path::file_name*(path): Some
                    want = z3.Or(z3.And(has_name, z3.Or(*names)) if names else z3.BoolVal(False), z3.Or(*paths) if paths else z3.BoolVal(False))
                    if empty_is_true and nn == 0 and np_ == 0:
                        want = z3.BoolVal(True)
                    nq += 1
                    if eng.check(*(list(p.pc) + [p.result.t != want])) != z3.unsat:
                        verdict = "violated"
                        used = sorted({str(d) for d in z3.z3util.get_vars(p.result.t)})
                        detail = "with %d name / %d path patterns the verdict is not the documented combination (verdicts used: %s)" % (nn, np_, used[:4])
                        o.cex = {"patterns": [nn, np_], "verdict_symbols": used[:6]}
                        break
        o.functions = sorted("%s#%s" % (k[-60:], v) for k, v in enc.items())
        o.queries = nq
        o.stats = {"paths": npaths, "states": npaths, "transitions": nq}
        if verdict == "holds" and npaths == 0:
            verdict, detail = "inconclusive", "vacuous"
        o.verdict, o.detail = verdict, detail
        rep.add(o)
