"""Shared obligations on FileSubGroup::group (hard-link / --isolate sub-grouping) and what is built on it:
FileGroup::{subgroup_count, redundant_count, missing_count, sort_by_path}.

The real FileSubGroup::group is executed symbolically for <= 3 files and <= 2 roots: `root.is_prefix_of(path)` is a free
predicate of (root, path), file ids are symbolic (inode, device) pairs, `group_by_id` is symbolic; the insertion-ordered
IndexMap is modelled by its documented contract (lib/mapsum.py).  Oracle: a declarative reference - every file gets the
sort key (0, index of the first root that is a prefix) or (1, index of the first earlier file outside all roots with the same
id, if ids are grouped); the result must list the files ordered by (key, input position) and cut into sub-groups exactly
where the key changes.  z3 decides validity per path."""
import re

import z3

import listsum
import mapsum
import mirsym
import oblig
import summaries
from common import Inconclusive, Obligation
from mirsym import Agg, Bool, EnumV, Int, Lazy, ListV, Ref

INF = 10 ** 6


def s_asref(e, st, callee, args, dty):
    tag = "id_of" if "FileId" in callee else ("path_of" if "Path" in callee else None)
    if tag is None:
        return NotImplemented
    return summaries.pure(tag)(e, st, callee, args, dty)


def extras():
    ex = dict(listsum.LIST)
    ex.update(mapsum.MAP)
    ex[r"^<.* as AsRef>::as_ref$"] = s_asref
    ex[r"Path::is_prefix_of$"] = summaries.pure("is_prefix_of")
    return ex


INLINE = lambda c, t: bool(re.search(r"FileSubGroup::(empty|single|push)$", c))


def P(i, j):
    return z3.Bool(mirsym.sanitize("is_prefix_of(r%d;path_of(f%d))" % (i, j)))


def ideq(j, k):
    a, b = "id_of(f%d)*" % j, "id_of(f%d)*" % k
    return z3.And(z3.BitVec(mirsym.sanitize(a + ".inode"), 64) == z3.BitVec(mirsym.sanitize(b + ".inode"), 64),
                  z3.BitVec(mirsym.sanitize(a + ".device"), 64) == z3.BitVec(mirsym.sanitize(b + ".device"), 64))


def ref_keys(nf, nr, by_id):
    """per file: (class 0|1, index) as z3 Int terms of the reference semantics"""
    keys = []
    outside = []
    for j in range(nf):
        ri = z3.IntVal(INF)
        for i in reversed(range(nr)):
            ri = z3.If(P(i, j), z3.IntVal(i), ri)
        out = ri == INF
        outside.append(out)
        first = z3.IntVal(j)
        for k in reversed(range(j)):
            first = z3.If(z3.And(outside[k], by_id, ideq(j, k)), keys[k][2], first)
        cls = z3.If(out, z3.IntVal(1), z3.IntVal(0))
        idx = z3.If(out, first, ri)
        keys.append((cls, idx, first))
    return [(c, i) for c, i, _ in keys]


def lt(a, b):
    return z3.Or(a[0] < b[0], z3.And(a[0] == b[0], a[1] < b[1]))


def eqk(a, b):
    return z3.And(a[0] == b[0], a[1] == b[1])


def file_index(v):
    v2 = v
    name = getattr(v2, "name", None) or getattr(v2, "base", None)
    if name and re.match(r"f\d+$", name):
        return int(name[1:])
    return None


def partition_of(e, st_mem, result):
    """[[file index]] of a Vec<FileSubGroup<F>> value, or None"""
    if not isinstance(result, ListV):
        return None
    out = []
    for sg in result.items:
        if not isinstance(sg, Agg):
            return None
        fl = sg.fields.get(0)
        if not isinstance(fl, ListV):
            return None
        grp = []
        for f in fl.items:
            if isinstance(f, Ref):
                try:
                    st = mirsym.State()
                    st.mem = st_mem
                    f = e.load(st, f.cell, f.path)
                except Inconclusive:
                    return None
            k = file_index(f)
            if k is None:
                return None
            grp.append(k)
        out.append(grp)
    return out


def matches_reference(part, nf, nr, by_id):
    """z3 Bool: `part` is the reference partition"""
    flat = [j for g in part for j in g]
    if sorted(flat) != list(range(nf)) or any(not g for g in part):
        return z3.BoolVal(False)
    keys = ref_keys(nf, nr, by_id)
    gi = {}
    for n, g in enumerate(part):
        for j in g:
            gi[j] = n
    conj = []
    for a, b in zip(flat, flat[1:]):
        ka, kb = keys[a], keys[b]
        if gi[a] == gi[b]:
            conj.append(z3.And(eqk(ka, kb), z3.BoolVal(a < b)))
        else:
            conj.append(lt(ka, kb))
    return z3.And(*conj) if conj else z3.BoolVal(True)


def run_group(prog, nf, nr, by_ref=False):
    f = prog.method("FileSubGroup", "group")
    eng = oblig.engine(prog, unroll=nf + 1, extra=extras(), inline=INLINE)
    files = ListV([Lazy("f%d" % j, "F") for j in range(nf)])
    roots = ListV([Lazy("r%d" % i, "path::Path") for i in range(nr)])
    mem = {"rootscell": roots, "filescell": files}
    by_id = z3.Bool("by_id")
    a0 = Ref("filescell", (), False) if by_ref else files
    ps = eng.run(f, args=[a0, Ref("rootscell", (), False), Bool(by_id)], mem=mem)
    return eng, ps, by_id


def group_obligations(rep, prog, engs, fn, tier="quick"):
    """FileSubGroup::group against the declarative reference"""
    sizes = [(1, 0), (2, 0), (3, 0), (2, 1), (3, 1), (2, 2), (3, 2)]
    if tier == "thorough":
        sizes += [(4, 0), (4, 1), (4, 2), (3, 3)]
    total_paths = 0
    o_all = None
    for nf, nr in sizes:
        eng, ps, by_id = run_group(prog, nf, nr)
        engs.append(eng)
        total_paths += len(ps)

        def prop(p, nf=nf, nr=nr, eng=eng, by_id=by_id):
            part = partition_of(eng, p.mem, p.result)
            if part is None:
                return z3.BoolVal(False)
            return matches_reference(part, nf, nr, by_id)
        o = oblig.check_paths(eng, ps, "FileSubGroup::group (%d files, %d roots): files under one root form one sub-group in root order; other files are grouped by id (if requested) in order of first appearance, else alone; input order inside a sub-group" % (nf, nr),
                              prop, fn(), bounds="%d files, %d roots, group_by_id symbolic" % (nf, nr), key="subgroup:group")
        if o.verdict != "holds":
            return o
        if o_all is None:
            o_all = o
        else:
            o_all.queries += o.queries
            o_all.solver_s += o.solver_s
    o_all.name = "FileSubGroup::group: files under one root form one sub-group, in root order; other files are grouped by id (if requested) in order of first appearance, else alone; input order inside a sub-group"
    o_all.bounds = "<= 3 files x <= 2 roots (thorough: 4 x 3), group_by_id symbolic, is_prefix_of a free predicate, ids symbolic"
    o_all.stats = {"paths": total_paths, "states": total_paths, "transitions": total_paths}
    o_all.witness = "%d paths over %d size configurations" % (total_paths, len(sizes))
    return o_all


# ------------------------------------------------------------------ FileGroup methods built on the sub-grouping

def group_value(nf):
    return Agg("FileGroup", {0: Lazy("glen", "file::FileLen"), 1: Lazy("ghash", "file::FileHash"),
                             2: ListV([Lazy("f%d" % j, "F") for j in range(nf)], "Vec")})


def filter_value(nr, repl):
    return Agg("FileGroupFilter", {0: repl, 1: ListV([Lazy("r%d" % i, "path::Path") for i in range(nr)], "Vec"), 2: Bool(z3.Bool("by_id"))})


def leaders_and_rank(nf, nr, by_id):
    keys = ref_keys(nf, nr, by_id)
    leader = []
    for a in range(nf):
        leader.append(z3.And(*[z3.Not(eqk(keys[b], keys[a])) for b in range(a)]) if a else z3.BoolVal(True))
    one = lambda c: z3.If(c, z3.IntVal(1), z3.IntVal(0))
    N = z3.Sum([one(l) for l in leader]) if leader else z3.IntVal(0)
    rank = [z3.Sum([one(z3.And(leader[a], lt(keys[a], keys[j]))) for a in range(nf)]) for j in range(nf)]
    return N, rank


def method_engine(prog, nf):
    inl = lambda c, t: bool(re.search(r"FileSubGroup::(empty|single|push|group)$|FileGroup::(file_count|subgroup_count)$", c))
    return oblig.engine(prog, unroll=nf + 1, extra=extras(), inline=inl)


def count_obligations(prog, engs, fn, tier="quick"):
    """redundant_count / missing_count / subgroup-based filters composed with the real sub-grouping"""
    out = []
    sizes = [(2, 0), (3, 0), (2, 1), (3, 1), (3, 2)] + ([(4, 2), (3, 3)] if tier == "thorough" else [])
    rf = z3.BitVec("rf", 64)
    rfi = z3.BV2Int(rf)
    for meth, variants in (("redundant_count", ("Overreplicated", "Underreplicated")), ("missing_count", ("Overreplicated", "Underreplicated")),
                           ("matches_strictly", ("Overreplicated", "Underreplicated")), ("matches", ("Overreplicated", "Underreplicated"))):
        agg = None
        for nf, nr in sizes:
            for var in variants:
                vidx = prog.src.variant_index("Replication", var)
                if vidx is None:
                    raise Inconclusive("Replication::%s not found in the sources" % var)
                eng = method_engine(prog, nf)
                engs.append(eng)
                f = prog.method("FileGroup", meth)
                repl = EnumV("Replication", var, vidx, {0: Int(rf, "usize")})
                mem = {"gcell": group_value(nf), "fcell": filter_value(nr, repl)}
                ps = eng.run(f, args=[Ref("gcell", (), False), Ref("fcell", (), False)], mem=mem, pre=[z3.ULT(rf, 1000)])
                by_id = z3.Bool("by_id")
                N, rank = leaders_and_rank(nf, nr, by_id)

                def prop(p, meth=meth, var=var, nf=nf, nr=nr, N=N, rank=rank):
                    if p.status == "panic":
                        return z3.BoolVal(False)
                    r = p.result
                    one = lambda c: z3.If(c, z3.IntVal(1), z3.IntVal(0))
                    if meth == "redundant_count":
                        if not isinstance(r, Int):
                            return z3.BoolVal(False)
                        got = z3.BV2Int(r.t)
                        if var == "Underreplicated":
                            return got == 0
                        rfm = z3.If(rfi > 1, rfi, z3.IntVal(1))
                        if nr == 0:
                            want = z3.If(nf - rfm > 0, nf - rfm, z3.IntVal(0))
                        else:
                            cut = z3.If(rfm < N, rfm, N)
                            want = z3.Sum([one(rank[j] >= cut) for j in range(nf)])
                        return got == want
                    if meth == "missing_count":
                        if not isinstance(r, Int):
                            return z3.BoolVal(False)
                        got = z3.BV2Int(r.t)
                        if var == "Overreplicated":
                            return got == 0
                        return got == z3.If(rfi - N > 0, rfi - N, z3.IntVal(0))
                    if not isinstance(r, Bool):
                        return z3.BoolVal(False)
                    if meth == "matches_strictly":
                        return r.t == (N > rfi if var == "Overreplicated" else N < rfi)
                    return r.t == (N > rfi if var == "Overreplicated" else z3.BoolVal(True))
                o = oblig.check_paths(eng, ps, "%s" % meth, prop, fn(), key="subgroup:%s" % meth, allow=("return", "panic", "diverge"))
                if o.verdict != "holds":
                    o.name = "FileGroup::%s (%s, %d files, %d roots) agrees with the documented definition over the real sub-grouping" % (meth, var, nf, nr)
                    o.cex = dict(o.cex or {}, method=meth, variant=var, files=nf, roots=nr)
                    out.append(o)
                    agg = None
                    break
                if agg is None:
                    agg = o
                else:
                    agg.queries += o.queries
                    agg.solver_s += o.solver_s
                    agg.stats["paths"] = agg.stats.get("paths", 0) + o.stats.get("paths", 0)
            else:
                continue
            break
        if agg is not None:
            desc = {"redundant_count": "= files in the sub-groups after the first max(rf,1) (all files minus max(rf,1) without roots); 0 for under-replication searches",
                    "missing_count": "= max(0, rf - number of sub-groups) for under-replication searches, else 0",
                    "matches_strictly": "= sub-groups > rf (over-replication) resp. < rf (under-replication)",
                    "matches": "= sub-groups > rf for over-replication searches, always true otherwise"}[meth]
            agg.name = "FileGroup::%s %s, with the sub-groups computed by the real FileSubGroup::group" % (meth, desc)
            agg.bounds = "<= 3 files x <= 2 roots (thorough: 4 x 2, 3 x 3), rf < 1000, group_by_id symbolic"
            agg.stats["states"] = agg.stats.get("paths", 1)
            out.append(agg)
    return out


def sort_obligation(prog, engs, fn):
    """FileGroup::sort_by_path: ascending path order, then (with isolate roots) flattened root sub-groups"""
    f = prog.method("FileGroup", "sort_by_path")
    nf, nr = 3, 2
    ex = extras()
    ex[r"slice::(<impl \[.*\]>::)?sort_by$"] = lambda e, st, c, a, d: _rec_sort(e, st, c, a, d)
    inl = lambda c, t: bool(re.search(r"FileSubGroup::(empty|single|push|group)$", c))
    res = []
    for nroots in (0, nr):
        eng = oblig.engine(prog, unroll=nf + 1, extra=ex, inline=inl)
        engs.append(eng)
        mem = {"gcell": group_value(nf), "rootscell": ListV([Lazy("r%d" % i, "path::Path") for i in range(nroots)])}
        ps = eng.run(f, args=[Ref("gcell", (), True), Ref("rootscell", (), False)], mem=mem)

        def prop(p, nroots=nroots, eng=eng):
            if p.status != "return":
                return z3.BoolVal(False)
            srt = [e_ for e_ in p.events if e_.kind == "call" and e_.callee == "sorted-by"]
            if len(srt) != 1:
                return z3.BoolVal(False)
            # comparator: Path::cmp(path_of(a), path_of(b)) for the closure arguments (a, b) in this order
            clo = srt[0].args[0]
            ok_cmp = _cmp_is_ascending(prog, eng, p, clo)
            g = p.mem.get("gcell")
            files = g.fields.get(2) if isinstance(g, Agg) else None
            if not isinstance(files, ListV):
                return z3.BoolVal(False)
            flat = [file_index(x) for x in files.items]
            if None in flat:
                return z3.BoolVal(False)
            if nroots == 0:
                return z3.And(z3.BoolVal(ok_cmp), z3.BoolVal(flat == list(range(nf))))
            keys = ref_keys(nf, nroots, z3.BoolVal(True))
            conj = [z3.BoolVal(ok_cmp), z3.BoolVal(sorted(flat) == list(range(nf)))]
            for a, b in zip(flat, flat[1:]):
                conj.append(z3.Or(lt(keys[a], keys[b]), z3.And(eqk(keys[a], keys[b]), z3.BoolVal(a < b))))
            return z3.And(*conj)
        o = oblig.check_paths(eng, ps, "sort_by_path", prop, fn(), key="subgroup:sort_by_path", allow=("return", "panic", "diverge"))
        res.append(o)
    bad = [o for o in res if o.verdict != "holds"]
    o = bad[0] if bad else res[0]
    if not bad:
        o.queries = sum(x.queries for x in res)
    o.name = "FileGroup::sort_by_path: files sorted by ascending path; with isolate roots the files of one root stay together, roots in the given order, path order inside"
    o.bounds = "3 files, 0 or 2 roots; slice::sort_by trusted (stable, by the comparator checked here)"
    return o


def _rec_sort(e, st, callee, args, dty):
    st.events.append(mirsym.Event("call", "sorted-by", (args[1],), None, len(st.pc), e.site(st)))
    from mirsym import Unit
    return Unit()


def _cmp_is_ascending(prog, eng, p, clo):
    clo = oblig.closure_value(clo)
    if clo is None:
        return False
    ex = extras()
    ex[r"<(path::)?Path as (std::cmp::)?Ord>::cmp$|Path::cmp$"] = summaries.pure("path_cmp")
    sub, qs = oblig.run_closure(prog, clo, p, extra_args=[Lazy("a", "&F"), Lazy("b", "&F")], eng=eng, extra=ex)
    ok = bool(qs)
    for q in qs:
        c = [e_ for e_ in q.events if e_.kind == "call" and e_.info and e_.info.get("pure") == "path_cmp"]
        if q.status != "return" or len(c) != 1:
            return False
        a0, a1 = c[0].info.get("args") if "args" in (c[0].info or {}) else (None, None), None
        names = [eng.canon(mirsym.State(), x) if not isinstance(x, Ref) else None for x in c[0].args]
        txt = repr(c[0].ret)
        # result must be the comparison of (path of a) with (path of b), in this order
        if not (isinstance(q.result, Lazy) and q.result.name == getattr(c[0].ret, "name", None)):
            return False
        m = re.search(r"path_cmp\((.*);(.*)\)", q.result.name.replace("_", "("), re.S)
        nm = q.result.name
        ia, ib = nm.find("path_of_a"), nm.find("path_of_b")
        if ia < 0 or ib < 0 or ia > ib:
            ok = False
    return ok
