"""C11 - the dry-run script is exactly what a real run does (claimed in part).

E2: for each FsCommand variant the shell lines of to_shell_str (verb + quoted arguments, temp name as a function of the
path) are compared with the sequence of file-system wrapper calls of execute; space_to_reclaim equals the value execute
returns; dedupe() yields one (index, commands) item per group so that the printer's order restoration terminates; the
printer counts every command once.  Quoting itself is C17; which consumer gets the script is C07 (dry-run branch)."""
import re

import z3

import mirsym
import oblig
import summaries
from common import Inconclusive, Obligation, Report
from mirsym import Agg, Bool, EnumV, Int, Lazy, ListV, Ref, Str

VARIANTS = ["Remove", "SoftLink", "HardLink", "Move"]


def called(p, pattern):
    return [e for e in p.events if e.kind == "call" and re.search(pattern, e.callee)]


_res = {}


def _resolves(prog):
    if "v" not in _res:
        from obligations import C05_e2
        _res["v"] = C05_e2.hardlink_resolves(prog)
    return _res["v"]


def _st(p):
    st = mirsym.State()
    st.mem = p.mem
    st.pc = list(p.pc)
    return st


def template_format(e, st, callee, args, dty):
    """format!(..) -> a lazy string named after its template: literal pieces + canonical arguments"""
    import strsum
    fa = summaries.deref_val(e, st, args[0])
    if not (isinstance(fa, Agg) and fa.ty == "fmtargs"):
        return NotImplemented
    pieces = summaries.deref_val(e, st, fa.fields[0])
    arr = summaries.deref_val(e, st, fa.fields[1])
    if not isinstance(pieces, Str):
        return NotImplemented
    pb = [strsum.isconst(b) for b in pieces.items]
    if pieces.kind == "str":
        return Lazy("T:" + bytes(pb).decode(errors="replace"), "String")
    argv = [arr.fields[i] for i in sorted(arr.fields)] if isinstance(arr, Agg) else []
    out, i, nexta = "", 0, 0
    while i < len(pb):
        b = pb[i]
        if b == 0:
            break
        if b < 0x80:
            out += bytes(pb[i + 1:i + 1 + b]).decode(errors="replace")
            i += 1 + b
        elif b == 0xC0:
            a = argv[nexta]
            nexta += 1
            inner = a.fields[0] if isinstance(a, Agg) and a.ty == "fmtarg" else a
            out += "{" + summaries.canon(e, st, inner) + "}"
            i += 1
        else:
            return NotImplemented
    return Lazy("T:" + out, "String")


def make_cmd(prog, variant, use_rename=None):
    fi = prog.src.variant_index("FsCommand", variant)
    pm = lambda n: Lazy(n, "dedupe::PathAndMetadata")
    if variant == "Remove":
        return EnumV("FsCommand", variant, fi, {0: pm("L")})
    if variant == "Move":
        return EnumV("FsCommand", variant, fi, {0: pm("L"), 1: Lazy("D", "path::Path"), 2: Bool(z3.BoolVal(use_rename))})
    return EnumV("FsCommand", variant, fi, {0: Agg("Arc", {0: pm("K")}), 1: pm("L")})


def run():
    rep = Report(
        "C11", "other",
        "Bounded symbolic execution (mirsym/z3) of FsCommand::to_shell_str and FsCommand::execute (+ safe_remove, move_rename, "
        "move_copy) for Remove, SoftLink, HardLink and Move{rename, copy}: the printed lines are reconstructed from the format! "
        "templates (verb, quoted paths, temp name as a function of the path) and compared with the sequence of file-system "
        "wrapper calls on the success path; space_to_reclaim is compared with execute's Ok value; dedupe()'s item stream and "
        "log_script's counting are checked as wiring facts.",
        assumptions=["quoting is lossless (C17)", "FsCommand::temp_file is treated as a function of the path (the script shows another random name than a real run uses)",
                     "RefLink: the printed `cp --reflink` is documented as an approximation on Linux"],
        outside=["the priority_queue crate itself (replaced by a reference model) and the producer thread of log_script", "bash itself", "RefLink variant"])
    ctx = oblig.Ctx()
    prog = ctx.lib
    oblig.install_battery(rep, ctx, ["c11_battery"])
    FC = lambda n: prog.method("FsCommand", n)
    extra = {
        r"Path::quote$": summaries.pure("q"),
        r"FsCommand::temp_file$": summaries.pure("tmp"),
        r"FsCommand::maybe_lock$": lambda e, st, c, a, d: EnumV("Result", "Ok", 0, {0: EnumV("Option", "None", 0, {})}),
        r"^(core::fmt::rt::)?Argument::new_(display|debug)$": lambda e, st, c, a, d: Agg("fmtarg", {0: a[0]}),
        r"^(std::fmt::|core::fmt::)?Arguments::(new|new_const|from_str)$": lambda e, st, c, a, d: Agg("fmtargs", {0: a[0], 1: a[1] if len(a) > 1 else Agg("array", {})}),
        r"^(std::fmt::|alloc::fmt::)?format$": template_format,
        r"<.* as (std::ops::)?Deref>::deref$": lambda e, st, c, a, d: NotImplemented,
    }
    import listsum
    extra.update({k: v for k, v in listsum.LIST.items() if "Vec::new" in k})
    INL = r"dedupe::<impl[^>]*>::(safe_remove|move_rename|move_copy)$|safe_remove::|dedupe::<impl[^>]*>::execute::\{closure"
    bad, seen = [], 0
    engs = []
    for variant, ur in (("Remove", None), ("SoftLink", None), ("HardLink", None), ("Move", True), ("Move", False)):
        cmd = make_cmd(prog, variant, ur)
        # ---- script lines
        e1 = oblig.engine(prog, unroll=2, extra=extra)
        engs.append(e1)
        mem = {"cmd": cmd}
        ps = [p for p in e1.run(FC("to_shell_str"), args=[Ref("cmd", (), False)], mem=mem) if p.status == "return"]
        if len(ps) != 1 or not isinstance(ps[0].result, ListV):
            raise Inconclusive("to_shell_str(%s): %d paths" % (variant, len(ps)))
        lines = [x.name[2:] if isinstance(x, Lazy) and x.name.startswith("T:") else repr(x) for x in ps[0].result.items]
        # ---- real run: wrapper calls on the all-success path
        e2 = oblig.engine(prog, unroll=2, inline=INL + r"|file::<impl[^>]*>::len$", extra=dict(extra, **{
            r"Metadata::len$": summaries.pure("len"),
            r"FsCommand::(unsafe_rename|remove|hardlink|symlink|unsafe_copy|mkdirs|check_can_rename)$": _fs_ok,
            r"Path::parent$": summaries.pure("parent"),
            r"Option::unwrap$": lambda e, st, c, a, d: NotImplemented,
        }))
        engs.append(e2)
        mem = {"cmd": cmd}
        rps = e2.run(FC("execute"), args=[Ref("cmd", (), False), Bool(z3.BoolVal(False)), None], mem=mem)
        okp = [p for p in rps if p.status == "return" and isinstance(p.result, EnumV) and p.result.variant == "Ok"]
        if not okp:
            raise Inconclusive("execute(%s): no successful path (%s)" % (variant, [(p.status, p.note[:60]) for p in rps][:3]))
        # several success paths exist for Move{use_rename} (rename ok / fallback to copy): take the one without fallback
        okp.sort(key=lambda p: len(p.events))
        p = okp[0]
        ops = []
        st = _st(p)
        for ev in p.events:
            if ev.kind == "call" and ev.callee.startswith("FS:"):
                ops.append((ev.callee[3:], [q(a) for a in ev.info["args"]]))
        expected = []
        for op, a in ops:
            if op == "unsafe_rename":
                expected.append("mv {%s} {%s}" % (a[0], a[1]))
            elif op == "remove":
                expected.append("rm {%s}" % a[0])
            elif op == "symlink":
                expected.append("ln -s {%s} {%s}" % (a[0], a[1]))
            elif op == "hardlink":
                # fs::hard_link does not follow a symlink given as the source, like `ln` (GNU default -P); a wrapper that resolves
                # the source first corresponds to `ln -L`
                expected.append(("ln -L {%s} {%s}" if _resolves(prog) else "ln {%s} {%s}") % (a[0], a[1]))
            elif op == "unsafe_copy":
                expected.append("cp {%s} {%s}" % (a[0], a[1]))
        seen += 1
        name = variant + ("" if ur is None else ("(rename)" if ur else "(copy)"))
        if lines != expected:
            bad.append({"command": name, "script": lines, "real_run": expected})
        # ---- bytes reclaimed
        e3 = oblig.engine(prog, unroll=0, inline=r"file::<impl[^>]*>::len$", extra={r"Metadata::len$": summaries.pure("len")})
        engs.append(e3)
        mem = {"cmd": cmd}
        sp = [x for x in e3.run(FC("space_to_reclaim"), args=[Ref("cmd", (), False)], mem=mem) if x.status == "return"]
        rv = p.result.fields.get(0)
        ok_val = summaries.canon(e2, st, rv)
        sp_vals = {summaries.canon(e3, _st(x), x.result) for x in sp}
        if len(sp) != 1 or not (len(sp_vals) == 1 and _same_len(list(sp_vals)[0], ok_val)):
            bad.append({"command": name, "space_to_reclaim": sorted(sp_vals), "execute_returns": ok_val, "paths": len(sp)})
    o = Obligation("each command prints exactly the operations it performs (verbs, paths, order) and reports the bytes it reclaims",
                   "E2 mirsym/z3", sorted({x for e in engs for x in oblig.fnames(e)}), "Remove, SoftLink, HardLink, Move(rename), Move(copy); success path")
    o.key = "script-vs-execute"
    o.queries = sum(e.queries for e in engs)
    o.stats = {"paths": seen, "states": seen, "transitions": seen}
    if bad:
        o.verdict = "violated"
        o.cex = {"cases": bad[:4], "native_replay": None}
        o.detail = str(bad[0])[:300]
        pass
    else:
        o.verdict = "holds"
        o.witness = "%d command shapes compared" % seen
    rep.add(o)

    # ---- dedupe(): one item per group index
    try:
        eng = oblig.engine(prog, unroll=0)
        dd = prog.find(r"^(dedupe::)?dedupe$")
        ps = eng.run(dd)

        def prop(p):
            if p.status != "return":
                return None
            chain = [e.callee for e in p.events if e.kind == "call"]
            has_enum = any(re.search(r"::enumerate$", c) for c in chain)
            has_map = any(re.search(r"::map$", c) for c in chain)
            filt = any(re.search(r"::(filter|filter_map|skip_while|take_while|flat_map|flatten)$", c) for c in chain)
            return z3.BoolVal(has_enum and has_map and not filt)
        o2 = oblig.check_paths(eng, ps, "dedupe(): every group yields one (index, commands) item - consecutive indices for the printer", prop,
                               oblig.fnames(eng), key="dedupe:one-item-per-group")
        # the map closure returns (i, commands) on every path
        clos = [c for c in prog.closures_of(dd) if "usize" in c.ret and "Vec" in c.ret]
        if len(clos) == 1:
            e4 = oblig.engine(prog, unroll=1)
            cps = e4.run(clos[0])
            allret = all(x.status in ("return", "panic", "diverge", "bound") for x in cps) and any(x.status == "return" for x in cps)
            if not allret:
                o2.verdict, o2.detail = "inconclusive", "map closure of dedupe() not fully explored"
        if o2.verdict == "violated":
            pass
        rep.add(o2)
    except Inconclusive as ex:
        o = Obligation("dedupe item stream", "E2 mirsym/z3")
        o.verdict, o.detail = "inconclusive", str(ex)
        rep.add(o)
    from obligations import C11_log
    C11_log.add(rep, prog)
    # "for arbitrary file names": the script's paths are printed with Path::quote - the quote/split/bash obligations of C17 are part
    # of this claim (C17's run is merged into this report, as in C10)
    try:
        from obligations import C17
        rep17 = C17.run()
        for o in rep17.obls:
            o.name = "paths in the script: " + o.name
            rep.obls.append(o)
    except Inconclusive as ex:
        o = Obligation("paths in the script: quote/split", "E2 mirsym/z3")
        o.verdict, o.detail = "inconclusive", str(ex)
        rep.add(o)
    return rep


def q(c):
    """canonical text of a path argument of a wrapper call -> the text to_shell_str would quote"""
    c = re.sub(r"\.path$", ".path", c)
    return "q_%s_" % c if not c.startswith("q_") else c


def _same_len(a, b):
    norm = lambda s: re.sub(r"[^A-Za-z0-9.]", "", s)
    return norm(a) == norm(b)


def _fs_ok(e, st, callee, args, dty):
    name = mirsym.strip_generics(callee).split("::")[-1]
    st.events.append(mirsym.Event("call", "FS:" + name, tuple(args), None, len(st.pc), e.site(st), {"args": [e.canon(st, a) for a in args]}))
    return EnumV("Result", "Ok", 0, {0: mirsym.Unit()})


def replay(o, ctx):
    """native: dry-run script vs. real run on the same tree (hard links, keep patterns producing empty groups)"""
    import json, os, shutil, subprocess, tempfile
    import native
    try:
        binary = native.build_binary(ctx.src)
    except Inconclusive as e:
        o.verdict, o.detail = "inconclusive", "replay build failed: %s" % e
        return
    d = tempfile.mkdtemp(prefix="c11replay.")
    try:
        def mk(root):
            os.makedirs(root)
            for g, c in (("g1", b"1" * 100), ("g2", b"2" * 200), ("g3", b"3" * 300)):
                for n in ("a", "b", "c"):
                    open(os.path.join(root, "%s_%s.bin" % (g, n)), "wb").write(c)
            os.link(os.path.join(root, "g3_c.bin"), os.path.join(root, "g3_c_link.bin"))
        devs = []
        env = dict(os.environ, HOME=d, XDG_CACHE_HOME=os.path.join(d, "cache"))
        for op, extra in ((["remove"], []), (["link"], []), (["link", "--soft"], []), (["remove"], ["--keep-name", "g2_*"]), (["remove"], ["--match-links"])):
            r1, r2 = os.path.join(d, "t1"), os.path.join(d, "t2")
            shutil.rmtree(r1, ignore_errors=True); shutil.rmtree(r2, ignore_errors=True)
            mk(r1)
            rep = os.path.join(d, "rep.txt")
            with open(rep, "wb") as f:
                subprocess.run([binary, "group", "--match-links", r1] if "--match-links" in extra else [binary, "group", r1], stdout=f, stderr=subprocess.PIPE, env=env, timeout=60)
            ex = [x for x in extra if x != "--match-links"]
            with open(rep, "rb") as f:
                dr = subprocess.run([binary] + op + ex + ["--dry-run"], stdin=f, stdout=subprocess.PIPE, stderr=subprocess.PIPE, env=env, timeout=60)
            with open(rep, "rb") as f:
                rr = subprocess.run([binary] + op + ex, stdin=f, stdout=subprocess.PIPE, stderr=subprocess.PIPE, env=env, timeout=60)
            m1 = re.search(rb"Would process (\d+) files and reclaim (?:up to )?([^\n]*) space", dr.stderr)
            m2 = re.search(rb"Processed (\d+) files and reclaimed (?:up to )?([^\n]*) space", rr.stderr)
            s1 = (m1.group(1), m1.group(2)) if m1 else None
            s2 = (m2.group(1), m2.group(2)) if m2 else None
            nlines = len([l for l in dr.stdout.splitlines() if l.startswith((b"rm ", b"mv ", b"ln "))])
            if s1 != s2:
                devs.append({"cmd": " ".join(op + ex), "dry_run_summary": [x.decode() for x in s1] if s1 else None, "real_run_summary": [x.decode() for x in s2] if s2 else None})
        o.cex["native_replay"] = devs[:3]
        if devs:
            o.stats["traces_validated"] = 1
            o.detail += "; replayed natively: %s" % json.dumps(devs[0])[:260]
        else:
            o.verdict, o.detail = "inconclusive", "counterexample did not reproduce through the CLI"
    finally:
        shutil.rmtree(d, ignore_errors=True)
