"""C10, reader side beyond the line codec: how many lines a group takes from the stream, and which reader a report gets.

 * read_paths(count): the loop that reads the path lines of a group runs `count` times, `count` being the number written in the
   group header - for every count, not only the small ones the line-codec obligations run with.  E2: read_paths is executed with a
   symbolic `count`; the `Range` it iterates over is captured and z3 decides start == 0 and end == count for all 2^64 values.  A
   counterexample is a concrete count; it is replayed by writing a group with that many files and reading the report back.
 * open_report: the format is chosen by the first byte of the stream alone ('{' JSON, '#' text, anything else is refused),
   whatever follows in the look-ahead buffer - in particular a buffer that ends inside a multi-byte character (the BufReader hands
   out 16 KiB, reports with non-ASCII names are cut anywhere).  E2: fill_buf returns a buffer of 1..5 symbolic bytes, the UTF-8
   decoder model of strsum covers from_utf8 / from_utf8_lossy; obligation for every byte vector: reader kind == kind(first byte).
Replay: replay/batteries.py c10_battery (large groups; reports whose byte 16384 falls inside a character)."""
import re

import z3

import mirsym
import oblig
import optsum
import strsum
import summaries
from common import Inconclusive, Obligation
from mirsym import Agg, Bool, EnumV, Int, Lazy, ListV, Ref, Str, Unit


def called(p, pat):
    return [ev for ev in p.events if ev.kind == "call" and re.search(pat, ev.callee)]


def count_obligation(rep, ctx):
    prog = ctx.lib
    f = prog.method("TextReportIterator", "read_paths")
    cnt = z3.BitVec("count", 64)
    captured = []

    def s_into(e, st, callee, args, dty):
        v = summaries.deref_val(e, st, args[0])
        if isinstance(v, Agg) and isinstance(v.fields.get(0), Int) and isinstance(v.fields.get(1), Int):
            captured.append((list(st.pc), v.fields[0].t, v.fields[1].t))
        return args[0]
    extra = dict(strsum.STR)
    extra[r"^<(std::ops::)?Range<usize> as (std::iter::)?IntoIterator>::into_iter$"] = s_into
    extra[r"^(std::vec::)?Vec::with_capacity$"] = lambda e, st, c, a, d: ListV((), "Vec")
    eng = oblig.engine(prog, unroll=1, inline=None, extra=extra)
    mem = {"it": Agg("TextReportIterator", {}, base="it0")}
    ps = eng.run(f, args=[Ref("it", (), True), Int(cnt, "usize")], mem=mem)
    o = Obligation("TextReportIterator::read_paths(count): the path lines of a group are read `count` times - the loop bound is the number in the group header, for every count",
                   "E2 mirsym/z3 (symbolic count, 64-bit)", oblig.fnames(eng), "every 64-bit count; one unrolling of the loop body")
    o.key = "read_paths:loop-bound"
    s = z3.Solver()
    bad = None
    for pc, a, b in captured:
        o.queries += 1
        s.push()
        s.add(*pc)
        s.add(z3.Or(a != 0, b != cnt))
        # prefer a count a replay can build
        s.push()
        s.add(z3.ULT(cnt, 5000))
        r = s.check()
        if r != z3.sat:
            s.pop()
            r = s.check()
        if r == z3.sat:
            m = s.model()
            bad = {"count": m.eval(cnt, model_completion=True).as_long(), "range_start": str(z3.simplify(a)), "range_end": str(z3.simplify(b))[:200]}
        if z3.ULT(cnt, 5000) in s.assertions():
            s.pop()
        s.pop()
        if bad:
            break
    o.stats = {"paths": len(ps), "ranges": len(captured), "states": len(ps), "transitions": len(captured)}
    if not captured:
        o.verdict, o.detail = "inconclusive", "no `0..count` range found in read_paths (%s)" % [(p.status, p.note[:60]) for p in ps][:3]
    elif bad:
        o.verdict = "violated"
        o.cex = bad
        o.detail = "for count = %d the loop runs over %s..%s" % (bad["count"], bad["range_start"], bad["range_end"])
    else:
        o.verdict = "holds"
        o.witness = "%d range(s), start == 0 and end == count valid" % len(captured)
    rep.add(o)


def autodetect_obligation(rep, ctx, maxlen=4):
    prog = ctx.lib
    f = prog.find(r"^(report::)?open_report$")
    res = {"paths": 0, "queries": 0}
    bad, inconc = None, None
    encoded = {}
    for n in range(1, maxlen + 1):
        bs = [z3.BitVec("b%d_%d" % (n, i), 8) for i in range(n)]

        def s_fill(e, st, callee, args, dty, bs=bs):
            return EnumV("Result", "Ok", 0, {0: Str(tuple(bs), "bytes")})

        def s_reader(kind):
            def s(e, st, callee, args, dty):
                st.events.append(mirsym.Event("call", "READER:" + kind, (), None, len(st.pc), e.site(st)))
                if kind == "json":
                    return NotImplemented
                return Lazy("text_reader", "TextReportReader")
            return s
        extra = dict(optsum.SUMMARIES)
        extra.update(strsum.STR)
        extra.update({
            r"BufRead>::fill_buf$": s_fill,
            r"BufReader(::<.*>)?::with_capacity$": lambda e, st, c, a, d: Lazy("bufreader", "BufReader"),
            r"^(std::string::)?String::from_utf8_lossy$": strsum.s_to_string_lossy,
            r"JsonReportReader::new$": s_reader("json"),
            r"TextReportReader(::<.*>)?::new$": s_reader("text"),
            r"^<(std::borrow::)?Cow<'_, str> as (std::ops::)?Deref>::deref$": strsum.s_str_ref_identity,
            # Result<&str, _>::unwrap_or_default: the empty string on Err
            r"^(std::result::|core::result::)?Result::unwrap_or_default$":
                lambda e, st, c, a, d: [(cnd, pl if ok else Str((), "str")) for cnd, ok, pl in summaries.result_variants(e, st, a[0], d)],
        })
        eng = oblig.engine(prog, unroll=0, inline=None, extra=extra)
        ps = eng.run(f, args=[Lazy("stream", "R")])
        encoded.update(eng.encoded)
        for p in ps:
            res["paths"] += 1
            if p.status in ("abort", "bound"):
                inconc = "open_report path %s: %s" % (p.status, p.note[:160])
                continue
            if p.status != "return":
                continue
            kinds = [ev.callee[7:] for ev in p.events if ev.callee.startswith("READER:")]
            is_json = z3.BoolVal(kinds == ["json"])
            is_text = z3.BoolVal(kinds == ["text"] and isinstance(p.result, EnumV) and p.result.variant == "Ok")
            is_err = z3.BoolVal(not kinds and isinstance(p.result, EnumV) and p.result.variant == "Err")
            want = z3.And(is_json == (bs[0] == ord("{")), is_text == (bs[0] == ord("#")), is_err == z3.And(bs[0] != ord("{"), bs[0] != ord("#")))
            res["queries"] += 1
            s = z3.Solver()
            s.add(*p.pc)
            s.add(z3.Not(want))
            if s.check() == z3.sat:
                m = s.model()
                buf = bytes(m.eval(b, model_completion=True).as_long() for b in bs)
                bad = {"look_ahead_bytes": buf.hex(), "selected": kinds or ["refused"], "result": getattr(p.result, "variant", p.status)}
                break
        if bad:
            break
    o = Obligation("open_report: the reader is chosen by the first byte of the stream alone ('{' JSON, '#' text, otherwise refused), whatever bytes follow in the look-ahead buffer",
                   "E2 mirsym/z3 (symbolic look-ahead buffer, UTF-8 decoder model)", sorted("%s#%s" % (k[-60:], v) for k, v in encoded.items()),
                   "look-ahead buffers of 1..%d arbitrary bytes (covers buffers that end inside a multi-byte character)" % maxlen)
    o.key = "open_report:first-byte"
    o.queries = res["queries"]
    o.stats = {"paths": res["paths"], "states": res["paths"], "transitions": res["queries"]}
    if bad:
        o.verdict = "violated"
        o.cex = bad
        o.detail = "look-ahead bytes %s: %s (%s)" % (bad["look_ahead_bytes"], "/".join(bad["selected"]), bad["result"])
    elif inconc:
        o.verdict, o.detail = "inconclusive", inconc
    elif res["queries"] == 0:
        o.verdict, o.detail = "inconclusive", "vacuous: no returning path"
    else:
        o.verdict = "holds"
        o.witness = "%d paths, %d validity queries" % (res["paths"], res["queries"])
    rep.add(o)


def add(rep, ctx):
    for fn in (count_obligation, autodetect_obligation, group_header_obligation):
        try:
            fn(rep, ctx)
        except Inconclusive as ex:
            o = Obligation(fn.__name__, "E2 mirsym/z3")
            o.verdict, o.detail = "inconclusive", str(ex)
            rep.add(o)


def group_header_obligation(rep, ctx):
    """The group header line `<hash>, <len> B (..) * <count>:` is read back exactly: read_group_header takes the hash from capture 1
    with FileHash::from_str, the length from capture 2 parsed as u64 (a parser that goes through floating point - FileLen's own
    FromStr accepts units - loses the low bits above 2^53) and the count from capture 3 parsed as usize.  E2: provenance of the
    three fields of the returned GroupHeader.  Replay: the real writer and reader on lengths around 2^53 and 2^64."""
    import os
    import sys
    from common import VERIF, copy_repo, scratch_root
    prog = ctx.lib
    f = prog.method("TextReportIterator", "read_group_header")
    seen = []

    def s_parse(e, st, callee, args, dty):
        m = re.search(r"parse::<(.+)>$", callee)
        name = "parse[%s](%s)" % (m.group(1) if m else "?", summaries.canon(e, st, args[0]))
        r = e.make_lazy(name, dty)
        seen.append(name)
        return r

    def s_get(e, st, callee, args, dty):
        idx = args[1].t if isinstance(args[1], Int) else None
        i = z3.simplify(idx).as_long() if idx is not None and z3.is_bv_value(z3.simplify(idx)) else "?"
        return EnumV("Option", "Some", 1, {0: Lazy("cap%s" % i, "regex::Match")})
    extra = dict(optsum.SUMMARIES)
    extra[r"(^|::)parse$"] = s_parse
    extra[r"regex::Captures::get$|Captures(<.*>)?::get$"] = s_get
    extra[r"regex::Match::as_str$|Match(<.*>)?::as_str$"] = lambda e, st, c, a, d: a[0]
    extra[r"FileHash as (std::str::)?FromStr>::from_str$"] = summaries.pure("hash_from_str")
    eng = oblig.engine(prog, unroll=0, inline=None, extra=extra)
    ps = eng.run(f)
    fi = prog.src.field_index

    def prop(p):
        if not (p.status == "return" and isinstance(p.result, EnumV) and p.result.variant == "Ok"):
            return None
        opt = p.result.fields.get(0)
        if not (isinstance(opt, EnumV) and opt.variant == "Some"):
            return None
        gh = opt.fields.get(0)
        if not isinstance(gh, Agg):
            return z3.BoolVal(False)
        st = mirsym.State()
        st.mem, st.pc = p.mem, list(p.pc)
        h = summaries.canon(eng, st, gh.fields.get(fi("GroupHeader", "file_hash")))
        ln = summaries.canon(eng, st, gh.fields.get(fi("GroupHeader", "file_len")))
        ct = summaries.canon(eng, st, gh.fields.get(fi("GroupHeader", "count")))
        ok = (re.search(r"hash_from_str.?&?cap1", h) is not None and re.search(r"parse\[u64\].?&?cap2", ln) is not None
              and re.search(r"parse\[usize\].?&?cap3", ct) is not None)
        return z3.BoolVal(bool(ok))
    o = oblig.check_paths(eng, ps, "read_group_header: hash = FileHash::from_str(capture 1), length = capture 2 parsed as u64, count = capture 3 parsed as usize",
                          prop, oblig.fnames(eng), key="group-header:fields", allow=("return", "panic", "diverge"))
    if o.verdict == "violated":
        sys.path.insert(0, os.path.join(VERIF, "replay"))
        try:
            import native_driver
            drv = native_driver.NativeDriver(copy_repo("native-src-gh"), scratch_root(), [("report", "report_test.rs", "verif_report")])
            cases = [(2 ** 53 + 1, 0x1234, 2), (2 ** 53 - 1, 1, 1), (2 ** 64 - 2, 2 ** 128 - 1, 3), (9007199254740993, 7, 2), (1025, 2 ** 64, 12), (10 ** 15 + 7, 3, 2), (0, 0, 2)]
            out = drv.run("report::verif_report::verif_report_driver", ["GH %d %d %d" % c for c in cases], "gh")
            bad = []
            for c, line in zip(cases, out):
                m = re.search(r"len=(\d+) hash=([0-9a-f]+) n=(\d+)", line)
                # (FileHash prints its bytes in memory order; the length and the number of paths are what this replay is about)
                if not m or int(m.group(1)) != c[0] or int(m.group(3)) != c[2]:
                    bad.append({"written": {"len": c[0], "hash": "%x" % c[1], "paths": c[2]}, "read_back": line})
            if bad:
                o.stats["traces_validated"] = len(bad)
                o.cex = dict(o.cex or {}, native=bad[:3])
                o.detail += "; replayed natively: a group of length %d is read back as `%s`" % (bad[0]["written"]["len"], bad[0]["read_back"])
            else:
                o.detail += "; the real writer/reader round-trips the probe lengths"
        except Exception as ex:   # noqa
            o.detail += "; native report driver failed: %s" % str(ex)[:200]
    rep.add(o)
