"""C10, reader side beyond the line codec: how many lines a group takes from the stream, and which reader a report gets.

 * read_paths(count): the loop that reads the path lines of a group runs `count` times, `count` being the number written in the
   group header - for every count, not only the small ones the line-codec obligations run with.  E2: read_paths is executed with a
   symbolic `count`; the `Range` it iterates over is captured and z3 decides start == 0 and end == count for all 2^64 values.  A
   counterexample is a concrete count; it is replayed by writing a group with that many files and reading the report back.
 * open_report: the format is chosen by the first byte of the stream alone ('{' JSON, '#' text, anything else is refused),
   whatever follows in the look-ahead buffer - in particular a buffer that ends inside a multi-byte character (the BufReader hands
   out 16 KiB, reports with non-ASCII names are cut anywhere).  E2: fill_buf returns a buffer of 1..5 symbolic bytes, the UTF-8
   decoder model of strsum covers from_utf8 / from_utf8_lossy; obligation for every byte vector: reader kind == kind(first byte).
Replay: replay/batteries.py c10_battery (large groups; reports whose byte 16384 falls inside a character)."""
import re

import z3

import mirsym
import oblig
import optsum
import strsum
import summaries
from common import Inconclusive, Obligation
from mirsym import Agg, Bool, EnumV, Int, Lazy, ListV, Ref, Str, Unit


def called(p, pat):
    return [ev for ev in p.events if ev.kind == "call" and re.search(pat, ev.callee)]


def count_obligation(rep, ctx):
    prog = ctx.lib
    f = prog.method("TextReportIterator", "read_paths")
    cnt = z3.BitVec("count", 64)
    captured = []

    def s_into(e, st, callee, args, dty):
        v = summaries.deref_val(e, st, args[0])
        if isinstance(v, Agg) and isinstance(v.fields.get(0), Int) and isinstance(v.fields.get(1), Int):
            captured.append((list(st.pc), v.fields[0].t, v.fields[1].t))
        return args[0]
    extra = dict(strsum.STR)
    extra[r"^<(std::ops::)?Range<usize> as (std::iter::)?IntoIterator>::into_iter$"] = s_into
    extra[r"^(std::vec::)?Vec::with_capacity$"] = lambda e, st, c, a, d: ListV((), "Vec")
    eng = oblig.engine(prog, unroll=1, inline=None, extra=extra)
    mem = {"it": Agg("TextReportIterator", {}, base="it0")}
    ps = eng.run(f, args=[Ref("it", (), True), Int(cnt, "usize")], mem=mem)
    o = Obligation("TextReportIterator::read_paths(count): the path lines of a group are read `count` times - the loop bound is the number in the group header, for every count",
                   "E2 mirsym/z3 (symbolic count, 64-bit)", oblig.fnames(eng), "every 64-bit count; one unrolling of the loop body")
    o.key = "read_paths:loop-bound"
    s = z3.Solver()
    bad = None
    for pc, a, b in captured:
        o.queries += 1
        s.push()
        s.add(*pc)
        s.add(z3.Or(a != 0, b != cnt))
        # prefer a count a replay can build
        s.push()
        s.add(z3.ULT(cnt, 5000))
        r = s.check()
        if r != z3.sat:
            s.pop()
            r = s.check()
        if r == z3.sat:
            m = s.model()
            bad = {"count": m.eval(cnt, model_completion=True).as_long(), "range_start": str(z3.simplify(a)), "range_end": str(z3.simplify(b))[:200]}
        if z3.ULT(cnt, 5000) in s.assertions():
            s.pop()
        s.pop()
        if bad:
            break
    o.stats = {"paths": len(ps), "ranges": len(captured), "states": len(ps), "transitions": len(captured)}
    if not captured:
        o.verdict, o.detail = "inconclusive", "no `0..count` range found in read_paths (%s)" % [(p.status, p.note[:60]) for p in ps][:3]
    elif bad:
        o.verdict = "violated"
        o.cex = bad
        o.detail = "for count = %d the loop runs over %s..%s" % (bad["count"], bad["range_start"], bad["range_end"])
    else:
        o.verdict = "holds"
        o.witness = "%d range(s), start == 0 and end == count valid" % len(captured)
    rep.add(o)


def autodetect_obligation(rep, ctx, maxlen=4):
    prog = ctx.lib
    f = prog.find(r"^(report::)?open_report$")
    res = {"paths": 0, "queries": 0}
    bad, inconc = None, None
    encoded = {}
    for n in range(1, maxlen + 1):
        bs = [z3.BitVec("b%d_%d" % (n, i), 8) for i in range(n)]

        def s_fill(e, st, callee, args, dty, bs=bs):
            return EnumV("Result", "Ok", 0, {0: Str(tuple(bs), "bytes")})

        def s_reader(kind):
            def s(e, st, callee, args, dty):
                st.events.append(mirsym.Event("call", "READER:" + kind, (), None, len(st.pc), e.site(st)))
                if kind == "json":
                    return NotImplemented
                return Lazy("text_reader", "TextReportReader")
            return s
        extra = dict(optsum.SUMMARIES)
        extra.update(strsum.STR)
        extra.update({
            r"BufRead>::fill_buf$": s_fill,
            r"BufReader(::<.*>)?::with_capacity$": lambda e, st, c, a, d: Lazy("bufreader", "BufReader"),
            r"^(std::string::)?String::from_utf8_lossy$": strsum.s_to_string_lossy,
            r"JsonReportReader::new$": s_reader("json"),
            r"TextReportReader(::<.*>)?::new$": s_reader("text"),
            r"^<(std::borrow::)?Cow<'_, str> as (std::ops::)?Deref>::deref$": strsum.s_str_ref_identity,
            # Result<&str, _>::unwrap_or_default: the empty string on Err
            r"^(std::result::|core::result::)?Result::unwrap_or_default$":
                lambda e, st, c, a, d: [(cnd, pl if ok else Str((), "str")) for cnd, ok, pl in summaries.result_variants(e, st, a[0], d)],
        })
        eng = oblig.engine(prog, unroll=0, inline=None, extra=extra)
        ps = eng.run(f, args=[Lazy("stream", "R")])
        encoded.update(eng.encoded)
        for p in ps:
            res["paths"] += 1
            if p.status in ("abort", "bound"):
                inconc = "open_report path %s: %s" % (p.status, p.note[:160])
                continue
            if p.status != "return":
                continue
            kinds = [ev.callee[7:] for ev in p.events if ev.callee.startswith("READER:")]
            is_json = z3.BoolVal(kinds == ["json"])
            is_text = z3.BoolVal(kinds == ["text"] and isinstance(p.result, EnumV) and p.result.variant == "Ok")
            is_err = z3.BoolVal(not kinds and isinstance(p.result, EnumV) and p.result.variant == "Err")
            want = z3.And(is_json == (bs[0] == ord("{")), is_text == (bs[0] == ord("#")), is_err == z3.And(bs[0] != ord("{"), bs[0] != ord("#")))
            res["queries"] += 1
            s = z3.Solver()
            s.add(*p.pc)
            s.add(z3.Not(want))
            if s.check() == z3.sat:
                m = s.model()
                buf = bytes(m.eval(b, model_completion=True).as_long() for b in bs)
                bad = {"look_ahead_bytes": buf.hex(), "selected": kinds or ["refused"], "result": getattr(p.result, "variant", p.status)}
                break
        if bad:
            break
    o = Obligation("open_report: the reader is chosen by the first byte of the stream alone ('{' JSON, '#' text, otherwise refused), whatever bytes follow in the look-ahead buffer",
                   "E2 mirsym/z3 (symbolic look-ahead buffer, UTF-8 decoder model)", sorted("%s#%s" % (k[-60:], v) for k, v in encoded.items()),
                   "look-ahead buffers of 1..%d arbitrary bytes (covers buffers that end inside a multi-byte character)" % maxlen)
    o.key = "open_report:first-byte"
    o.queries = res["queries"]
    o.stats = {"paths": res["paths"], "states": res["paths"], "transitions": res["queries"]}
    if bad:
        o.verdict = "violated"
        o.cex = bad
        o.detail = "look-ahead bytes %s: %s (%s)" % (bad["look_ahead_bytes"], "/".join(bad["selected"]), bad["result"])
    elif inconc:
        o.verdict, o.detail = "inconclusive", inconc
    elif res["queries"] == 0:
        o.verdict, o.detail = "inconclusive", "vacuous: no returning path"
    else:
        o.verdict = "holds"
        o.witness = "%d paths, %d validity queries" % (res["paths"], res["queries"])
    rep.add(o)


def add(rep, ctx):
    for fn in (count_obligation, autodetect_obligation):
        try:
            fn(rep, ctx)
        except Inconclusive as ex:
            o = Obligation(fn.__name__, "E2 mirsym/z3")
            o.verdict, o.detail = "inconclusive", str(ex)
            rep.add(o)
