"""C20 - files locked by another process are left alone.
E1: FsCommand::execute for the four non-reflink variants with maybe_lock stubbed to be refused
nondeterministically; every model-FS call asserts that no mutation happens after a refusal.
E2 obligations on maybe_lock / FileLock::new are added by obligations/C20_e2 (MIR)."""
import os
import subprocess
import sys

from common import Report, VERIF, copy_repo, say, tier
import native
from obligations import e1

FUNCS = ["execute", "safe_remove", "move_rename", "move_copy"]
OPS = {"lock_remove": "remove", "lock_hardlink": "link", "lock_softlink": "soft", "lock_move": "move"}


def replayer_for(src_native):
    def rp(spec, r):
        op = OPS.get(spec["harness"])
        if not op:
            return None, "no native scenario"
        binary = native.build_binary(src_native)
        p = subprocess.run([sys.executable, os.path.join(VERIF, "replay", "c20_lock.py"), binary, op],
                           stdout=subprocess.PIPE, stderr=subprocess.STDOUT, timeout=120)
        out = p.stdout.decode(errors="replace").strip()
        return (p.returncode == 1), "c20_lock.py %s -> exit %d: %s" % (op, p.returncode, out[-300:])
    return rp


def run():
    rep = Report(
        "C20", "model_checking",
        "Kani/CBMC over the compiled FsCommand::execute (+safe_remove, move_rename, move_copy) for Remove, "
        "HardLink, SoftLink, Move; the advisory lock (maybe_lock) is a stub that is refused "
        "nondeterministically when locking is requested; the file-system wrappers are a 5-slot model FS "
        "whose every call asserts 'no mutation after a refused lock'; should_lock, use_rename, "
        "target-exists are symbolic. MIR-level obligations check maybe_lock/FileLock::new themselves.",
        assumptions=[
            "stubs: FsCommand::{unsafe_rename,remove,hardlink,symlink,check_can_rename,mkdirs,unsafe_copy,temp_file,maybe_lock}, Path::display, alloc::fmt::format",
            "the kernel's fcntl(F_SETLK) semantics; RefLink variant is covered by the MIR obligations only",
            "unwind 2 with unwinding assertions on",
        ],
        outside=["kernel fcntl semantics", "rayon scheduling of run_script"])
    import oblig
    ctx0 = oblig.Ctx()
    oblig.install_battery(rep, ctx0, ["c20_battery"])
    src, _ = e1.prepare()
    fn = e1.source_of(src, "dedupe.rs", FUNCS)
    specs = [dict(harness=h, name="execute(%s) with refused lock" % op, functions=fn,
                  bounds="one command, <=6 FS calls, unwind 2", key="execute:%s:lock-ignored" % op)
             for h, op in OPS.items()]
    native_src = copy_repo("native-src")
    e1.run_harnesses(rep, "C20", src, specs, jobs=8, timeout=1500 if tier() == "quick" else 3600,
                     replayer=e1.fs_replayer("lock", OPS))
    from obligations import C05
    C05.wrappers(rep)
    from obligations import C20_e2
    from common import Inconclusive, Obligation
    try:
        C20_e2.add(rep, ctx0)
        C20_e2.execute_lock_first(rep, ctx0)
        from obligations import C20_run
        C20_run.add(rep, ctx0.lib)
    except Inconclusive as ex:
        o = Obligation("lock semantics", "E2 mirsym/z3")
        o.verdict, o.detail = "inconclusive", str(ex)
        rep.add(o)
    return rep
