"""Shared helper: turn Kani harness results into obligations of a property."""
import os
import re

import kani
from common import Inconclusive, Obligation, copy_repo, say, text_hash

MODULES = ["path", "file", "dedupe"]


def source_of(src, relfile, fn_names):
    """Hashes of the source text of the encoded functions (evidence: what was encoded)."""
    p = os.path.join(src, "fclones", "src", relfile)
    s = open(p).read()
    out = []
    for fn in fn_names:
        m = re.search(r"\n\s*(?:pub(?:\([a-z]+\))? )?fn %s\b" % re.escape(fn), s)
        if not m:
            out.append("%s::%s (not found)" % (relfile, fn))
            continue
        i = s.index("{", m.end())
        depth, j = 0, i
        while True:
            if s[j] == "{":
                depth += 1
            elif s[j] == "}":
                depth -= 1
                if depth == 0:
                    break
            j += 1
        out.append("%s::%s#%s" % (relfile, fn, text_hash(s[m.start():j + 1])))
    return out


def prepare(modules=MODULES, shims=None):
    src = copy_repo("kani-src")
    kani.inject(src, modules)
    notes = kani.apply_shims(src, shims) if shims else []
    return src, notes


def run_harnesses(report, prop, src, specs, jobs=8, timeout=1500, replayer=None):
    """specs: list of dicts {harness, name, functions, bounds, key}.  One obligation per harness."""
    pats = [s["harness"] for s in specs]
    res, logp, wall = kani.run(src, pats, jobs=jobs, timeout=timeout, exact=False, name=prop)
    for s in specs:
        o = Obligation(s["name"], "E1 kani/cbmc", s.get("functions", []), s.get("bounds", ""))
        match = [(h, r) for h, r in res.items() if h.endswith("::" + s["harness"])]
        o.queries = 1
        if not match:
            o.verdict, o.detail = "inconclusive", "harness %s did not run" % s["harness"]
            report.add(o)
            continue
        h, r = match[0]
        o.solver_s = r["time"] or 0.0
        verdict, detail = kani.classify(r, prop)
        o.stats = {"cbmc_checks": (r["checks"] or (0, 0))[1], "stubs": r["stubs"],
                   "states": (r["checks"] or (0, 1))[1], "transitions": (r["checks"] or (0, 1))[1]}
        cov = r["covers"]
        o.witness = "%d of %d cover witnesses reachable" % cov if cov else "no cover witnesses"
        if verdict == "holds" and cov and cov[0] != cov[1]:
            verdict, detail = "inconclusive", "vacuity: only %d of %d cover witnesses reachable" % cov
        o.verdict, o.detail = verdict, detail
        o.sample = {"harness": h, "kani_status": r["status"], "failed_checks": r["failed"]}
        if verdict == "violated":
            o.key = s.get("key", s["harness"])
            o.cex = {"harness": h, "failed_checks": r["failed"]}
            if replayer:
                ok, rdetail = replayer(s, r)
                o.cex["native_replay"] = rdetail
                if ok is False:
                    o.verdict = "inconclusive"
                    o.detail = "counterexample did not reproduce natively: " + rdetail
                elif ok is True:
                    o.stats["traces_validated"] = 1
        report.add(o)
    return res


def fs_replayer(mode, ops):
    """Native confirmation of a model-FS counterexample: replay/fsops_replay.py runs the real FsCommand::execute on
    real files under every fault plan with <= 2 failing calls and every kill point (LD_PRELOAD shim), or with a
    foreign fcntl lock held.  ops: harness name -> op."""
    import json, subprocess, sys
    from common import VERIF, scratch_root, copy_repo
    state = {}

    def rp(spec, r):
        op = ops.get(spec["harness"])
        if not op:
            return None, "no native scenario"
        if "src" not in state:
            state["src"] = copy_repo("replay-src")
        p = subprocess.run([sys.executable, os.path.join(VERIF, "replay", "fsops_replay.py"), state["src"], op, mode, scratch_root()],
                           stdout=subprocess.PIPE, stderr=subprocess.PIPE, timeout=3600)
        out = p.stdout.decode(errors="replace").strip().splitlines()
        try:
            j = json.loads(out[-1])
        except Exception:
            return None, "replay driver failed: " + (p.stderr.decode(errors="replace")[-300:] or "no output")
        if j["n"] > 0:
            return True, "fsops_replay.py %s %s: %d native runs, %d violate; first: %s" % (op, mode, j["runs"], j["n"], json.dumps(j["violations"][0])[:400])
        return False, "fsops_replay.py %s %s: %d native runs (all fault plans <= 2 faults, all kill points), none violates" % (op, mode, j["runs"])
    return rp
