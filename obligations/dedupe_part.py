"""Shared E2 analysis of dedupe::partition (used by C02, C04, C08).

partition is executed symbolically on a group of <= 3 files (lazy symbolic PathAndMetadata values) for every way the
files can be distributed over sub-groups (the contract assumed for FileSubGroup::group: it returns a partition of its
input, order preserved).  stat accessors, should_keep / may_drop and the time comparison are pure functions of their
arguments; Vec::retain, Iterator::partition, drain, extend, flat_map are executed on concrete-length lists with the
closures' MIR bodies.  Every path is described by: which files end in to_keep / to_drop, under which condition."""
import re

import z3

import listsum
import mirsym
import optsum
import oblig
import summaries
from common import Inconclusive
from mirsym import Agg, Bool, EnumV, Int, Lazy, ListV, Ref, Unit

INL = (r"file::<impl[^>]*>::(len|deref)$|dedupe::<impl[^>]*>::(should_keep|may_drop)$|^(dedupe::)?was_modified$|"
       r"file\.rs:\d+:\d+: \d+:\d+>::(eq|ne|partial_cmp|cmp)$")

DEDUPE_LEAVES = r"sort_by_priority$|FsCommand::|(^|::)(move_target|are_on_same_mount)$|::warn$|Log::|(^|::)log_script$|(^|::)run_script$"


def dedupe_inliner(prog):
    """helpers of dedupe.rs are inlined (so the analysis does not depend on how partition / was_modified / dedupe_script are
    factored into functions); the file-level should_keep / may_drop stay pure predicates through their summaries"""
    minl = oblig.module_inliner(prog, "dedupe.rs", DEDUPE_LEAVES)
    return lambda c, t: bool(re.search(INL, t.name)) or minl(c, t)


def _file_level(tag):
    base = summaries.pure(tag)

    def f(e, st, callee, args, dty):
        v = summaries.deref_val(e, st, args[0])
        if isinstance(v, Agg) and v.ty == "FileSubGroup" or isinstance(v, Lazy) and "FileSubGroup" in v.ty:
            return NotImplemented        # the sub-group level method: inline it
        return base(e, st, callee, args, dty)
    return f


PURE = {
    r"^<.* as (std::convert::)?AsRef(<.*>)?>::as_ref$": lambda e, st, c, a, d: a[0],
    r"^(std::fs::)?Metadata::is_file$": summaries.pure("is_file"),
    r"^(std::fs::)?Metadata::len$": summaries.pure("len"),
    r"^(std::fs::)?Metadata::modified$": summaries.pure("modified"),
    r"^(dedupe::)?should_keep$": _file_level("should_keep"),
    r"^(dedupe::)?may_drop$": _file_level("may_drop"),
    r"^<(chrono::)?DateTime<(chrono::)?Local> as From<.*>>::from$|^<.* as (std::convert::)?Into<(chrono::)?DateTime<.*>>>::into$": summaries.pure("to_local"),
    r"^<(chrono::)?DateTime<.*> as (std::cmp::)?PartialOrd(<.*>)?>::(gt|lt|ge|le)$": summaries.pure("time_cmp"),
    r"^(std::path::)?Path::is_symlink$": summaries.pure("is_symlink"),
    r"^(std::fs::)?(Metadata|FileType)::is_symlink$": summaries.pure("is_symlink"),
    r"^(path::)?Path::to_path_buf$": summaries.pure("pathbuf"),
}


def set_partitions(n):
    if n == 0:
        yield []
        return
    for p in set_partitions(n - 1):
        for i in range(len(p)):
            yield p[:i] + [p[i] + [n - 1]] + p[i + 1:]
        yield p + [[n - 1]]


def group_summary(pattern):
    """FileSubGroup::group modelled by its contract for one grouping pattern (indices into the *current* file list are
    not known after filtering, so the pattern is applied by file name)"""
    def f(e, st, callee, args, dty):
        files = summaries.deref_val(e, st, args[0])
        if not isinstance(files, ListV):
            return NotImplemented
        groups = []
        for block in pattern:
            members = [it for it in files.items if isinstance(it, Lazy) and int(it.name[1:]) in block]
            if members:
                groups.append(Agg("FileSubGroup", {0: ListV(members, "Vec")}))
        # keep the input order of first members
        order = {it.name: i for i, it in enumerate(files.items) if isinstance(it, Lazy)}
        groups.sort(key=lambda g: order[g.fields[0].items[0].name])
        st.events.append(mirsym.Event("call", "FileSubGroup::group", tuple(args), None, len(st.pc), e.site(st)))
        return ListV(groups, "Vec")
    return f


class PartPath:
    def __init__(self, p, keep, drop, status):
        self.p, self.keep, self.drop, self.status = p, keep, drop, status


def analyse(prog, nfiles, pattern, with_priority=False):
    """-> (engine, [PartPath]) for one grouping pattern"""
    extra = dict(optsum.SUMMARIES)
    extra.update(listsum.LIST)
    extra.update(PURE)
    extra[r"^(group::)?FileSubGroup::group$|FileSubGroup<.*>::group$"] = group_summary(pattern)
    eng = oblig.engine(prog, unroll=nfiles + 2, inline=dedupe_inliner(prog), extra=extra, solver_timeout_ms=30000)
    part = prog.find(r"^(dedupe::)?partition$")
    files = [Lazy("f%d" % i, "dedupe::PathAndMetadata") for i in range(nfiles)]
    fi = prog.src.field_index
    group = Agg("FileGroup", {fi("FileGroup", "file_len"): Lazy("glen", "file::FileLen"), fi("FileGroup", "file_hash"): Lazy("ghash", "file::FileHash"),
                              fi("FileGroup", "files"): ListV(files, "Vec")})
    cfg_fields = {}
    if not with_priority:
        cfg_fields[fi("DedupeConfig", "priority")] = ListV((), "Vec")
    cfg = Agg("DedupeConfig", cfg_fields, base="config*")
    mem = {"cfgcell": cfg}
    paths = eng.run(part, args=[group, Ref("cfgcell", (), False), None], mem=mem)
    out = []
    for p in paths:
        if p.status in ("abort", "bound"):
            raise Inconclusive("partition path %s: %s" % (p.status, p.note[:200]))
        keep = drop = None
        if p.status == "return" and isinstance(p.result, EnumV) and p.result.variant == "Ok":
            r = p.result.fields.get(0)
            if isinstance(r, Agg):
                k, d = r.fields.get(fi("PartitionedFileGroup", "to_keep")), r.fields.get(fi("PartitionedFileGroup", "to_drop"))
                if isinstance(k, ListV) and isinstance(d, ListV):
                    keep = [x.name for x in k.items if isinstance(x, Lazy)]
                    drop = [x.name for x in d.items if isinstance(x, Lazy)]
                    if len(keep) != len(k.items) or len(drop) != len(d.items):
                        raise Inconclusive("partition result holds unknown elements")
            if keep is None:
                raise Inconclusive("partition result not understood: %r" % (p.result,))
            out.append(PartPath(p, keep, drop, "ok"))
        elif p.status == "return":
            out.append(PartPath(p, None, None, "err"))
        else:
            out.append(PartPath(p, None, None, p.status))
    return eng, out


def sym(name, args_canon, bool_=True):
    n = mirsym.sanitize("%s(%s)" % (name, args_canon))
    return z3.Bool(n) if bool_ else z3.BitVec(n, 64)


def pure_ret(p, tag, contains):
    """z3 term of the return value of the pure call `tag` whose canonical argument text contains `contains`"""
    for ev in p.events:
        if ev.kind == "call" and ev.info and ev.info.get("pure") == tag:
            nm = ev.ret.name if isinstance(ev.ret, Lazy) else (str(ev.ret.t) if isinstance(ev.ret, (Bool, Int)) else "")
            if contains in str(nm) or contains in repr(ev.args):
                return ev.ret
    return None


# ------------------------------------------------------------------------------------------ obligations

def _pure1(tag):
    """file-level predicate named after the path only"""
    def f(e, st, callee, args, dty):
        v = summaries.deref_val(e, st, args[0])
        if isinstance(v, Agg) and v.ty == "FileSubGroup" or isinstance(v, Lazy) and "FileSubGroup" in v.ty:
            return NotImplemented
        name = "%s(%s)" % (tag, summaries.canon(e, st, args[0]))
        r = e.make_lazy(name, dty)
        st.events.append(mirsym.Event("call", tag, tuple(args), r, len(st.pc), e.site(st), {"pure": tag}))
        return r
    return f


PURE[r"^(dedupe::)?should_keep$"] = _pure1("should_keep")
PURE[r"^(dedupe::)?may_drop$"] = _pure1("may_drop")


def _was_modified_event(e, st, callee, args, dty):
    lst = summaries.deref_val(e, st, args[0])
    names = tuple(x.name for x in lst.items if isinstance(x, Lazy)) if isinstance(lst, ListV) else None
    r = e.make_lazy("was_modified(%s)" % ",".join(names or ("?",)), "bool")
    st.events.append(mirsym.Event("call", "was_modified", tuple(args), r, len(st.pc), e.site(st), {"files": names}))
    return r


def B(name):
    return z3.Bool(mirsym.sanitize(name))


def file_syms(i):
    return {"keep": B("should_keep(f%d.path)" % i), "maydrop": B("may_drop(f%d.path)" % i),
            "is_file": B("is_file(f%d.metadata.metadata)" % i),
            "len": z3.BitVec(mirsym.sanitize("len(f%d.metadata.metadata)" % i), 64)}


def run_partition_obligations(prog, nfiles_list=(2, 3)):
    """-> dict name -> (verdict data) ; each entry: list of counterexample dicts (empty = holds), stats"""
    results = {k: {"cex": [], "paths": 0, "queries": 0, "errors": []} for k in
               ("no-loss-no-dup", "atomic-subgroups", "patterns", "retention-count", "top-up-order", "stale-filter", "mtime-check", "subgroup-args", "data-retained")}
    encoded = {}
    glen = z3.BitVec("glen.0", 64)
    no_check = z3.Bool("config*.no_check_size")
    rf_some = z3.BitVec("config*.rf_over#d", 64) == 1
    rf_val = z3.BitVec("config*.rf_over@Some.0", 64)
    rf = z3.If(rf_some, rf_val, z3.BitVecVal(1, 64))
    n_eff = z3.If(z3.UGE(rf, 1), rf, z3.BitVecVal(1, 64))
    mb_some = z3.BitVec("config*.modified_before#d", 64) == 1
    for nf in nfiles_list:
        fs = [file_syms(i) for i in range(nf)]
        surv = [z3.And(f["is_file"], z3.Or(no_check, f["len"] == glen)) for f in fs]
        for pattern in set_partitions(nf):
            PURE[r"^(dedupe::)?was_modified$"] = _was_modified_event
            try:
                eng, paths = analyse(prog, nf, pattern)
            except Inconclusive as ex:
                for r in results.values():
                    r["errors"].append("pattern %s: %s" % (pattern, str(ex)[:200]))
                continue
            finally:
                PURE.pop(r"^(dedupe::)?was_modified$", None)
            encoded.update(eng.encoded)

            def bcount(conds):
                return z3.Sum([z3.If(c, 1, 0) for c in conds]) if conds else z3.IntVal(0)
            for pp in paths:
                for r in results.values():
                    r["paths"] += 1
                if pp.status != "ok":
                    continue
                pc = list(pp.p.pc)
                keep, drop = set(int(x[1:]) for x in pp.keep), set(int(x[1:]) for x in pp.drop)

                def need(name, formula, extra=None):
                    r = eng.check(*(pc + [z3.Not(formula)]))
                    results[name]["queries"] += 1
                    if r == z3.sat:
                        eng.solver.push(); eng.solver.add(*pc); eng.solver.add(z3.Not(formula)); eng.solver.check(); m = eng.solver.model(); eng.solver.pop()
                        d = {"files": nf, "subgroups": pattern, "to_keep": pp.keep, "to_drop": pp.drop, "model": oblig.model_dict(m, 30)}
                        if extra:
                            d.update(extra)
                        if len(results[name]["cex"]) < 6:
                            results[name]["cex"].append(d)
                    elif r == z3.unknown:
                        results[name]["errors"].append("solver unknown")
                # P1: exactly the surviving files are classified, once
                dup = len(pp.keep) + len(pp.drop) != len(keep | drop) or (keep & drop)
                need("no-loss-no-dup", z3.And(z3.BoolVal(not dup), *[(z3.BoolVal(i in keep or i in drop) == surv[i]) for i in range(nf)]))
                # C04: only regular files of the recorded length (unless the size check is off) are classified
                need("stale-filter", z3.And(*[z3.Implies(z3.BoolVal(i in keep or i in drop), surv[i]) for i in range(nf)]))
                # P2: sub-groups are atomic
                atom = True
                for block in pattern:
                    sides = {("k" if i in keep else "d") for i in block if i in keep or i in drop}
                    atom = atom and len(sides) <= 1
                need("atomic-subgroups", z3.BoolVal(atom))
                # P3: nothing that matches a keep pattern / fails the drop patterns is dropped (sub-group level)
                conj = []
                for block in pattern:
                    mem = [i for i in block if i in keep or i in drop]
                    if any(i in drop for i in mem):
                        for j in mem:
                            conj.append(z3.And(z3.Not(fs[j]["keep"]), fs[j]["maydrop"]))
                need("patterns", z3.And(*conj) if conj else z3.BoolVal(True))
                # P4: at least min(n, #sub-groups) sub-groups are retained
                sblocks = [[i for i in block if i in keep or i in drop] for block in pattern]
                sblocks = [b for b in sblocks if b]
                order = {name: k for k, name in enumerate(pp.keep + pp.drop)}
                retained = [b for b in sblocks if b[0] in keep]
                nS, nR = len(sblocks), len(retained)
                need("retention-count", z3.Or(z3.BoolVal(nR == nS), z3.UGE(z3.BitVecVal(nR, 64), n_eff)))
                # P5: the protected sub-groups are kept, the unprotected ones are kept from the front (report order) up to n
                # report order of sub-groups = order of their first member in the input (no priorities configured)
                sb_sorted = sorted(sblocks, key=lambda b: b[0])
                prot = [z3.Or(z3.Or(*[fs[j]["keep"] for j in b]), z3.Not(z3.And(*[fs[j]["maydrop"] for j in b]))) for b in sb_sorted]
                nprot = bcount(prot)
                conj = []
                for k, b in enumerate(sb_sorted):
                    is_kept = z3.BoolVal(b[0] in keep)
                    unprot_before = bcount([z3.Not(prot[t]) for t in range(k)])
                    # kept iff protected or (index among the unprotected ones) < n - #protected
                    quota = z3.BV2Int(n_eff) - nprot
                    conj.append(is_kept == z3.Or(prot[k], unprot_before < quota))
                need("top-up-order", z3.And(*conj) if conj else z3.BoolVal(True))
                # the sub-grouping is asked for with the configuration's own isolate roots, and by file id unless --match-links,
                # whatever else is configured (the contract used above for FileSubGroup::group presupposes exactly these arguments)
                ml = z3.Bool("config*.match_links")
                okargs = []
                for ev in pp.p.events:
                    if ev.kind == "call" and ev.callee == "FileSubGroup::group":
                        st_ = mirsym.State()
                        st_.mem, st_.pc = pp.p.mem, list(pp.p.pc)
                        roots_cn = summaries.canon(eng, st_, ev.args[1]) if len(ev.args) > 1 else ""
                        by_id = ev.args[2] if len(ev.args) > 2 else None
                        okargs.append(z3.And(z3.BoolVal("config*.isolated_roots" in roots_cn),
                                             (by_id.t == z3.Not(ml)) if isinstance(by_id, Bool) else z3.BoolVal(False)))
                need("subgroup-args", z3.And(*okargs) if okargs else z3.BoolVal(False))
                # a symbolic link holds no data (metadata follows links, so a link to a regular file of the right length passes every
                # filter above): whenever something is dropped, some retained path is known not to be a symbolic link.  The lstat
                # results are free per-path predicates; a path the code never asked about may be a link.
                if drop:
                    syms = {}

                    def walk(t):
                        if z3.is_const(t) and t.decl().kind() == z3.Z3_OP_UNINTERPRETED and z3.is_bool(t):
                            m_ = re.match(r"is_symlink.*?f(\d+)\.path", str(t))
                            if m_:
                                syms[int(m_.group(1))] = t
                        for c_ in t.children():
                            walk(c_)
                    for c in pc:
                        walk(c)
                    need("data-retained", z3.Or(*[z3.Not(syms.get(i, z3.Bool("is_symlink_never_asked(f%d)" % i))) for i in sorted(keep)]) if keep else z3.BoolVal(False))
                else:
                    results["data-retained"]["queries"] += 0
                # C04: with a time limit, the mtime check covered every classified file and found nothing
                wm = [ev for ev in pp.p.events if ev.kind == "call" and ev.callee == "was_modified"]
                classified = tuple(sorted("f%d" % i for i in (keep | drop)))
                if wm:
                    covered = tuple(sorted(wm[0].info["files"] or ())) == classified
                    need("mtime-check", z3.And(z3.BoolVal(covered), z3.Not(wm[0].ret.t)))
                else:
                    need("mtime-check", z3.Not(mb_some))
    return results, encoded


def was_modified_semantics(prog):
    """was_modified(files, after) == exists file: modified() is Err or local(mtime) > local(after)"""
    extra = dict(optsum.SUMMARIES)
    extra.update(listsum.LIST)
    extra.update(PURE)
    eng = oblig.engine(prog, unroll=4, inline=dedupe_inliner(prog), extra=extra)
    wm = prog.find(r"^(dedupe::)?was_modified$")
    files = [Lazy("f%d" % i, "dedupe::PathAndMetadata") for i in range(2)]
    mem = {"fl": ListV(files, "Vec")}
    paths = eng.run(wm, args=[Ref("fl", (), False), Lazy("after", wm.args[1][1]), None], mem=mem)
    return eng, paths
