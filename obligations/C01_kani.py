"""E1 (Kani) obligations on hasher::scan / stream_hash shared by C01 (every byte hashed once, in order) and C15
(a failed read never yields a hash).  The thread-local read buffer cannot be compiled by Kani 0.68; in the scratch copy it
is replaced under cfg(kani) by a per-call buffer (recorded as a stub)."""
import os
import re

import kani
from common import Inconclusive, Obligation, copy_repo, tier
from obligations import e1

SHIM = '''
#[cfg(not(kani))]
%s
#[cfg(kani)]
struct VerifBufShim;
#[cfg(kani)]
impl VerifBufShim {
    fn with<R>(&self, f: impl FnOnce(&RefCell<Vec<u8>>) -> R) -> R {
        let c = RefCell::new(Vec::new());
        f(&c)
    }
}
#[cfg(kani)]
static BUF: VerifBufShim = VerifBufShim;
'''


def prepare():
    src = copy_repo("kani-hasher-src")
    kani.inject(src, ["hasher"])
    p = os.path.join(src, "fclones", "src", "hasher.rs")
    s = open(p).read()
    m = re.search(r"thread_local!\s*\{\s*static BUF\b[^;]*?\}\s*\}", s, re.S)
    if not m:
        raise Inconclusive("shim anchor `thread_local! { static BUF .. }` not found in hasher.rs")
    s = s[:m.start()] + SHIM % m.group(0) + s[m.end():]
    open(p, "w").write(s)
    return src, ["hasher.rs: thread_local BUF -> per-call buffer under cfg(kani) (Kani cannot compile thread-locals)"]


def add(rep, prop="C01"):
    try:
        src, notes = prepare()
    except Inconclusive as e:
        o = Obligation("hasher::scan / stream_hash (Kani)", "E1 kani/cbmc")
        o.verdict, o.detail = "inconclusive", str(e)
        rep.add(o)
        return
    rep.assumptions.extend(notes)
    rep.assumptions.append("model reader: every read returns 1..min(avail, asked) bytes (arbitrary short reads), the k-th call may fail (k symbolic); recording hasher")
    fn = e1.source_of(src, "hasher.rs", ["scan", "stream_hash"])
    bounds = "stream of <= 4 symbolic bytes, requested len 0..5, buffer 1..3 bytes, failing read call 1..6 or none, unwind 8 with unwinding assertions"
    specs = [
        dict(harness="stream_hash_consumes", functions=fn, bounds=bounds, key="stream_hash:consumption",
             name="stream_hash: exactly the first min(len, stream) bytes are hashed once, in order; a failed read gives no hash"),
        dict(harness="scan_counts", functions=fn, bounds=bounds, key="scan:count",
             name="scan: delivered bytes == returned count == min(len, stream); Err iff a read failed"),
    ]
    e1.run_harnesses(rep, prop, src, specs, jobs=2, timeout=900 if tier() == "quick" else 2400,
                     replayer=replayer(src))


def replayer(src):
    def rp(spec, r):
        from obligations import hasher_replay
        return hasher_replay.run(src)
    return rp
