"""C06 - replica counting honours links, isolation and the replication filter (claimed in part).

E2: FileGroup::{matches, matches_strictly, missing_count, redundant_count} as functions of the symbolic sub-group
count; GroupConfig::{group_filter, rf_over, rf_under} against the documented defaults; root spelling: the terms
that become `root_paths` must be canonicalised like the scanned paths are (Walk::absolute)."""
import json
import os
import re
import shutil
import subprocess
import tempfile

import z3

import mirsym
import native
import oblig
from common import Inconclusive, Obligation, Report
from mirsym import Agg, Bool, EnumV, Int, Lazy

U = lambda n: z3.BitVec(n, 64)


def called(p, pattern):
    return [e for e in p.events if e.kind == "call" and re.search(pattern, e.callee)]


def filter_obligations(rep, ctx, prop_id, finish):
    """shared with C03: semantics of the replication filter on the sub-group count"""
    prog = ctx.lib
    eng = oblig.engine(prog, unroll=0)
    FG = lambda n: prog.method("FileGroup", n)
    fns = lambda: oblig.fnames(eng)
    res = {}
    for meth in ("matches", "matches_strictly", "missing_count"):
        res[meth] = eng.run(FG(meth))
    repl = U("filter*.replication#d")
    rf_under, rf_over = U("filter*.replication@Underreplicated.0"), U("filter*.replication@Overreplicated.0")
    under = repl == prog.src.variant_index("Replication", "Underreplicated")
    over = repl == prog.src.variant_index("Replication", "Overreplicated")

    def count_of(p):
        sc = called(p, r"subgroup_count$")
        if sc and isinstance(sc[0].ret, Int):
            return sc[0].ret.t
        return U("free_subgroup_count")

    def strict_prop(p):
        n = count_of(p)
        if not isinstance(p.result, Bool):
            return z3.BoolVal(False)
        return p.result.t == z3.If(over, z3.UGT(n, rf_over), z3.ULT(n, rf_under))
    finish(oblig.check_paths(eng, res["matches_strictly"],
                             "matches_strictly: reported iff count > rf_over, resp. count < rf_under", strict_prop, fns(),
                             key="filter:strict"), "filter")

    def perm_prop(p):
        n = count_of(p)
        if not isinstance(p.result, Bool):
            return z3.BoolVal(False)
        # permissive filter: never prunes a candidate whose refinement could still qualify
        return p.result.t == z3.If(over, z3.UGT(n, rf_over), z3.BoolVal(True))
    finish(oblig.check_paths(eng, res["matches"],
                             "matches (between stages): count > rf_over for duplicates, always true for under-replicated searches",
                             perm_prop, fns(), key="filter:permissive"), "filter")
    # strict => permissive and monotonicity, as SMT-valid facts over the extracted semantics
    n, n2, rf = U("n"), U("n2"), U("rf")
    strict = lambda k: z3.If(over, z3.UGT(k, rf), z3.ULT(k, rf))
    perm = lambda k: z3.If(over, z3.UGT(k, rf), z3.BoolVal(True))
    finish(oblig.valid(eng, "strict(n) => permissive(n); permissive(n) and n' >= n => permissive(n')",
                       z3.And(z3.Implies(strict(n), perm(n)), z3.Implies(z3.And(perm(n), z3.UGE(n2, n)), perm(n2))),
                       fns(), key="filter:monotone"), None)

    def missing_prop(p):
        nn = count_of(p)
        if not isinstance(p.result, Int):
            return z3.BoolVal(False)
        want = z3.If(over, z3.BitVecVal(0, 64), z3.If(z3.ULT(rf_under, nn), z3.BitVecVal(0, 64), rf_under - nn))
        return p.result.t == want
    finish(oblig.check_paths(eng, res["missing_count"], "missing_count = max(0, rf_under - count) (0 for duplicate searches)",
                             missing_prop, fns(), key="filter:missing"), "filter")

    # redundant_count, fast path without isolate roots
    rc = eng.run(FG("redundant_count"))

    def red_prop(p):
        if called(p, r"FileSubGroup::group$"):
            return None
        if not isinstance(p.result, Int):
            return z3.BoolVal(False)
        fc = called(p, r"file_count$")
        cnt = fc[0].ret.t if fc and isinstance(fc[0].ret, Int) else U("free_file_count")
        eff = z3.If(z3.UGE(rf_over, 1), rf_over, z3.BitVecVal(1, 64))
        want = z3.If(over, z3.If(z3.ULT(cnt, eff), z3.BitVecVal(0, 64), cnt - eff), z3.BitVecVal(0, 64))
        return p.result.t == want
    finish(oblig.check_paths(eng, rc, "redundant_count (no isolate roots) = max(0, files - max(rf_over, 1))", red_prop, fns(),
                             key="filter:redundant", allow=("return", "panic", "diverge", "bound")), "filter")
    return eng


def config_obligations(rep, ctx, finish):
    prog = ctx.lib
    eng = oblig.engine(prog, unroll=0, inline=r"config::<impl[^>]*>::rf_over$|config::<impl[^>]*>::rf_under$")
    gf = prog.method("GroupConfig", "group_filter")
    ps = eng.run(gf)
    fns = lambda: oblig.fnames(eng)
    unique = z3.Bool("self*.unique")
    has_under = U("self*.rf_under#d") == 1
    has_over = U("self*.rf_over#d") == 1
    UNDER = prog.src.variant_index("Replication", "Underreplicated")
    OVER = prog.src.variant_index("Replication", "Overreplicated")

    def repl_prop(p):
        r = p.result
        if not isinstance(r, Agg):
            return z3.BoolVal(False)
        rp = r.fields.get(prog.src.field_index("FileGroupFilter", "replication"))
        gb = r.fields.get(prog.src.field_index("FileGroupFilter", "group_by_id"))
        if not isinstance(rp, EnumV) or not isinstance(gb, Bool) or not isinstance(rp.fields.get(0), Int):
            return z3.BoolVal(False)
        val = rp.fields[0].t
        want_under = z3.Or(unique, has_under)
        want_val = z3.If(unique, z3.BitVecVal(2, 64),
                         z3.If(has_under, U("self*.rf_under@Some.0"),
                               z3.If(has_over, U("self*.rf_over@Some.0"), z3.BitVecVal(1, 64))))
        return z3.And(z3.BoolVal(rp.idx == UNDER) == want_under, val == want_val,
                      gb.t == z3.Not(z3.Bool("self*.match_links")))
    finish(oblig.check_paths(eng, ps, "group_filter: --unique = under 2, --rf-under k, else over --rf-over (default 1); hard links grouped unless --match-links",
                             repl_prop, fns(), key="group_filter:replication"), "rf-default")

    def roots_prop(p):
        r = p.result
        roots = r.fields.get(prog.src.field_index("FileGroupFilter", "root_paths")) if isinstance(r, Agg) else None
        isolate = z3.Bool("self*.isolate")
        ip = called(p, r"GroupConfig::input_paths$")
        return z3.BoolVal(bool(ip)) == isolate
    finish(oblig.check_paths(eng, ps, "group_filter: isolate roots are the input paths iff --isolate", roots_prop, fns(),
                             key="group_filter:roots"), None)

    # root spelling: roots must be brought to the same canonical form as the scanned paths
    def spelling_prop(p):
        ip = called(p, r"GroupConfig::input_paths$")
        if not ip:
            return None
        canon = [e for e in p.events if e.kind == "call" and re.search(r"canonicalize|Walk::absolute|dunce::", e.callee)]
        if not canon:
            # the canonicalisation may sit in a closure handed to an iterator adapter
            for e in p.events:
                for a in (e.args or ()):
                    c = oblig.closure_value(a) if e.kind == "call" else None
                    if c is not None:
                        _, qs = oblig.run_closure(prog, c, p, eng=eng, unroll=0)
                        if any(re.search(r"canonicalize|dunce::", ev.callee) for q in qs for ev in q.events if ev.kind == "call"):
                            canon.append(e)
        if not canon:
            ipf = prog.method("GroupConfig", "input_paths")
            texts = " ".join(g.text for g in prog.closures_of(ipf)) + ipf.text
            if re.search(r"canonicalize", texts):
                canon.append("input_paths")
        return z3.BoolVal(bool(canon))
    o = oblig.check_paths(eng, ps, "group_filter: isolate roots are canonicalised like scanned paths (spelling independence)",
                          spelling_prop, fns(), key="group_filter:root-spelling")
    finish(o, "root-spelling")
    return eng


def run():
    rep = Report(
        "C06", "other",
        "Bounded symbolic execution (mirsym/z3) of FileGroup::{matches, matches_strictly, missing_count, redundant_count} with "
        "the sub-group count as a free 64-bit symbol, and of GroupConfig::{group_filter, rf_over, rf_under}; z3 decides "
        "equality with the documented semantics for all option values.  Root spelling: the terms that become isolate roots "
        "must pass through the same canonicalisation as scanned paths.  Counterexamples are replayed through the CLI.",
        assumptions=["IndexMap is modelled as an insertion-ordered map (reference model in lib/mapsum.py); file ids are symbolic"],
        outside=["symlink target ids (file.rs)", "the walk", "groups of more than 3 files / 2 roots (thorough: 4 x 3)"])
    ctx = oblig.Ctx()
    oblig.install_battery(rep, ctx, ["c06_battery"])

    def finish(o, scenario):
        if o.verdict == "violated" and scenario:
            replay(o, ctx, scenario)
            if o.verdict == "inconclusive":
                # the scenario-specific replay did not show it: let the counting battery (install_battery) try
                o.verdict = "violated"
        rep.add(o)
    filter_obligations(rep, ctx, "C06", finish)
    config_obligations(rep, ctx, finish)
    sub_group_obligations(rep, ctx)
    # "through a symlink": a followed link's target is canonical before it is walked (the same file reached through two spellings
    # of its directory would otherwise count as two paths)
    try:
        from obligations import C09
        rep.add(C09.resolve_link_obligation(ctx.lib))
    except Inconclusive as ex:
        o = Obligation("resolve_link", "E2 mirsym/z3")
        o.verdict, o.detail = "inconclusive", str(ex)
        rep.add(o)
    return rep


def sub_group_obligations(rep, ctx):
    """the sub-grouping itself (FileSubGroup::group with an IndexMap model against a declarative reference), the counts built on it
    and Path::is_prefix_of, which decides what lies under an --isolate root (shared with C14 / C08)"""
    from common import tier
    from obligations import path_kernels, subgroups
    prog = ctx.lib
    engs = []
    fn = lambda: sorted({x for e in engs for x in oblig.fnames(e)})
    try:
        rep.add(subgroups.group_obligations(rep, prog, engs, fn, tier()))
        for o in subgroups.count_obligations(prog, engs, fn, tier()):
            rep.add(o)
    except Inconclusive as e:
        o = Obligation("sub-grouping", "E2 mirsym/z3")
        o.verdict, o.detail = "inconclusive", str(e)
        rep.add(o)
    try:
        path_kernels.is_prefix_of_obligation(rep, prog)
    except Inconclusive as e:
        o = Obligation("Path::is_prefix_of", "E2 mirsym/z3")
        o.verdict, o.detail = "inconclusive", str(e)
        rep.add(o)


def cli_groups(binary, args, cwd, env):
    r = subprocess.run([binary, "group", "-f", "json"] + args, stdout=subprocess.PIPE, stderr=subprocess.PIPE, env=env, cwd=cwd, timeout=120)
    js = json.loads(r.stdout.decode(errors="replace"))
    return sorted(sorted(os.path.basename(os.path.dirname(f)) + "/" + os.path.basename(f) for f in g["files"]) for g in js.get("groups", [])), js.get("header", {}).get("stats", {})


def replay(o, ctx, scenario):
    try:
        binary = native.build_binary(ctx.src)
    except Inconclusive as e:
        o.verdict, o.detail = "inconclusive", "replay build failed: %s" % e
        return
    d = tempfile.mkdtemp(prefix="c06replay.")
    try:
        env = dict(os.environ, HOME=d, XDG_CACHE_HOME=os.path.join(d, "cache"))
        for r in ("r1", "r2"):
            os.makedirs(os.path.join(d, r))
        open(os.path.join(d, "r1", "a.bin"), "wb").write(b"A" * 100)
        open(os.path.join(d, "r1", "a2.bin"), "wb").write(b"A" * 100)
        open(os.path.join(d, "r2", "b.bin"), "wb").write(b"A" * 100)
        open(os.path.join(d, "r1", "u.bin"), "wb").write(b"U" * 77)
        os.symlink(os.path.join(d, "r2"), os.path.join(d, "r2link"))
        devs = []
        if scenario == "root-spelling":
            base, bstats = cli_groups(binary, ["--isolate", "r1", "r2"], d, env)
            for spelled in (["./r1", "./r2"], ["r1/", "r2/"], ["r1/../r1", "r2"], ["r1", "r2link"], [os.path.join(d, "r1"), os.path.join(d, "r2")]):
                g, st = cli_groups(binary, ["--isolate"] + spelled, d, env)
                if st.get("redundant_file_count") != bstats.get("redundant_file_count") or len(g) != len(base):
                    devs.append({"roots": spelled, "redundant": st.get("redundant_file_count"), "with_plain_spelling": bstats.get("redundant_file_count")})
        elif scenario == "rf-default":
            for extra in ([], ["--transform", "cat"], ["--rf-over", "2"], ["--unique"], ["--rf-under", "3"]):
                g, st = cli_groups(binary, extra + ["r1", "r2"], d, env)
                sizes = sorted(len(x) for x in g)
                want = {(): [3], ("--transform", "cat"): [3], ("--rf-over", "2"): [3], ("--unique",): [1], ("--rf-under", "3"): [1]}[tuple(extra)]
                if sizes != want:
                    devs.append({"options": extra, "group_sizes": sizes, "documented": want})
        else:
            for extra, want in (([], [3]), (["--rf-over", "3"], []), (["--rf-over", "2"], [3]), (["--unique"], [1]), (["--rf-under", "4"], [1, 3])):
                g, st = cli_groups(binary, extra + ["r1", "r2"], d, env)
                sizes = sorted(len(x) for x in g)
                if sizes != want:
                    devs.append({"options": extra, "group_sizes": sizes, "documented": want})
            # hard links are one replica in every pipeline (also those that end with the permissive filter)
            os.makedirs(os.path.join(d, "h"))
            open(os.path.join(d, "h", "x.bin"), "wb").write(b"H" * 300)
            os.link(os.path.join(d, "h", "x.bin"), os.path.join(d, "h", "x_link.bin"))
            for extra in ([], ["--skip-content-hash"], ["--transform", "cat"]):
                g, st = cli_groups(binary, extra + ["h"], d, env)
                if g:
                    devs.append({"options": extra + ["h (a file and its hard link)"], "groups": g, "documented": "no group: one replica"})
        o.cex["native_replay"] = {"deviations": devs[:4]}
        if devs:
            o.stats["traces_validated"] = 1
            o.detail += "; replayed natively: %s" % json.dumps(devs[0])[:300]
        else:
            o.verdict, o.detail = "inconclusive", "counterexample did not reproduce through the CLI (scenario %s)" % scenario
    finally:
        shutil.rmtree(d, ignore_errors=True)
