"""Native replay of a Kani counterexample on hasher::scan / stream_hash (replay/hasher_test.rs)."""
import os
import sys

from common import VERIF, copy_repo, scratch_root

sys.path.insert(0, os.path.join(VERIF, "replay"))


def run(_src=None):
    import native_driver
    src = copy_repo("hasher-replay-src")
    try:
        drv = native_driver.NativeDriver(src, scratch_root(), [("hasher", "hasher_test.rs", "verif_hasher_test")])
        out = drv.run("hasher::verif_hasher_test::verif_hasher_driver", [], "hasher")
    except Exception as e:
        return None, "native driver failed: %s" % str(e)[-300:]
    devs = [l for l in out if l.startswith("DEV")]
    runs = [l for l in out if l.startswith("RUNS")]
    if devs:
        return True, "real stream_hash with a scripted reader: %d deviating plans of %s; first: %s" % (len(devs), runs[0] if runs else "?", devs[0])
    return False, "real stream_hash with a scripted reader: %s, none deviates" % (runs[0] if runs else "?")
