"""Command-line options are read back with the type their value parser produces (C08: `-n/--rf-over N` of the dedupe commands;
C09/C06: the selection and replication options of `group`).

clap stores the parsed value of an option type-erased; `ArgMatches::remove_one::<T>` / `remove_many::<T>` panic ("Mismatch between
definition and access") when T is not the type the option's value parser produced, i.e. the option can never be used.  For every
clap-derived options struct of config.rs the obligation pairs, per option id, the value parser built in `augment_args` (MIR of the
derive expansion: `_infer_ValueParser_for::<T>`, `RangedU64ValueParser[<T>]`, `RangedI64ValueParser[<T>]`, `EnumValueParser<T>`, a
parser function `fn(&str) -> Result<T, _>`) with the access in `from_arg_matches_mut`, and a z3 query over the type-name sorts decides
that no option has two different types.  A mismatch is replayed on the real binary (the option is passed to the sub-command with a
plausible value; exit status 101 = panic)."""
import os
import re
import subprocess

import z3

from common import Inconclusive, Obligation, say

NEW = re.compile(r'clap::Arg::new::<&str>\(const "([A-Za-z0-9_]+)"\)')
ACC = re.compile(r'ArgMatches::(remove_one|remove_many|get_one|get_many|remove_occurrences|get_occurrences)::<(.+?)>\(\s*(?:copy|move)?\s*_\d+, (?:move|copy) (_\d+)\)')
CONST = re.compile(r'(_\d+) = const "([A-Za-z0-9_]+)";')


def _norm(t):
    t = t.strip()
    t = re.sub(r"\b(std|core|alloc)::[a-z_:]*::", "", t)
    return {"String": "String", "std::string::String": "String"}.get(t, t)


def _balanced(s, start):
    """text of the generic argument list starting at s[start] == '<'"""
    depth, i = 0, start
    while i < len(s):
        if s[i] == "<":
            depth += 1
        elif s[i] == ">" and s[i - 1] != "-":
            depth -= 1
            if depth == 0:
                return s[start + 1:i]
        i += 1
    return None


def parser_types(text):
    """option id -> type produced by its value parser (None: not determined)"""
    out = {}
    ms = list(NEW.finditer(text))
    for k, m in enumerate(ms):
        seg = text[m.end(): ms[k + 1].start() if k + 1 < len(ms) else len(text)]
        ty = None
        i = seg.find("_infer_ValueParser_for::<")
        if i >= 0:
            ty = _balanced(seg, i + len("_infer_ValueParser_for::"))
        j = re.search(r"Ranged(U64|I64)ValueParser(::)?(<)?", seg)
        if j:
            # an explicit ranged parser decides the type (default type parameter: u64 / i64)
            if j.group(3):
                ty = _balanced(seg, j.end() - 1)
            elif ty is None or ty in ("u64", "i64"):
                ty = "u64" if j.group(1) == "U64" else "i64"
        f = re.search(r"clap::Arg::value_parser::<for<'a> fn\(&'a str\) -> (?:std::result::)?Result<", seg)
        if f and ty is None:
            inner = _balanced(seg, f.end() - 1)
            if inner:
                ty = _split_top(inner)[0]
        out[m.group(1)] = _norm(ty) if ty else None
    return out


def _split_top(s):
    parts, depth, cur = [], 0, ""
    for c in s:
        if c in "<([":
            depth += 1
        elif c in ">)]":
            depth -= 1
        if c == "," and depth == 0:
            parts.append(cur.strip())
            cur = ""
        else:
            cur += c
    parts.append(cur.strip())
    return parts


def access_types(text):
    consts = dict(CONST.findall(text))
    out = {}
    for m in ACC.finditer(text):
        ident = consts.get(m.group(3))
        if ident:
            out.setdefault(ident, set()).add(_norm(m.group(2)))
    return out


def structs(prog):
    """impl location -> (augment_args text, from_arg_matches_mut text)"""
    res = {}
    for k, f in prog.fns.items():
        m = re.match(r"(?:const )?(.*<impl at [^>]*>)::(augment_args|from_arg_matches_mut)$", k)
        if m:
            res.setdefault(m.group(1), {})[m.group(2)] = f.text
    return {k: v for k, v in res.items() if len(v) == 2}


def struct_name(prog, text):
    m = re.search(r"-> (?:std::result::)?Result<([A-Za-z0-9_:]+), clap::error::Error>", text) or re.search(r"Result<([A-Za-z0-9_:]+), clap::error::Error>", text)
    return m.group(1).split("::")[-1] if m else "?"


def replay(ctx, o, sname, ident, ty):
    """pass the option to every sub-command that has it; a panic (exit status 101) confirms"""
    from common import scratch_root
    import native
    try:
        binp = native.build_binary(ctx.src)
    except Inconclusive as ex:
        o.verdict, o.detail = "inconclusive", "build of the working tree failed: %s" % str(ex)[:200]
        return
    import tempfile
    root = tempfile.mkdtemp(prefix="cli.", dir=scratch_root())
    for i in (1, 2, 3):
        with open(os.path.join(root, "f%d" % i), "w") as f:
            f.write("same bytes\n")
    rep = subprocess.run([binp, "group", root], stdout=subprocess.PIPE, stderr=subprocess.PIPE).stdout
    opt = "--" + ident.replace("_", "-")
    val = {"usize": "2", "u64": "2", "u32": "2", "i64": "2", "bool": None}.get(ty, "2")
    hits = []
    for cmd in (["remove", "--dry-run"], ["link", "--dry-run"], ["move", "--dry-run", os.path.join(root, "t")], ["dedupe", "--dry-run"], ["group", root]):
        argv = [binp] + cmd + ([opt] + ([val] if val is not None else []))
        p = subprocess.run(argv, input=rep, stdout=subprocess.PIPE, stderr=subprocess.PIPE)
        err = p.stderr.decode(errors="replace")
        if p.returncode == 101 or "Mismatch between definition and access" in err:
            hits.append({"argv": argv[1:], "exit": p.returncode, "stderr": err.strip().splitlines()[0][:200] if err.strip() else ""})
    import shutil
    shutil.rmtree(root, ignore_errors=True)
    o.cex["native_replay"] = hits[:3]
    if hits:
        o.stats["traces_validated"] = len(hits)
        o.detail += "; replayed: `fclones %s` panics (%s)" % (" ".join(hits[0]["argv"][:4]), hits[0]["stderr"][:120])
    else:
        o.detail += "; passing the option to the real binary does not panic"


def add(rep, ctx, prog, which=None):
    """which: regex on the struct name (None = all)"""
    found = structs(prog)
    if not found:
        o = Obligation("command-line options: definition and access types agree", "E2 MIR/z3")
        o.verdict, o.detail = "inconclusive", "no clap-derived options struct found in the MIR"
        rep.add(o)
        return
    Ty = z3.DeclareSort("RustType")
    for loc, d in sorted(found.items()):
        sname = struct_name(prog, d["from_arg_matches_mut"])
        if which and not re.search(which, sname):
            continue
        ptys = parser_types(d["augment_args"])
        atys = access_types(d["from_arg_matches_mut"])
        o = Obligation("%s: every option is read back with the type its value parser produces (otherwise using the option panics)" % sname,
                       "E2 MIR of the clap derive expansion / z3 (uninterpreted type sort)", [loc[-60:] + "::augment_args", loc[-60:] + "::from_arg_matches_mut"],
                       "all options of the struct; parsers whose result type is not determinable from the MIR are listed as undetermined")
        o.key = "cli:%s:option-types" % sname
        names = {}

        def c(t):
            if t not in names:
                names[t] = z3.Const("ty_%d" % len(names), Ty)
            return names[t]
        s = z3.Solver()
        pairs, undet = [], []
        for ident, acc in sorted(atys.items()):
            pt = ptys.get(ident)
            if pt is None:
                undet.append(ident)
                continue
            for a in acc:
                pairs.append((ident, pt, a))
                c(pt), c(a)
        if names:
            s.add(z3.Distinct(*names.values()) if len(names) > 1 else z3.BoolVal(True))
        bad = []
        for ident, pt, a in pairs:
            o.queries += 1
            s.push()
            s.add(c(pt) != c(a))
            if s.check() == z3.sat:
                bad.append((ident, pt, a))
            s.pop()
        o.stats = {"options": len(atys), "paired": len(pairs), "undetermined": undet, "states": len(atys), "transitions": len(pairs)}
        if not pairs:
            o.verdict, o.detail = "inconclusive", "no option could be paired (vacuous)"
        elif bad:
            ident, pt, a = bad[0]
            o.verdict = "violated"
            o.key = "cli:%s:%s" % (sname, ident)
            o.cex = {"mismatches": [{"option": i, "parser_type": p, "access_type": x} for i, p, x in bad]}
            o.detail = "option `%s`: the value parser produces %s, the value is read back as %s" % (ident, pt, a)
            replay(ctx, o, sname, ident, a)
        else:
            o.verdict = "holds"
            o.witness = "%d options paired (%d undetermined: %s)" % (len(pairs), len(undet), ", ".join(undet[:6]))
        rep.add(o)
