"""C14: the four report writers and the dispatcher, executed symbolically on two groups (3 files, 1 file).
Formatting calls are recorded as events with the canonical text of their arguments; the all-success path is examined."""
import re

import z3

import listsum
import mirsym
import oblig
import strsum
import summaries
from common import Inconclusive, Obligation
from mirsym import Agg, Bool, EnumV, Event, Int, Lazy, ListV, Ref, Unit

SIZES = (3, 1)


def canon_args(e, st, fa):
    fa = summaries.deref_val(e, st, fa)
    if not (isinstance(fa, Agg) and fa.ty == "fmtargs"):
        return ["?"]
    arr = summaries.deref_val(e, st, fa.fields[1])
    out = []
    if isinstance(arr, Agg):
        for i in sorted(arr.fields):
            a = arr.fields[i]
            v = a.fields[0] if isinstance(a, Agg) and a.ty == "fmtarg" else a
            out.append(e.canon(st, v))
    return out


def s_format(e, st, callee, args, dty):
    r = Lazy(mirsym.sanitize(st.fresh("formatted")), "String")
    st.events.append(Event("call", "formatted", (r,), r, len(st.pc), e.site(st), {"args": canon_args(e, st, args[0])}))
    return r


def s_write_fmt(e, st, callee, args, dty):
    st.events.append(Event("call", "written", (), None, len(st.pc), e.site(st), {"args": canon_args(e, st, args[1])}))
    return EnumV("Result", "Ok", 0, {0: Unit()})


def extras():
    ex = dict(listsum.LIST)
    ex[r"(core::fmt::rt::)?Argument::new_(display|debug)$"] = strsum.s_fmt_argument
    ex[r"^(std::fmt::|core::fmt::)?Arguments::(new|new_const|from_str)$"] = strsum.s_fmt_arguments
    ex[r"^(std::fmt::|alloc::fmt::)?format$"] = s_format
    ex[r"Write>::write_fmt$"] = s_write_fmt
    ex[r"Path::to_escaped_string$"] = summaries.pure("escaped")
    ex[r"^<.* as AsRef>::as_ref$"] = lambda e, st, c, a, d: a[0]
    return ex


def mk_groups():
    mk = lambda i, n: Agg("FileGroup", {0: Lazy("len%d" % i, "file::FileLen"), 1: Lazy("hash%d" % i, "file::FileHash"),
                                       2: ListV([Lazy("p%d_%d" % (i, j), "P") for j in range(n)], "Vec")})
    return ListV([mk(i, n) for i, n in enumerate(SIZES)], "iter")


def run_writer(prog, engs, name, fmt=None):
    f = prog.method("ReportWriter", name)
    eng = oblig.engine(prog, unroll=12, extra=extras(),
                       inline=lambda c, t: oblig.defined_in(prog, t, "report.rs") and not re.search(r"ReportWriter::write(_as_\w+)?$", c))
    engs.append(eng)
    args = [None, fmt, None, mk_groups()] if name == "write" else [None, None, mk_groups()]
    ps = eng.run(f, args=args)
    bad = [p for p in ps if p.status in ("abort", "bound")]
    if bad:
        raise Inconclusive("%s: path %s %s" % (name, bad[0].status, bad[0].note[:160]))
    good = [p for p in ps if p.status == "return" and ((isinstance(p.result, EnumV) and p.result.variant == "Ok") or isinstance(p.result, Lazy))]
    if not good:
        raise Inconclusive("%s: no successful path" % name)
    good.sort(key=lambda p: -len(p.events))
    return eng, good[0]


def evs(p):
    out = []
    for e in p.events:
        if e.kind != "call":
            continue
        a = (e.info or {}).get("args")
        out.append((e.callee, a if isinstance(a, list) else []))
    return out


def add(rep, prog, engs, fn):
    def ob(name, ok, detail, key, functions):
        o = Obligation(name, "E2 mirsym/z3", functions, "2 groups of %d and %d files" % SIZES)
        o.key = key
        o.queries = 1
        o.verdict = "holds" if ok else "violated"
        o.detail = "" if ok else detail
        o.stats = {"states": 1, "transitions": 1}
        if not ok:
            o.cex = {"detail": detail}
        o.witness = "all-success path of the writer examined"
        rep.add(o)

    # ---- text
    eng, p = run_writer(prog, engs, "write_as_text")
    E = evs(p)
    seq, problems = [], []
    i = 0
    hdr_lines = [a for c, a in E if c == "formatted" and a and "stats" in a[0]]
    want_hdr = [["total_file_size", "total_file_size", "total_file_count", "group_count"], ["redundant_file_size", "redundant_file_size", "redundant_file_count"],
                ["missing_file_size", "missing_file_size", "missing_file_count"]]
    hdr_ok = len(hdr_lines) == 3 and all(len(l) == len(w) and all(wf in x for x, wf in zip(l, w)) for l, w in zip(hdr_lines, want_hdr))
    body = [(c, a) for c, a in E if (c == "formatted" and a and a[0].startswith("hash")) or (c == "written" and a and a[0].startswith("escaped_"))]
    exp = []
    for gi, n in enumerate(SIZES):
        exp.append(("formatted", ["hash%d" % gi, "len%d.0" % gi, "len%d" % gi, str(n)]))
        exp += [("written", ["escaped_p%d_%d_" % (gi, j)]) for j in range(n)]
    ob("text writer: the header lines print the statistics fields; each group header prints files.len() and is followed by exactly that many path lines, in order",
       hdr_ok and body == exp, "events: %s" % (body[:12] if body != exp else hdr_lines), "writer:text", fn())

    # ---- fdupes
    eng, p = run_writer(prog, engs, "write_as_fdupes")
    got = [a for c, a in evs(p) if c == "written"]
    exp = []
    for gi, n in enumerate(SIZES):
        exp += [["escaped_p%d_%d_" % (gi, j)] for j in range(n)] + [[]]
    ob("fdupes writer: the paths of each group in order, one blank line after each group", got == exp, "written: %s" % got[:10], "writer:fdupes", fn())

    # ---- csv
    eng, p = run_writer(prog, engs, "write_as_csv")
    E = evs(p)
    qs = [a for c, a in E if c.endswith("WriterBuilder::quote_style")]
    quote_ok = len(qs) == 1 and any(k in qs[0][1] for k in ("Necessary", "Always", "NonNumeric"))
    ts = {}
    for e_ in p.events:
        if e_.kind == "call" and re.search(r"ToString>::to_string$", e_.callee) and isinstance(e_.ret, Lazy):
            ts[e_.ret.name] = (e_.info or {}).get("args", ["?"])[0]
        if e_.kind == "call" and e_.callee.endswith("String::as_str") and isinstance(e_.ret, Lazy):
            ts[e_.ret.name] = ts.get((e_.info or {}).get("args", ["?"])[0], "?")
    recs, cur = [], None
    for c, a in E:
        if c.endswith("StringRecord::new"):
            cur = []
            recs.append(cur)
        elif c.endswith("StringRecord::push_field") and cur is not None and len(a) > 1:
            cur.append(ts.get(a[1], a[1]))
    exp = [["len%d.0" % gi, "hash%d" % gi, str(n)] + ["escaped_p%d_%d_" % (gi, j) for j in range(n)] for gi, n in enumerate(SIZES)]
    nrec = sum(1 for c, a in E if c.endswith("Writer::write_record"))
    ob("CSV writer: one record per group with size, hash, files.len() and the same paths in order; fields are quoted when necessary",
       quote_ok and recs == exp and nrec == len(SIZES) + 1, "quote_style=%s records=%s" % (qs, recs[:2]), "writer:csv", fn())

    # ---- json
    eng, p = run_writer(prog, engs, "write_as_json")
    cell = [e_ for e_ in p.events if e_.kind == "call" and e_.callee.endswith("Cell::new")]
    ok = False
    detail = "no Cell::new of the group iterator"
    if cell:
        v = cell[0].args[0]
        lst = v.fields.get(0) if isinstance(v, EnumV) and v.variant == "Some" else None
        if isinstance(lst, ListV) and len(lst.items) == len(SIZES):
            ok = True
            st = mirsym.State()
            st.mem = p.mem
            for gi, (g, n) in enumerate(zip(lst.items, SIZES)):
                if not isinstance(g, Agg):
                    ok = False
                    break
                names = [eng.canon(st, x) for x in (g.fields.get(2).items if isinstance(g.fields.get(2), ListV) else [])]
                if eng.canon(st, g.fields.get(0)) != "len%d" % gi or eng.canon(st, g.fields.get(1)) != "hash%d" % gi or names != ["p%d_%d" % (gi, j) for j in range(n)]:
                    ok = False
                    detail = "group %d serialised as %s" % (gi, repr(g)[:200])
        else:
            detail = "serialised groups: %s" % repr(v)[:200]
    tw = [a for c, a in evs(p) if c.endswith("to_writer_pretty")]
    ok = ok and len(tw) == 1 and "header" in tw[0][1]
    ob("JSON writer: the same length, hash and files (in order) of every group are serialised together with the header", ok, detail, "writer:json", fn())

    # ---- dispatcher
    variants = prog.src.enums.get("OutputFormat")
    if not variants:
        raise Inconclusive("enum OutputFormat not found")
    want = {"Default": "write_as_text", "Fdupes": "write_as_fdupes", "Csv": "write_as_csv", "Json": "write_as_json"}
    ok, detail = True, ""
    for idx, v in enumerate(variants):
        eng, p = run_writer(prog, engs, "write", EnumV("OutputFormat", v, idx, {}))
        calls = [(c, a) for c, a in evs(p) if re.search(r"ReportWriter::write_as_\w+$", c)]
        if v not in want:
            continue
        if len(calls) != 1 or not calls[0][0].endswith(want[v]) or calls[0][1][:2] != ["self", "header"] or "p0_0" not in calls[0][1][2] and "len0" not in calls[0][1][2]:
            ok = False
            detail = "format %s dispatched to %s" % (v, calls)
    ob("ReportWriter::write: every format is handed to its own writer with the same header and groups", ok, detail, "writer:dispatch", fn())
