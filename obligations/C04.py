"""C04 - a stale report never causes removal of changed data.

E2: (O1) dedupe::partition (list model, <= 3 files, all sub-group distributions): only regular files of the recorded
length are eligible, and with a time limit every eligible file passed the modification-time check; was_modified is true
iff some file's mtime is unreadable or later than the limit; fetch_files_metadata drops the whole group when one member
cannot be stat'ed.  (O2) run_dedupe: the limit defaults to the report's timestamp, the size check is switched off only
for transformed groups.  (O3) the report timestamp is taken before the first file is read."""
import re

import z3

import mirsym
import oblig
import summaries
from common import Inconclusive, Obligation, Report
from mirsym import Agg, Bool, EnumV, Int, Lazy, ListV, Ref
from obligations import dedupe_part as dp
from obligations import part_common


def called(p, pattern):
    return [e for e in p.events if e.kind == "call" and re.search(pattern, e.callee)]



def was_modified_obligations(rep, prog):
    """was_modified: result semantics and what is compared (shared with C02, whose statement rests on the same staleness check)"""
    # was_modified semantics
    try:
        eng, paths = dp.was_modified_semantics(prog)

        def prop(p):
            if not isinstance(p.result, Bool):
                return z3.BoolVal(False)
            terms = []
            for i in range(2):
                err = z3.BitVec(mirsym.sanitize("modified(f%d.metadata.metadata)#d" % i), 64) == 1
                cmp_ = [ev for ev in p.events if ev.kind == "call" and ev.info and ev.info.get("pure") == "time_cmp"]
                terms.append(err)
            cmps = [ev.ret.t for ev in p.events if ev.kind == "call" and ev.info and ev.info.get("pure") == "time_cmp" and isinstance(ev.ret, Bool)]
            gt_only = all(re.search(r"::gt$", ev.callee) for ev in p.events if ev.kind == "call" and ev.info and ev.info.get("pure") == "time_cmp")
            want = z3.Or(*(terms + cmps))
            return z3.And(p.result.t == want, z3.BoolVal(gt_only))
        o = oblig.check_paths(eng, paths, "was_modified == some member's mtime is unreadable or later than the limit", prop, oblig.fnames(eng),
                              bounds="2 files, loop unrolled", key="was_modified:semantics")
        rep.add(o)
        # what is compared: both operands are instants - the file's mtime and the limit, each converted by an offset-preserving
        # conversion only (a wall-clock reading re-interpreted in another zone is a different instant)
        import summaries
        KEEP = r"Into(<.*>)?>::into$|From(<.*>)?>::from$|::with_timezone$|::to_utc$|::fixed_offset$|[Cc]lone>::clone$|[Dd]eref"

        def root(p, st, v):
            trail = []
            for _ in range(8):
                cn = summaries.canon(eng, st, v).strip().lstrip("&").rstrip("*")
                prod = [ev for ev in p.events if ev.kind == "call" and ev.ret is not None and ev.args
                        and summaries.canon(eng, st, ev.ret).strip().lstrip("&").rstrip("*") == cn and not (ev.info and ev.info.get("pure") == "modified")]
                if not prod:
                    return cn, trail
                trail.append(prod[0].callee)
                if not re.search(KEEP, prod[0].callee):
                    return "<%s>" % prod[0].callee.split("::")[-1], trail
                v = prod[0].args[0]
            return None, trail

        def cprop(p):
            cmps = [ev for ev in p.events if ev.kind == "call" and ev.info and ev.info.get("pure") == "time_cmp"]
            if not cmps:
                return None
            st = mirsym.State()
            st.mem, st.pc = p.mem, list(p.pc)
            ok = True
            for ev in cmps:
                l, _ = root(p, st, ev.args[0])
                r, _ = root(p, st, ev.args[1])
                ok = ok and bool(l and re.match(r"modified[_(]f\d", l)) and r == "after"
            return z3.BoolVal(bool(ok))
        o = oblig.check_paths(eng, paths, "was_modified compares instants: the file's mtime with the limit argument, both through offset-preserving conversions only",
                              cprop, oblig.fnames(eng), bounds="2 files, loop unrolled", key="was_modified:operands")
        rep.add(o)
    except Inconclusive as ex:
        o = Obligation("was_modified semantics", "E2 mirsym/z3")
        o.verdict, o.detail = "inconclusive", str(ex)
        rep.add(o)

def run():
    rep = Report(
        "C04", "other",
        "Bounded symbolic execution (mirsym/z3, list model): dedupe::partition on groups of 2-3 files for every sub-group "
        "distribution with stat results, pattern matches and time comparisons as free pure functions; was_modified on 2 files; "
        "the header merge of run_dedupe (binary MIR); the order clock-read / first-file-read in run_group.  z3 decides that "
        "a file is only ever classified if it is a regular file of the recorded length and (with a limit) no member is newer "
        "than the limit or unreadable.",
        assumptions=["Metadata::is_file/len/modified and the DateTime comparison are deterministic functions of the file state",
                     "FileSubGroup::group returns a partition of its input (contract)", "mtime-preserving replacement is outside the guarantee (as in the property)"],
        outside=["TOCTOU between the dedupe run's stat and its unlink", "rayon scheduling", "chrono parsing of the header timestamp"])
    ctx = oblig.Ctx()
    prog = ctx.lib
    oblig.install_battery(rep, ctx, ["c04_battery"])
    part_common.add(rep, prog, ["stale-filter", "mtime-check", "no-loss-no-dup"], "C04", part_common.make_replayer(ctx))

    was_modified_obligations(rep, prog)

    # fetch_files_metadata: one unreadable member => None
    try:
        eng = oblig.engine(prog, unroll=0)
        f = prog.find(r"^(dedupe::)?fetch_files_metadata$")
        ps = eng.run(f)

        def prop(p):
            tm = called(p, r"try_map_all$")
            ok = len(tm) == 1 and called(p, r"Result::ok$")
            return z3.BoolVal(bool(ok))
        rep.add(oblig.check_paths(eng, ps, "fetch_files_metadata: the group is dropped unless every member can be stat'ed (try_map_all(..).ok())",
                                  prop, oblig.fnames(eng), key="fetch_files_metadata"))
        tma = prog.method("FileGroup", "try_map_all")
        e2 = oblig.engine(prog, unroll=3, extra=dict(__import__("listsum").LIST))
        # try_map_all on a list of 2: any Err => Err
        ps = e2.run(tma)
        rep.add(oblig.check_paths(e2, ps, "try_map_all: explored (iterator plumbing is std)", lambda p: None, oblig.fnames(e2), need_witness=False,
                                  key="try_map_all", allow=("return", "panic", "diverge", "bound", "abort")))
    except Inconclusive as ex:
        o = Obligation("fetch_files_metadata", "E2 mirsym/z3")
        o.verdict, o.detail = "inconclusive", str(ex)
        rep.add(o)

    # O2: run_dedupe merges the header
    try:
        binp = ctx.bin
        eng = oblig.engine(binp, unroll=0)
        rd = binp.find(r"(^|::)run_dedupe$")
        ps = eng.run(rd)
        seen = [0]

        def prop(p):
            d = called(p, r"(^|::)dedupe$")
            if not d:
                return None
            seen[0] += 1
            cfg = summaries.deref_val(eng, _st(p), d[0].args[2]) if len(d[0].args) > 2 else None
            if not isinstance(cfg, (Agg, Lazy)):
                return z3.BoolVal(False)
            fi = binp.src.field_index
            mb = eng.read_proj(None, cfg, ("field", fi("DedupeConfig", "modified_before"), "Option<DateTime<FixedOffset>>"))
            # either the user's value (Some) or the header's timestamp
            ok_mb = False
            ts_idx = fi("ReportHeader", "timestamp")
            if isinstance(mb, EnumV) and mb.variant == "Some":
                nm = summaries.canon(eng, _st(p), mb.fields.get(0))
                ok_mb = bool(re.search(r"read_header@Ok\.0\.(timestamp|%d)$" % ts_idx, nm))
            elif isinstance(mb, Lazy):
                # untouched: only allowed when the user supplied a value
                ok_mb = eng.check(*(list(p.pc) + [z3.BitVec(mirsym.sanitize(mb.name + "#d"), 64) == 0])) == z3.unsat
            return z3.BoolVal(bool(ok_mb))
        o = oblig.check_paths(eng, ps, "run_dedupe: --modified-before defaults to the timestamp recorded in the report header", prop,
                              oblig.fnames(eng), key="run_dedupe:modified-before", allow=("return", "panic", "diverge", "bound"))
        rep.add(o)
    except Inconclusive as ex:
        o = Obligation("run_dedupe header merge", "E2 mirsym/z3")
        o.verdict, o.detail = "inconclusive", str(ex)
        rep.add(o)
    # O3: the report timestamp is a clock value read before the first file is scanned, converted without shifting it
    try:
        time_order(rep, ctx)
    except Inconclusive as ex:
        o = Obligation("report timestamp precedes the scan", "E2 mirsym/z3")
        o.verdict, o.detail = "inconclusive", str(ex)
        rep.add(o)
    return rep


CLOCK = r"(Local|Utc)::now$|SystemTime::now$"
TPURE = {
    r"(Local|Utc)::now$|SystemTime::now$": summaries.pure("clock_now"),
    r"DateTime(<.*>)?::naive_utc$": summaries.pure("naive_utc"),
    r"DateTime(<.*>)?::naive_local$": summaries.pure("naive_local"),
    r"DateTime(<.*>)?::offset$": summaries.pure("offset"),
    r"DateTime(<.*>)?::fixed_offset$": summaries.pure("fixed_offset"),
    r"DateTime(<.*>)?::from_naive_utc_and_offset$": summaries.pure("from_naive_utc_and_offset"),
    r"DateTime(<.*>)?::from_local$|DateTime(<.*>)?::from_utc$": summaries.pure("from_other"),
}


# a small model of the chrono values the writer handles: an instant is (UTC milliseconds, offset in seconds)
NOW_UTC = z3.BitVec("now_utc_ms", 64)
NOW_OFF = z3.BitVec("now_offset_s", 32)


def _is_now(e, st, v):
    v = summaries.deref_val(e, st, v)
    return isinstance(v, Lazy) and v.name in ("now", "start_time", "timestamp", "time") or (isinstance(v, Agg) and v.ty == "DateTimeModel")


def _parts(e, st, v):
    v = summaries.deref_val(e, st, v)
    if isinstance(v, Agg) and v.ty == "DateTimeModel":
        return v.fields[0], v.fields[1]
    if isinstance(v, Lazy):
        return Agg("NaiveDateTime", {0: Int(NOW_UTC, "i64")}), Agg("FixedOffset", {0: Int(NOW_OFF, "i32")})
    return None


def _m_naive_utc(e, st, c, a, d):
    p = _parts(e, st, a[0])
    return p[0] if p else NotImplemented


def _m_offset(e, st, c, a, d):
    """DateTime::offset returns a reference to the offset"""
    p = _parts(e, st, a[0])
    if not p:
        return NotImplemented
    cell = "tz_off_cell_%d" % len([k for k in st.mem if str(k).startswith("tz_off_cell_")])
    st.mem[cell] = p[1]
    return Ref(cell, (), False)


def _m_from_utc_off(e, st, c, a, d):
    n, o = summaries.deref_val(e, st, a[0]), summaries.deref_val(e, st, a[1])
    if isinstance(n, Agg) and n.ty == "NaiveDateTime" and isinstance(o, Agg) and o.ty == "FixedOffset":
        return Agg("DateTimeModel", {0: n, 1: o})
    return NotImplemented


def _m_east(sign):
    def f(e, st, c, a, d):
        if not isinstance(a[0], Int):
            return NotImplemented
        t = a[0].t if sign > 0 else -a[0].t
        v = Agg("FixedOffset", {0: Int(t, "i32")})
        return EnumV("Option", "Some", 1, {0: v}) if c.endswith("_opt") else v
    return f


def _m_local_minus_utc(e, st, c, a, d):
    o = summaries.deref_val(e, st, a[0])
    if isinstance(o, Agg) and o.ty == "FixedOffset":
        return o.fields[0]
    return NotImplemented


def _m_keep_instant(off_zero):
    def f(e, st, c, a, d):
        p = _parts(e, st, a[0])
        if not p:
            return NotImplemented
        return Agg("DateTimeModel", {0: p[0], 1: Agg("FixedOffset", {0: Int(z3.BitVecVal(0, 32), "i32")}) if off_zero else p[1]})
    return f


TMODEL = {
    r"(Local|Utc)::now$|SystemTime::now$": summaries.pure("clock_now"),
    r"DateTime(<.*>)?::naive_utc$": _m_naive_utc,
    r"DateTime(<.*>)?::offset$": _m_offset,
    r"DateTime(<.*>)?::from_naive_utc_and_offset$": _m_from_utc_off,
    r"DateTime(<.*>)?::fixed_offset$": _m_keep_instant(False),
    r"DateTime(<.*>)?::to_utc$": _m_keep_instant(True),
    r"FixedOffset::east(_opt)?$": _m_east(1),
    r"FixedOffset::west(_opt)?$": _m_east(-1),
    r"FixedOffset::local_minus_utc$": _m_local_minus_utc,
    r"FixedOffset::utc_minus_local$": lambda e, st, c, a, d: (lambda r: Int(-r.t, "i32") if isinstance(r, Int) else NotImplemented)(_m_local_minus_utc(e, st, c, a, d)),
    r"Offset>::fix$": lambda e, st, c, a, d: summaries.deref_val(e, st, a[0]) if isinstance(summaries.deref_val(e, st, a[0]), Agg) else NotImplemented,
    r"DateTime(<.*>)?::naive_local$": summaries.pure("naive_local"),
    r"DateTime(<.*>)?::from_local$|DateTime(<.*>)?::from_utc$": summaries.pure("from_other"),
}


def time_order(rep, ctx):
    binp, lib = ctx.bin, ctx.lib
    eb = oblig.engine(binp, unroll=0, extra=TPURE)
    rg = binp.find(r"(^|::)run_group$")
    ps = eb.run(rg)
    writer_name = [None]

    def order_prop(p):
        gf = called(p, r"(^|::)group_files$")
        wr = called(p, r"write_report")
        if not gf or not wr:
            return None
        writer_name[0] = wr[0].callee
        gi = p.events.index(gf[0])
        clocks = [ev for ev in p.events[:gi] if ev.kind == "call" and re.search(CLOCK, ev.callee)]
        st = _st(p)
        passed = False
        for c in clocks:
            cn = summaries.canon(eb, st, c.ret)
            for a in wr[0].args:
                if cn and cn in summaries.canon(eb, st, a):
                    passed = True
        return z3.BoolVal(passed)
    o = oblig.check_paths(eb, ps, "run_group: the clock is read before group_files starts and that value is handed to the report writer",
                          order_prop, oblig.fnames(eb), key="timestamp:read-before-scan", allow=("return", "panic", "diverge", "bound"))
    if o.verdict == "violated":
        replay_time(o, ctx)
    rep.add(o)

    # the writer stores exactly that instant
    import optsum as _os
    el = oblig.engine(lib, unroll=0, extra=dict(_os.SUMMARIES, **TMODEL))
    wname = meth = "write_report"
    cands = [f for n, f in lib.fns.items() if re.search(r"(^|::)write_report(_\w+)?$", n) and "{closure" not in n]
    fi = lib.src.field_index
    built = [0]
    for f in cands:
        ps = el.run(f)

        def ts_prop(p, f=f):
            hdr = None
            for cell, v in p.mem.items():
                if isinstance(v, Agg) and v.ty == "ReportHeader":
                    hdr = v
            if hdr is None:
                return None
            ts = hdr.fields.get(fi("ReportHeader", "timestamp"))
            inner_clock = [ev for ev in p.events if ev.kind == "call" and re.search(CLOCK, ev.callee)]
            # the header's instant is the given one, and its offset is a whole number of minutes: the text and JSON formats record
            # the offset as +hhmm / +hh:mm, so a sub-minute part would move the instant that is read back (and with it the default
            # --modified-before) by up to 59 s
            tsv = summaries.deref_val(el, _st(p), ts)
            if not (isinstance(tsv, Agg) and tsv.ty == "DateTimeModel"):
                return z3.BoolVal(False)
            u, o_ = tsv.fields[0], tsv.fields[1]
            if not (isinstance(u, Agg) and isinstance(u.fields.get(0), Int) and isinstance(o_, Agg) and isinstance(o_.fields.get(0), Int)):
                return z3.BoolVal(False)
            has_param = any("DateTime" in ty or "SystemTime" in ty for _, ty in f.args)
            src_ok = (not inner_clock) if has_param else True
            return z3.And(u.fields[0].t == NOW_UTC, z3.SRem(o_.fields[0].t, z3.BitVecVal(60, 32)) == 0, z3.BoolVal(src_ok))
        o2 = oblig.check_paths(el, ps, "%s: the header timestamp is the given instant, with an offset of whole minutes (what the report formats can carry)" % f.name.split("::")[-1],
                               ts_prop, oblig.fnames(el), key="timestamp:conversion", allow=("return", "panic", "diverge", "bound"), need_witness=False)
        if o2.stats.get("relevant_paths", 0) == 0:
            continue            # a thin wrapper that does not build the header itself
        built[0] += 1
        if o2.verdict == "violated":
            replay_tz(o2, ctx)
        rep.add(o2)
    if not built[0]:
        raise Inconclusive("no write_report* function builds the report header")


def replay_time(o, ctx):
    """native: a file is rewritten (same length) after `group` has read it but before the report is written; then `remove` runs"""
    import os, shutil, subprocess, tempfile, time
    import native
    try:
        binary = native.build_binary(ctx.src)
    except Inconclusive as e:
        o.verdict, o.detail = "inconclusive", "replay build failed: %s" % e
        return
    d = tempfile.mkdtemp(prefix="c04replay.")
    try:
        root = os.path.join(d, "root")
        os.makedirs(root)
        a, b = os.path.join(root, "a.bin"), os.path.join(root, "b.bin")
        for p in (a, b):
            open(p, "wb").write(b"ORIGINAL-CONTENT" * 64)
            os.utime(p, (time.time() - 1000, time.time() - 1000))
        slow = os.path.join(d, "slowcat.sh")
        open(slow, "w").write("#!/bin/sh\ncat\ntouch %s/read.$$\nsleep 2\n" % d)
        os.chmod(slow, 0o755)
        env = dict(os.environ, HOME=d, XDG_CACHE_HOME=os.path.join(d, "cache"), PATH=d + ":" + os.environ.get("PATH", ""))
        rep_path = os.path.join(d, "report.txt")
        with open(rep_path, "wb") as out:
            pr = subprocess.Popen([binary, "group", "--transform", "slowcat.sh", root], stdout=out, stderr=subprocess.DEVNULL, env=env)
            for _ in range(300):       # wait until both files have been read by the transform
                if len([n for n in os.listdir(d) if n.startswith("read.")]) >= 2:
                    break
                time.sleep(0.1)
            with open(b, "r+b") as f:         # same length, different bytes, fresh mtime
                f.write(b"CHANGED-CONTENTS" * 64)
            pr.wait(timeout=120)
        with open(rep_path, "rb") as inp:
            r = subprocess.run([binary, "remove"], stdin=inp, stdout=subprocess.PIPE, stderr=subprocess.PIPE, env=env, timeout=120)
        lost = not os.path.exists(b) or not os.path.exists(a)
        survivors = [open(p, "rb").read()[:7] for p in (a, b) if os.path.exists(p)]
        o.cex["native_replay"] = {"scenario": "b.bin rewritten (same length, new mtime) 1.5 s into `group --transform slowcat.sh`, then `remove`",
                                  "file_removed": lost, "surviving_contents": [s.decode() for s in survivors],
                                  "stderr": r.stderr.decode(errors="replace")[-200:]}
        changed_lost = lost and b"CHANGED" not in b"".join(survivors) or lost and b"ORIGINA" not in b"".join(survivors)
        if changed_lost:
            o.stats["traces_validated"] = 1
            o.detail += "; replayed natively: a file rewritten during the `group` run (mtime later than the read, earlier than the report's timestamp) was deduplicated: surviving contents %s" % [s.decode() for s in survivors]
        else:
            o.detail += "; " + "counterexample did not reproduce natively"
    finally:
        shutil.rmtree(d, ignore_errors=True)


def replay_tz(o, ctx):
    import os, shutil, subprocess, tempfile, time
    import native
    try:
        binary = native.build_binary(ctx.src)
    except Inconclusive as e:
        o.verdict, o.detail = "inconclusive", "replay build failed: %s" % e
        return
    d = tempfile.mkdtemp(prefix="c04tz.")
    try:
        root = os.path.join(d, "root")
        os.makedirs(root)
        for n in ("a.bin", "b.bin"):
            open(os.path.join(root, n), "wb").write(b"x" * 100)
        devs = []
        for tz in ("UTC", "Europe/Warsaw", "America/New_York", "Asia/Tokyo"):
            env = dict(os.environ, HOME=d, XDG_CACHE_HOME=os.path.join(d, "cache"), TZ=tz)
            t0 = time.time()
            r = subprocess.run([binary, "group", root], stdout=subprocess.PIPE, stderr=subprocess.PIPE, env=env, timeout=60)
            t1 = time.time()
            m = re.search(rb"# Timestamp: (\d+-\d+-\d+ \d+:\d+:\d+\.\d+) ([+-]\d{4})", r.stdout)
            if not m:
                continue
            import datetime
            ts = datetime.datetime.strptime(m.group(1).decode() + " " + m.group(2).decode(), "%Y-%m-%d %H:%M:%S.%f %z").timestamp()
            if not (t0 - 2 <= ts <= t1 + 2):
                devs.append({"TZ": tz, "header_timestamp_minus_now_s": round(ts - t1)})
        o.cex["native_replay"] = devs
        if devs:
            o.stats["traces_validated"] = 1
            o.detail += "; replayed natively: header timestamp is off by %s" % devs[:2]
        else:
            o.detail += "; " + "counterexample did not reproduce natively"
    finally:
        shutil.rmtree(d, ignore_errors=True)


def _st(p):
    st = mirsym.State()
    st.mem = p.mem
    st.pc = list(p.pc)
    return st
