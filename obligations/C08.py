"""C08 - dedupe obeys keep/drop patterns, priorities, link sets and -n (claimed in part).

E2: dedupe::partition (list model; shared with C02/C04): keep / drop patterns at sub-group level, sub-groups atomic, top-up
from the front of the report order up to n = max(1, rf_over.unwrap_or(1)); sort_by_priority: key and direction per
Priority variant against the documented meaning, priorities applied last-to-first with std's stable sort;
run_dedupe: the four settings inherited from the report header."""
import re

import z3

import listsum
import mirsym
import oblig
import summaries
from common import Inconclusive, Obligation, Report
from mirsym import Agg, Bool, EnumV, FnV, Int, Lazy, ListV, Ref
from obligations import dedupe_part as dp
from obligations import part_common

# variant -> (accessor regex or None, reversed?, how)
TABLE = {
    "Top": (None, None, "reverse"), "Bottom": (None, None, "nothing"),
    "Newest": (r"created$", False, "try_sort"), "Oldest": (r"created$", True, "try_sort"),
    "MostRecentlyModified": (r"modified$", False, "try_sort"), "LeastRecentlyModified": (r"modified$", True, "try_sort"),
    "MostRecentlyAccessed": (r"accessed$", False, "try_sort"), "LeastRecentlyAccessed": (r"accessed$", True, "try_sort"),
    "MostRecentStatusChange": (r"status_changed$", False, "try_sort"), "LeastRecentStatusChange": (r"status_changed$", True, "try_sort"),
    "MostNested": (r"max_nesting$", False, "sort"), "LeastNested": (r"min_nesting$", True, "sort"),
}
STABLE = r"(^|::)(sort_by_key|sort_by|sort_by_cached_key|sort)$"
UNSTABLE = r"sort_unstable|select_nth|par_sort_unstable"


def called(p, pattern):
    return [e for e in p.events if e.kind == "call" and re.search(pattern, e.callee)]


def run():
    rep = Report(
        "C08", "other",
        "Bounded symbolic execution (mirsym/z3): dedupe::partition with the list model (2-3 files, every sub-group distribution, "
        "pattern matches as free per-path predicates): a sub-group is dropped only if none of its paths matches a keep pattern "
        "and all match the drop patterns, sub-groups are atomic, and exactly the sub-groups ranked last are dropped so that "
        "n = max(1, rf_over.unwrap_or(1)) survive; sort_by_priority per Priority variant (key accessor, direction); application "
        "order of several priorities and use of a stable std sort; run_dedupe's merge of the header settings.",
        assumptions=["FileSubGroup::group returns a partition of its input (hard-link sub-grouping itself is outside, see C06)",
                     "std's sort_by_key / sort_by are stable", "glob matching itself is C16"],
        outside=["hard-link / isolate sub-grouping (IndexMap)", "clap's own parsing of the option values", "glob matcher (C16)"])
    ctx = oblig.Ctx()
    oblig.install_battery(rep, ctx, ["c08_battery"])
    prog = ctx.lib
    part_common.add(rep, prog, ["patterns", "atomic-subgroups", "top-up-order", "retention-count", "subgroup-args"], "C08", part_common.make_replayer(ctx))

    # ---- sort_by_priority per variant
    try:
        sbp = prog.find(r"^(dedupe::)?sort_by_priority$")
        eng = oblig.engine(prog, unroll=0)
        bad, seen = [], 0
        for variant, (acc, rev, how) in TABLE.items():
            idx = prog.src.variant_index("Priority", variant)
            if idx is None:
                raise Inconclusive("Priority::%s not found in the source" % variant)
            mem = {"prio": EnumV("Priority", variant, idx, {})}
            ps = eng.run(sbp, args=[None, Ref("prio", (), False)], mem=mem)
            for p in ps:
                if p.status != "return":
                    continue
                seen += 1
                tsk = called(p, r"(^|::)try_sort_by_key$")
                srt = called(p, STABLE)
                revs = called(p, r"::reverse$")
                uns = called(p, UNSTABLE)
                ok = not uns
                if how == "reverse":
                    ok = ok and len(revs) == 1 and not tsk and not srt
                elif how == "nothing":
                    ok = ok and not revs and not tsk and not srt
                else:
                    calls = tsk if how == "try_sort" else srt
                    ok = ok and len(calls) == 1 and not revs
                    if ok:
                        clo = oblig.closure_value(calls[0].args[1])
                        if clo is None:
                            ok = False
                        else:
                            _, qs = oblig.run_closure(prog, clo, p, eng=eng, unroll=0)
                            for q in qs:
                                accs = [e for e in q.events if e.kind == "call" and re.search(r"(created|modified|accessed|status_changed|max_nesting|min_nesting)$", e.callee)]
                                got_acc = len(accs) == 1 and bool(re.search(acc, accs[0].callee))
                                r = q.result
                                got_rev = ("Reverse" in repr(r)) or any(isinstance(a, FnV) and "Reverse" in a.name for e in q.events if e.kind == "call" for a in e.args)
                                ok = ok and got_acc and (got_rev == rev)
                if not ok:
                    bad.append(variant)
        o = Obligation("sort_by_priority: key and direction of each of the 12 priorities match their documentation", "E2 mirsym/z3",
                       oblig.fnames(eng), "12 variants")
        o.key = "sort_by_priority:table"
        o.queries = eng.queries
        o.stats = {"paths": seen, "states": seen, "transitions": seen}
        if bad:
            o.verdict, o.detail = "violated", "priorities with a wrong key / direction / unstable sort: %s" % bad
            o.cex = {"variants": bad, "native_replay": "not replayed natively (term-level obligation)"}
        elif seen < len(TABLE):
            o.verdict, o.detail = "inconclusive", "only %d of %d variants explored" % (seen, len(TABLE))
        else:
            o.verdict = "holds"
        rep.add(o)
    except Inconclusive as ex:
        o = Obligation("sort_by_priority table", "E2 mirsym/z3")
        o.verdict, o.detail = "inconclusive", str(ex)
        rep.add(o)

    # ---- try_sort_by_key uses a stable sort
    try:
        eng = oblig.engine(prog, unroll=2)
        tsk = prog.find(r"(^|::)try_sort_by_key$")
        ps = eng.run(tsk)

        def prop(p):
            if p.status != "return":
                return None
            return z3.BoolVal(bool(called(p, STABLE)) and not called(p, UNSTABLE))
        o = oblig.check_paths(eng, ps, "try_sort_by_key sorts with a stable std sort (ties keep report order; chained priorities)", prop,
                              oblig.fnames(eng), key="try_sort_by_key:stable", allow=("return", "panic", "diverge", "bound"))
        if o.verdict == "violated":
            replay_sort(o, ctx)
        rep.add(o)
    except Inconclusive as ex:
        o = Obligation("try_sort_by_key stability", "E2 mirsym/z3")
        o.verdict, o.detail = "inconclusive", str(ex)
        rep.add(o)

    # ---- several priorities are applied from the last to the first
    try:
        import optsum
        extra = dict(optsum.SUMMARIES)
        extra.update(listsum.LIST)
        extra.update(dp.PURE)
        extra[r"^(group::)?FileSubGroup::group$|FileSubGroup<.*>::group$"] = dp.group_summary([[0], [1]])

        def s_sbp(e, st, callee, args, dty):
            st.events.append(mirsym.Event("call", "sort_by_priority", tuple(args), None, len(st.pc), e.site(st)))
            return ListV((), "Vec")       # no metadata errors
        extra[r"(^|::)sort_by_priority$"] = s_sbp
        eng = oblig.engine(prog, unroll=4, inline=dp.dedupe_inliner(prog), extra=extra)
        part = prog.find(r"^(dedupe::)?partition$")
        fi = prog.src.field_index
        files = [Lazy("f%d" % i, "dedupe::PathAndMetadata") for i in range(2)]
        group = Agg("FileGroup", {fi("FileGroup", "file_len"): Lazy("glen", "file::FileLen"), fi("FileGroup", "file_hash"): Lazy("ghash", "file::FileHash"),
                                  fi("FileGroup", "files"): ListV(files, "Vec")})
        pr = [EnumV("Priority", v, prog.src.variant_index("Priority", v), {}) for v in ("Newest", "MostNested")]
        cfg = Agg("DedupeConfig", {fi("DedupeConfig", "priority"): ListV(pr, "Vec")}, base="config*")
        mem = {"cfgcell": cfg}
        ps = eng.run(part, args=[group, Ref("cfgcell", (), False), None], mem=mem)

        def prop(p):
            sb = called(p, r"(^|::)sort_by_priority$")
            if p.status != "return" or not sb:
                return None
            st = _st(p)
            order = [summaries.canon(eng, st, e.args[1]) for e in sb]
            return z3.BoolVal(len(order) == 2 and "MostNested" in order[0] and "Newest" in order[1])
        rep.add(oblig.check_paths(eng, ps, "partition: priorities are applied from the last to the first (the first one dominates)", prop,
                                  oblig.fnames(eng), bounds="2 files, priorities [Newest, MostNested]", key="partition:priority-order",
                                  allow=("return", "panic", "diverge")))
    except Inconclusive as ex:
        o = Obligation("priority application order", "E2 mirsym/z3")
        o.verdict, o.detail = "inconclusive", str(ex)
        rep.add(o)

    # ---- header settings inherited by run_dedupe
    try:
        binp = ctx.bin
        eng = oblig.engine(binp, unroll=0, inline=r"config::<impl[^>]*>::(rf_over)$")
        rd = binp.find(r"(^|::)run_dedupe$")
        ps = eng.run(rd)
        fi = binp.src.field_index
        GROUP = binp.src.variant_index("Command", "Group")

        def canonicalising(ev, p):
            if re.search(r"canonicalize|dunce::", ev.callee):
                return True
            for a in (ev.args or ()):
                c = oblig.closure_value(a)
                if c is not None:
                    try:
                        _, qs = oblig.run_closure(binp, c, p, eng=eng, unroll=0)
                    except Inconclusive:
                        continue
                    if any(re.search(r"canonicalize|dunce::", e2.callee) for q in qs for e2 in q.events if e2.kind == "call"):
                        return True
            return False

        def producer(p, v):
            for ev in p.events:
                if ev.kind == "call" and ev.ret is not None and (ev.ret is v or (isinstance(v, Lazy) and isinstance(ev.ret, Lazy) and ev.ret.name == v.name)):
                    return ev
            return None

        def origin(p, st, v, depth=10):
            """where an isolate-roots value comes from: 'cli' (the DedupeConfig given on the command line), ('header', canon of the
            GroupConfig whose input_paths were taken) or None"""
            for _ in range(depth):
                if isinstance(v, Lazy) and v.name == "config.isolated_roots":
                    return "cli"
                if isinstance(v, mirsym.Ref):
                    c = summaries.canon(eng, st, v)
                    if "config.isolated_roots" in c:
                        return "cli"
                    v = summaries.deref_val(eng, st, v)
                    continue
                ev = producer(p, v)
                if ev is None:
                    return None
                if re.search(r"GroupConfig::input_paths$", ev.callee):
                    return ("header", summaries.canon(eng, st, ev.args[0]))
                v = ev.args[0] if ev.args else None
            return None

        def prop(p):
            d = called(p, r"(^|::)dedupe$")
            if not d:
                return None
            st = _st(p)
            cfg = summaries.deref_val(eng, st, d[0].args[2])
            gsym = None
            for c in p.pc:
                m = re.search(r"([\w@.*#]+command)#d", str(c))
                if m:
                    gsym = m.group(1)
            if gsym is None or eng.check(*(list(p.pc) + [z3.BitVec(mirsym.sanitize(gsym + "#d"), 64) != GROUP])) != z3.unsat:
                return None
            f = lambda n, t="?": eng.read_proj(None, cfg, ("field", fi("DedupeConfig", n), t))
            gname = gsym + "@Group.0"
            B = lambda n: z3.Bool(mirsym.sanitize(n))
            ml, ncs, rf, roots = f("match_links", "bool"), f("no_check_size", "bool"), f("rf_over", "Option<usize>"), f("isolated_roots")
            conj = []
            conj.append(isinstance(ml, Bool) and z3.simplify(ml.t == z3.Or(B("config.match_links"), B(gname + ".match_links"))))
            conj.append(isinstance(ncs, Bool) and z3.simplify(ncs.t == z3.Or(B("config.no_check_size"), z3.BitVec(mirsym.sanitize(gname + ".transform#d"), 64) == 1)))
            cli_rf_none = z3.BitVec("config.rf_over#d", 64) == 0
            rfc = called(p, r"GroupConfig::rf_over$")
            if isinstance(rf, EnumV) and rf.variant == "Some":
                from_hdr = len(rfc) == 1 and isinstance(rf.fields.get(0), Int) and isinstance(rfc[0].ret, Int) and rf.fields[0].t.eq(rfc[0].ret.t) and gname in summaries.canon(eng, st, rfc[0].args[0])
                conj.append(z3.And(cli_rf_none, z3.BoolVal(bool(from_hdr))))
            elif isinstance(rf, Lazy) and rf.name == "config.rf_over":
                conj.append(z3.Not(cli_rf_none))
            else:
                conj.append(False)
            iso = B(gname + ".isolate")
            ip = called(p, r"GroupConfig::input_paths$")
            if not ip:
                conj.append(True)      # roots as given on the command line, or nothing to inherit
            else:
                # roots are taken from a recorded command only if it is the `group` command of the header and it had --isolate
                conj.append(z3.And(iso, z3.BoolVal(len(ip) == 1 and gname in summaries.canon(eng, st, ip[0].args[0]))))
            out = []
            for c in conj:
                if c is False:
                    return z3.BoolVal(False)
                if c is True:
                    continue
                out.append(c)
            return z3.And(*out) if out else z3.BoolVal(True)
        rep.add(oblig.check_paths(eng, ps, "run_dedupe: rf_over, match_links and the disabled size check are inherited from the recorded `group` command",
                                  prop, oblig.fnames(eng), key="run_dedupe:header-merge", allow=("return", "panic", "diverge", "bound")))

        # isolate roots - given with --isolate on the dedupe command line or inherited from the header - must be brought to the
        # canonical form of the reported paths before they are compared with them (Path::is_prefix_of is component-wise)
        def roots_prop(p):
            d = called(p, r"(^|::)dedupe$")
            if not d:
                return None
            st = _st(p)
            cfg = summaries.deref_val(eng, st, d[0].args[2])
            roots = eng.read_proj(None, cfg, ("field", fi("DedupeConfig", "isolated_roots"), "?"))
            # follow the value back through collect / map / iter ... and look for a canonicalising step
            v, seen_canon = roots, False
            for _ in range(8):
                ev = producer(p, v)
                if ev is None:
                    break
                if canonicalising(ev, p):
                    seen_canon = True
                    break
                v = ev.args[0] if ev.args else None
                if v is None:
                    break
            return z3.BoolVal(seen_canon)
        o = oblig.check_paths(eng, ps, "run_dedupe: the isolate roots handed to dedupe (given with --isolate or inherited from the header) are canonicalised like the reported paths",
                              roots_prop, oblig.fnames(eng), key="run_dedupe:isolate-roots-canonical", allow=("return", "panic", "diverge", "bound"))
        rep.add(o)
    except Inconclusive as ex:
        o = Obligation("run_dedupe header merge", "E2 mirsym/z3")
        o.verdict, o.detail = "inconclusive", str(ex)
        rep.add(o)
    # which string the keep / drop patterns are asked about
    try:
        from obligations import C08_patterns
        C08_patterns.add(rep, prog)
    except Inconclusive as ex:
        o = Obligation("keep / drop patterns", "E2 mirsym/z3")
        o.verdict, o.detail = "inconclusive", str(ex)
        rep.add(o)
    # sub-grouping by isolate roots / file ids and Path::is_prefix_of (shared with C06 / C14): "kept or dropped as a whole" rests on them
    try:
        from obligations import C06
        C06.sub_group_obligations(rep, ctx)
    except Inconclusive as ex:
        o = Obligation("sub-grouping", "E2 mirsym/z3")
        o.verdict, o.detail = "inconclusive", str(ex)
        rep.add(o)
    try:
        command_config_obligation(rep, ctx)
    except Inconclusive as ex:
        o = Obligation("get_command_config", "E2 mirsym/z3")
        o.verdict, o.detail = "inconclusive", str(ex)
        rep.add(o)
    # -n / --rf-over and the other dedupe options are usable at all: definition and access types of the clap options agree
    from obligations import cli_types
    cli_types.add(rep, ctx, prog, r"^DedupeConfig$")
    return rep


def replay_sort(o, ctx):
    """native: try_sort_by_key on 64 elements with tied keys must keep their order"""
    import os, sys
    from common import VERIF, copy_repo, scratch_root
    sys.path.insert(0, os.path.join(VERIF, "replay"))
    import native_driver
    try:
        drv = native_driver.NativeDriver(copy_repo("replay-src"), scratch_root(), [("util", "sort_test.rs", "verif_sort")])
        out = drv.run("util::verif_sort::verif_sort_driver", ["S 64"], "sort")
    except Exception as ex:  # noqa
        o.verdict, o.detail = "inconclusive", "native sort replay failed: %s" % str(ex)[:200]
        return
    o.cex["native_replay"] = out
    if any("unstable" in l for l in out):
        o.stats["traces_validated"] = 1
        o.detail += "; replayed natively: %s" % out[0]
    else:
        o.verdict, o.detail = "inconclusive", "counterexample did not reproduce natively: %s" % out[:1]


def _st(p):
    st = mirsym.State()
    st.mem = p.mem
    st.pc = list(p.pc)
    return st


def command_config_obligation(rep, ctx):
    """get_command_config (main.rs): the `group` configuration recovered from the report header is resolved against the base directory
    *recorded in the header* (relative input paths - and with them the isolate roots a dedupe command inherits - mean what they
    meant when the report was written), not against the directory the dedupe command happens to run in.  E2 with try_parse_from
    returning a symbolic Group configuration: on the Ok path base_dir is a clone of header.base_dir."""
    import optsum
    from mirsym import Agg, EnumV, Lazy, Ref
    prog = ctx.bin
    f = prog.find(r"(^|::)get_command_config$")
    src = prog.src
    ci = src.field_index("Config", "command")
    gi = src.variant_index("Command", "Group")
    if ci is None or gi is None:
        raise Inconclusive("Config.command / Command::Group not found in the source model")

    def s_parse(e, st, callee, args, dty):
        cfg = Agg("config::Config", {ci: EnumV("Command", "Group", gi, {0: Agg("config::GroupConfig", {}, base="parsed")})}, base="parsed_cfg")
        return [(z3.Bool("parse_ok"), EnumV("Result", "Ok", 0, {0: cfg})), (z3.Not(z3.Bool("parse_ok")), EnumV("Result", "Err", 1, {0: Lazy("clap_err", "clap::Error")}))]
    extra = dict(optsum.SUMMARIES)
    extra[r"try_parse_from$"] = s_parse
    eng = oblig.engine(prog, unroll=0, inline=None, extra=extra)
    ps = eng.run(f, args=[Ref("hdr", (), False)], mem={"hdr": Lazy("header", "ReportHeader")})
    bi = src.field_index("GroupConfig", "base_dir")

    def prop(p):
        if not (p.status == "return" and isinstance(p.result, EnumV) and p.result.variant == "Ok"):
            return None
        cfg = p.result.fields.get(0)
        cmd = cfg.fields.get(ci) if isinstance(cfg, Agg) else None
        gc = cmd.fields.get(0) if isinstance(cmd, EnumV) else None
        if not isinstance(gc, Agg):
            return z3.BoolVal(False)
        st = mirsym.State()
        st.mem, st.pc = p.mem, list(p.pc)
        bd = summaries.canon(eng, st, gc.fields.get(bi)) if gc.fields.get(bi) is not None else "<untouched>"
        foreign = [ev for ev in p.events if ev.kind == "call" and re.search(r"resolve_base_dir$|current_dir$|canonicalize$|set_current_dir$", ev.callee)]
        return z3.BoolVal(("header" in bd and "base_dir" in bd) and not foreign)
    o = oblig.check_paths(eng, ps, "get_command_config: the recovered `group` configuration gets the base directory recorded in the report header (not the dedupe command's working directory)",
                          prop, oblig.fnames(eng), key="header:base-dir-from-header", allow=("return", "panic", "diverge"))
    rep.add(o)
