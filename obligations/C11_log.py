"""C11: log_script prints every group's commands, in report order, whatever order the worker threads deliver them in.

Bounded model check of the consumer loop of dedupe::log_script (the closure that owns the receiving end of the channel) by
symbolic execution of its MIR: the channel is scripted - recv() returns the items (index, commands) of a script of n <= 3 groups in
every possible arrival order (all permutations), each group with 0..2 commands (symbolic FsCommand values), then Err(closed) - and
priority_queue::PriorityQueue is replaced by a reference model (a list; peek / pop return the entry with the greatest priority).
Everything else is the real code: the push of every received item, the peek/compare/pop loop, the counters, the writes.
Obligation (for every arrival order and every command-count vector, on every path whose writes succeed): the commands whose
to_shell_str is printed are exactly the script's commands in (group index, position) order and processed_count is their number."""
import itertools
import re

import z3

import listsum
import mirsym
import oblig
import optsum
from common import Inconclusive, Obligation, tier
from mirsym import Agg, Bool, EnumV, Int, Lazy, ListV, Ref, Unit
from summaries import deref_val

U = lambda v: Int(z3.BitVecVal(v, 64), "usize")


def _pq(e, st, r):
    v = deref_val(e, st, r)
    if isinstance(v, Agg) and v.ty == "PQ":
        return v
    return None


def _prio_key(p):
    """priority value -> python key (greater = served first); Reverse(usize) wraps the index in field 0"""
    inner = p
    rev = False
    if isinstance(inner, Agg) and len(inner.fields) == 1:
        rev = "Reverse" in inner.ty or True
        inner = inner.fields[0]
    if isinstance(inner, Int):
        c = z3.simplify(inner.t)
        if z3.is_bv_value(c):
            return -c.as_long() if rev else c.as_long()
    raise Inconclusive("priority is not a concrete Reverse(index)")


def s_pq_new(e, st, callee, args, dty):
    return Agg("PQ", {0: ListV((), "Vec")})


def s_pq_push(e, st, callee, args, dty):
    r = args[0]
    pq = _pq(e, st, r)
    if pq is None or not isinstance(r, Ref):
        return NotImplemented
    items = tuple(pq.fields[0].items) + (Agg("tuple", {0: args[1], 1: args[2]}),)
    e.store(st, r.cell, r.path, Agg("PQ", {0: ListV(items, "Vec")}))
    return EnumV("Option", "None", 0, {})


def _best(pq):
    its = pq.fields[0].items
    if not its:
        return None
    return max(range(len(its)), key=lambda i: _prio_key(its[i].fields[1]))


def s_pq_peek(e, st, callee, args, dty):
    r = args[0]
    pq = _pq(e, st, r)
    if pq is None or not isinstance(r, Ref):
        return NotImplemented
    i = _best(pq)
    if i is None:
        return EnumV("Option", "None", 0, {})
    base = r.path + (("field", 0, "Vec"), ("elem", i))
    return EnumV("Option", "Some", 1, {0: Agg("tuple", {0: Ref(r.cell, base + (("field", 0, "?"),), False), 1: Ref(r.cell, base + (("field", 1, "?"),), False)})})


def s_pq_pop(e, st, callee, args, dty):
    r = args[0]
    pq = _pq(e, st, r)
    if pq is None or not isinstance(r, Ref):
        return NotImplemented
    i = _best(pq)
    if i is None:
        return EnumV("Option", "None", 0, {})
    its = list(pq.fields[0].items)
    it = its.pop(i)
    e.store(st, r.cell, r.path, Agg("PQ", {0: ListV(tuple(its), "Vec")}))
    return EnumV("Option", "Some", 1, {0: it})


def make_recv(script):
    def s_recv(e, st, callee, args, dty):
        k = st.mem.get("recv:k", 0)
        st.mem["recv:k"] = k + 1
        if k >= len(script):
            return EnumV("Result", "Err", 1, {0: Lazy("RecvError", "RecvError")})
        idx, cmds = script[k]
        return EnumV("Result", "Ok", 0, {0: Agg("tuple", {0: U(idx), 1: ListV(tuple(cmds), "Vec")})})
    return s_recv


def s_shell(e, st, callee, args, dty):
    v = deref_val(e, st, args[0])
    st.events.append(mirsym.Event("call", "FsCommand::to_shell_str", (v,), None, len(st.pc), e.site(st)))
    return ListV((Lazy("line_of_%s" % getattr(v, "name", "?"), "String"),), "Vec")


def s_space(e, st, callee, args, dty):
    """FsCommand::space_to_reclaim: a free 64-bit value per command"""
    v = deref_val(e, st, args[0])
    nm = getattr(v, "name", "?")
    return Agg("file::FileLen", {0: Int(z3.BitVec("space_%s" % nm, 64), "u64")})


def s_len_add_assign(e, st, callee, args, dty):
    r = args[0]
    a, b = deref_val(e, st, r), deref_val(e, st, args[1])
    if not (isinstance(r, Ref) and isinstance(a, Agg) and isinstance(b, Agg) and isinstance(a.fields.get(0), Int) and isinstance(b.fields.get(0), Int)):
        return NotImplemented
    e.store(st, r.cell, r.path, Agg(a.ty, {0: Int(a.fields[0].t + b.fields[0].t, "u64")}))
    return Unit()


def consumer_closure(prog):
    ls = prog.find(r"^(dedupe::)?log_script$")
    cl = [g for g in prog.closures_of(ls) if re.search(r"Receiver::<.*>::recv|Receiver.*recv", g.text)]
    if len(cl) != 1:
        raise Inconclusive("consumer loop of log_script: %d candidate closures" % len(cl))
    return cl[0]


def add(rep, prog):
    try:
        cf = consumer_closure(prog)
    except Inconclusive as ex:
        o = Obligation("log_script: order restoration", "E2 mirsym/z3")
        o.verdict, o.detail = "inconclusive", str(ex)
        rep.add(o)
        return
    nmax = 3
    lens_menu = (0, 1, 2) if tier() == "thorough" else (0, 1)
    bad, runs, npaths, nq = [], 0, 0, 0
    encoded = {}
    inconc = None
    for n in range(1, nmax + 1):
        for lens in itertools.product(lens_menu, repeat=n):
            for perm in itertools.permutations(range(n)):
                cmds = {g: [Lazy("cmd_g%d_%d" % (g, j), "dedupe::FsCommand") for j in range(lens[g])] for g in range(n)}
                script = [(g, cmds[g]) for g in perm]
                extra = dict(optsum.SUMMARIES)
                extra[r"^<.* as (std::iter::)?Iterator>::map$"] = listsum.s_iter_map
                extra[r"^<.* as (std::iter::)?Iterator>::sum$"] = listsum.s_iter_sum_lens
                extra.update({
                    r"PriorityQueue(::<.*>)?::new$": s_pq_new,
                    r"PriorityQueue(::<.*>)?::push$": s_pq_push,
                    r"PriorityQueue(::<.*>)?::peek$": s_pq_peek,
                    r"PriorityQueue(::<.*>)?::pop$": s_pq_pop,
                    r"Receiver(::<.*>)?::recv$": make_recv(script),
                    r"FsCommand::to_shell_str$": s_shell,
                    r"FsCommand::space_to_reclaim$": s_space,
                    r"FileLen as (std::ops::)?AddAssign(<.*>)?>::add_assign$": s_len_add_assign,
                })
                eng = oblig.engine(prog, unroll=12, extra=extra, inline=oblig.module_inliner(prog, "dedupe.rs", r"FsCommand::(space_to_reclaim|to_shell_str)$"))
                clo = Agg(cf.args[0][1], {i: Lazy("cap%d" % i, "?") for i in range(6)})
                ps = eng.run(cf, args=[clo, Lazy("scope", cf.args[1][1])])
                runs += 1
                encoded.update(eng.encoded)
                nq += eng.queries
                want = ["cmd_g%d_%d" % (g, j) for g in range(n) for j in range(lens[g])]
                for p in ps:
                    npaths += 1
                    if p.status in ("abort", "bound"):
                        inconc = "path %s: %s" % (p.status, p.note[:160])
                        continue
                    if not (p.status == "return" and isinstance(p.result, EnumV) and p.result.variant == "Ok"):
                        continue        # a failed write ends the run with Err
                    printed = []
                    for ev in p.events:
                        if ev.callee == "FsCommand::to_shell_str":
                            printed.append(getattr(ev.args[0], "name", repr(ev.args[0])))
                    res = p.result.fields[0]
                    cnt = None
                    space_ok = None
                    if isinstance(res, Agg):
                        for v in res.fields.values():
                            if isinstance(v, Int) and v.ty in ("usize", "u64") and cnt is None:
                                c = z3.simplify(v.t)
                                cnt = c.as_long() if z3.is_bv_value(c) else None
                            if isinstance(v, Agg) and isinstance(v.fields.get(0), Int) and "FileLen" in v.ty:
                                # reclaimed space == sum of the script's commands, for every value of the per-command spaces
                                total = z3.BitVecVal(0, 64)
                                for nm in want:
                                    total = total + z3.BitVec("space_%s" % nm, 64)
                                slv = z3.Solver()
                                slv.add(v.fields[0].t != total)
                                nq += 1
                                space_ok = slv.check() == z3.unsat
                                if not space_ok:
                                    space_cex = {str(d): slv.model()[d].as_long() for d in slv.model().decls()}
                    if space_ok is None:
                        inconc = "the reclaimed space of log_script's result is not modelled"
                    if printed != want or cnt != len(want) or space_ok is False:
                        bad.append({"arrival_order": list(perm), "commands_per_group": list(lens), "printed": printed, "expected": want, "processed_count": cnt,
                                    "reclaimed_space_is_the_sum": space_ok, "spaces": space_cex if space_ok is False else None})
                if len(bad) > 6:
                    break
            if len(bad) > 6:
                break
    o = Obligation("log_script: for every arrival order of the groups and every number of commands per group (also none), exactly the script's commands are printed, in report order, and counted",
                   "E2 mirsym/z3 (scripted channel, reference priority queue)", sorted("%s#%s" % (k[-60:], v) for k, v in encoded.items()),
                   "<= %d groups, all arrival permutations, %s commands per group; writes succeed" % (nmax, "0..2" if tier() == "thorough" else "0..1"))
    o.key = "log_script:order-restoration"
    o.queries = nq
    o.stats = {"runs": runs, "paths": npaths, "states": npaths, "transitions": nq}
    if bad:
        o.verdict = "violated"
        o.cex = {"cases": bad[:4]}
        o.detail = "arrival order %s with %s commands per group: printed %s, expected %s (processed_count %s, reclaimed space is the sum: %s %s)" % (
            bad[0]["arrival_order"], bad[0]["commands_per_group"], bad[0]["printed"], bad[0]["expected"], bad[0]["processed_count"],
            bad[0]["reclaimed_space_is_the_sum"], bad[0]["spaces"] or "")
    elif inconc:
        o.verdict, o.detail = "inconclusive", inconc
    elif npaths == 0:
        o.verdict, o.detail = "inconclusive", "vacuous"
    else:
        o.verdict = "holds"
        o.witness = "%d scripted runs, %d paths" % (runs, npaths)
    rep.add(o)


def _st(p):
    st = mirsym.State()
    st.mem = p.mem
    st.pc = list(p.pc)
    return st
