"""C03 - every duplicate among the scanned files is reported, exactly once (kernel level).

E2: (O1) the replication filter never loses a qualifying class (semantics + monotonicity, shared with C06);
(O2) rehash: a stage drops a file only when its hash failed, passes groups skipped by the pre-filter through unchanged
and applies the post filter to both; all members of an id-group are sent (C01-O5 task closure); (O3) same-path
collapsing keeps distinct paths (key = 128-bit path hash)."""
import re

import z3

import mirsym
import oblig
import summaries
from common import Inconclusive, Obligation, Report
from mirsym import Agg, Bool, EnumV, Int, Lazy, ListV
from obligations import C06
from obligations.C01 import INL, called, stage


def run():
    rep = Report(
        "C03", "other",
        "Bounded symbolic execution (mirsym/z3): the replication filter's semantics and monotonicity for all 64-bit counts; "
        "rehash's tail (the groups rejected by the pre-filter are chained into the output and filtered by the same "
        "post-filter); rehash's task closure composed with the hash closure of every stage (a member is sent iff the hash "
        "function returned Some, every member of the id-group is sent exactly once, id-groups of 2 paths); the unique_by key of "
        "deduplicate is the 128-bit path hash.",
        assumptions=["MetroHash128 treated as injective on the byte stream it is fed (what is fed is checked)", "sub-group counting itself (IndexMap) is a free symbol",
                     "thread pools / channels deliver every sent item (plumbing outside the claim)"],
        outside=["the walk (C09)", "hard-link sub-group counting", "rayon/crossbeam plumbing"])
    ctx = oblig.Ctx()
    prog = ctx.lib
    oblig.install_battery(rep, ctx, ["c03_battery", "c01_battery"])

    def finish(o, scenario):
        if o.verdict == "violated" and scenario:
            C06.replay(o, ctx, scenario)
        rep.add(o)
    C06.filter_obligations(rep, ctx, "C03", finish)

    engs = []
    fn = lambda: sorted({x for e in engs for x in oblig.fnames(e)})

    def guarded(name, body):
        try:
            body()
        except Inconclusive as e:
            o = Obligation(name, "E2 mirsym/z3")
            o.verdict, o.detail = "inconclusive", str(e)
            rep.add(o)

    # ---- stage ranges: what is hashed decides which files can end up in one class.  A prefix stage that covers less than the whole
    # of a file the later stages skip merges different files (with --unique they vanish from the report); ranges that depend on the
    # device split the class of identical files stored on different kinds of disks
    def ranges():
        from obligations import C01
        rep.add(C01.prefix_coverage_obligation(prog, engs, fn))
        rep.add(C01.prefix_consistency_obligation(prog, engs, fn))
    guarded("stage ranges", ranges)

    # ---- O2a: tail of rehash: partition(pre_filter) -> second part chained -> post filter on everything
    def tail():
        eng = oblig.engine(prog, unroll=0)
        engs.append(eng)
        rh = prog.find(r"^(group::)?rehash$")
        ps = eng.run(rh)

        def prop(p):
            part = called(p, r"Iterator>::partition$")
            chain = called(p, r"Iterator>::chain$")
            filt = called(p, r"Iterator>::filter$")
            coll = called(p, r"Iterator>::collect$")
            if not part or p.status != "return":
                return None
            if len(part) != 1 or len(chain) != 1 or len(filt) != 1 or not coll:
                return z3.BoolVal(False)
            # partition(groups.into_iter(), pre_filter) -> (to_process, to_pass)
            pre_ok = any(isinstance(a, Lazy) and a.name == "group_pre_filter" for a in part[0].args)
            res = part[0].ret
            passed = chain[0].args[1]
            passed_ok = isinstance(passed, Lazy) and isinstance(res, Lazy) and passed.name == res.name + ".1"
            post_ok = any(isinstance(a, Lazy) and a.name == "group_post_filter" for a in filt[0].args) and \
                isinstance(filt[0].args[0], Lazy) and isinstance(chain[0].ret, Lazy) and filt[0].args[0].name == chain[0].ret.name
            out_ok = isinstance(p.result, Lazy) and isinstance(coll[-1].ret, Lazy) and p.result.name == coll[-1].ret.name and \
                isinstance(coll[-1].args[0], Lazy) and coll[-1].args[0].name == filt[0].ret.name
            return z3.BoolVal(pre_ok and passed_ok and post_ok and out_ok)
        rep.add(oblig.check_paths(eng, ps, "rehash: groups skipped by the pre-filter are chained into the output; one post-filter for all",
                                  prop, fn(), key="rehash:tail", allow=("return", "panic", "diverge", "bound")))
    guarded("rehash tail", tail)

    # ---- O2b: task closure: sent iff hash_fn returned Some; all members sent once
    def task():
        o = task_obligation(prog, engs, fn)
        if o.verdict == "violated":
            from obligations import C15
            C15.replay(o, ctx)
            if o.verdict == "inconclusive":
                o.verdict = "violated"      # let the content battery try
        rep.add(o)
    guarded("rehash task closure", task)

    # ---- O2c: hash errors turn into None (never into a bogus hash)
    def errs():
        eng = oblig.engine(prog, unroll=0)
        engs.append(eng)
        for meth, inner in (("hash_file_or_log_err", r"FileHasher::hash_file$"), ("hash_transformed_or_log_err", r"FileHasher::hash_transformed$")):
            ps = eng.run(prog.method("FileHasher", meth))

            def prop(p, inner=inner):
                h = called(p, inner)
                if len(h) != 1 or not isinstance(h[0].ret, Lazy):
                    return z3.BoolVal(False)
                ok = z3.BitVec(mirsym.sanitize(h[0].ret.name + "#d"), 64) == 0
                r = p.result
                if isinstance(r, EnumV):
                    is_some = r.variant == "Some"
                    payload_ok = (not is_some) or (isinstance(r.fields.get(0), Lazy) and r.fields[0].name.startswith(h[0].ret.name + "@Ok"))
                    return z3.And(z3.BoolVal(is_some) == ok, z3.BoolVal(payload_ok))
                return z3.BoolVal(False)
            rep.add(oblig.check_paths(eng, ps, "%s: Some(hash) iff hashing succeeded, the hash is the one computed" % meth, prop, fn(),
                                      key="hasher:%s" % meth))
    guarded("hash error handling", errs)

    # ---- O3: deduplicate's unique_by key is the path hash
    def dedup():
        eng = oblig.engine(prog, unroll=0)
        engs.append(eng)
        dd = prog.find(r"^(group::)?deduplicate$")
        kcl = [g for g in prog.closures_of(dd) if g.ret.strip() == "u128"]
        if len(kcl) != 1:
            # no closure computing a 128-bit key: the collapsing is not keyed by the path hash any more; the abstract verdict is
            # confirmed (or not) by the native battery
            o = Obligation("deduplicate: same-path collapsing is keyed by the 128-bit hash of the whole path", "E2 mirsym/z3", fn())
            o.key = "deduplicate:key"
            o.verdict = "violated"
            o.detail = "deduplicate has %d closures returning a 128-bit key (expected: the unique_by key = Path::hash128)" % len(kcl)
            o.cex = {"closures": [g.name[-80:] for g in prog.closures_of(dd)]}
            rep.add(o)
            return
        ps = eng.run(kcl[0])

        def prop(p):
            h = called(p, r"Path::hash128$")
            ok = len(h) == 1 and isinstance(p.result, Int) and isinstance(h[0].ret, Int) and p.result.t.eq(h[0].ret.t)
            arg_ok = ok and "path" in repr(h[0].args[0])
            return z3.BoolVal(bool(arg_ok))
        rep.add(oblig.check_paths(eng, ps, "deduplicate: same-path collapsing is keyed by the 128-bit hash of the whole path", prop, fn(),
                                  key="deduplicate:key"))
    guarded("deduplicate", dedup)
    from obligations import path_kernels
    guarded("path hash", lambda: path_kernels.hash128_obligations(rep, prog, "C03"))

    # same-path collapsing is applied to every candidate group, whatever the configuration
    def dedupw():
        from obligations import dedup_wiring
        dedup_wiring.add(rep, prog)
    guarded("same-path collapsing wiring", dedupw)

    # a readable file must not be dropped because descriptors ran out: the hashing task holds its open-file permit across the hash call
    def permits():
        from obligations import C19
        C19.users(rep, ctx)
    guarded("open-file permits", permits)

    # the statement holds for every configuration "including ... cache": a cache that serves a wrong (length, hash) splits or merges classes
    def cache():
        from obligations import C12
        C12.add_obligations(rep, ctx)
    guarded("hash cache", cache)
    return rep


def task_obligation(prog, engs, fn, key="rehash:task"):
    """rehash's task (the closure handed to the thread pool, helpers of group.rs inlined): the members of an id-group are
    sent iff the hash function returned Some; every member once (also used by C15: a file whose hash failed is dropped alone)"""
    rh = prog.find(r"^(group::)?rehash$")
    tk, span, caps = oblig.spawned_task(prog, rh)
    lists = [i for i, (nme, ty) in enumerate(caps) if "Vec<" in ty and "HashedFileInfo" in ty]
    if len(lists) != 1:
        raise Inconclusive("captures of the rehash task closure not identified: %s" % caps)
    import listsum
    eng = oblig.engine(prog, unroll=6, inline=oblig.module_inliner(prog, "group.rs", TASK_LEAVES),
                       extra={r"^<.* as (std::iter::)?Iterator>::(skip|take)$": listsum.s_iter_skip_take})
    engs.append(eng)
    items = [Lazy("m0", "HashedFileInfo"), Lazy("m1", "HashedFileInfo")]
    fields = {i: (ListV(items) if i == lists[0] else Lazy("cap_" + nme, "?")) for i, (nme, ty) in enumerate(caps)}
    qs = eng.run(tk, args=[Agg(span, fields)])

    def prop(q):
        hc = [e for e in q.events if e.kind == "call" and re.search(r"Fn(Mut|Once)?(<.*>)?>::call", e.callee)]
        snd = called(q, r"Sender::send$")
        if not hc or not all(isinstance(h.ret, Lazy) for h in hc):
            return z3.BoolVal(False)
        if q.status == "panic" and snd:
            # `tx.send(..).unwrap()` failed: receiver gone - not a silent drop
            return None
        st = mirsym.State()
        st.mem, st.pc = q.mem, list(q.pc)
        # which member each call of the hash function is about (the names of one file id are tried in order)
        asked = []
        for h in hc:
            cn = " ".join(summaries.canon(eng, st, a) for a in h.args)
            who = [m for m in ("m0", "m1") if re.search(r"\b%s\b" % m, cn)]
            if len(who) != 1:
                return z3.BoolVal(False)
            asked.append(who[0])
        some = [z3.BitVec(mirsym.sanitize(h.ret.name + "#d"), 64) == 1 for h in hc]
        bases = [getattr(e.args[1], "base", None) or getattr(e.args[1], "name", "?") for e in snd]
        order_ok = asked == ["m0", "m1"][:len(asked)]
        if snd:
            # the last name asked gave the hash, every name before it failed (and is left out); all names from it on are sent once
            k = len(asked) - 1
            want = ["m0", "m1"][k:]
            return z3.And(z3.BoolVal(order_ok and sorted(bases) == want), some[k], *[z3.Not(x) for x in some[:k]])
        # nothing sent: every name of the file was tried and none could be hashed (one failing name does not take its siblings along)
        return z3.And(z3.BoolVal(order_ok and len(asked) == 2), *[z3.Not(x) for x in some])
    return oblig.check_paths(eng, qs, "rehash task: the names of one file id are tried in order until one can be hashed; that name and the ones after it are sent once each; nothing is sent only if every name failed",
                             prop, fn(), bounds="id-groups of 2 paths, loop unrolled 3", key=key,
                             allow=("return", "panic", "diverge"))


TASK_LEAVES = r"RLIMIT|Semaphore|access_owned|FileGroup::|DiskDevice"
