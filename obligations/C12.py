"""C12 - the hash cache never changes results (kernel level).

E2 on HashCache::{key, get, put, open} and FileHasher::{hash_file, hash_transformed}; the sled tree is an uninterpreted
map, the environment functions (Metadata::modified, duration_since, as_millis, len, file_id) are pure functions of their
arguments.  Obligations: get returns Some only if the stored mtime (milliseconds) and length equal the current ones and
then returns the stored pair unchanged; put stores exactly (mtime ms, length, data_len, hash) under the key built from
(file id, chunk pos, chunk len); the tree name depends on the hash function and the transform; hash_file /
hash_transformed store what they computed under the key they looked up, and a transformed entry stores the *output*
length."""
import json
import os
import re
import shutil
import subprocess
import tempfile
import time

import z3

import mirsym
import native
import oblig
import summaries
from common import Inconclusive, Obligation, Report
from mirsym import Agg, Bool, EnumV, Int, Lazy, Ref

PURE = {
    r"^(std::fs::)?Metadata::modified$": summaries.pure("modified"),
    r"^(std::fs::)?Metadata::len$": summaries.pure("len"),
    r"^(std::time::)?SystemTime::duration_since$": summaries.pure("duration_since"),
    r"^(std::time::)?Duration::as_millis$": summaries.pure("as_millis"),
    r"^(std::time::)?Duration::as_secs$": summaries.pure("as_secs"),
    r"^(std::time::)?Duration::as_micros$": summaries.pure("as_micros"),
    r"^(std::time::)?Duration::subsec_millis$": summaries.pure("subsec_millis"),
    r"^(std::time::)?Duration::subsec_nanos$": summaries.pure("subsec_nanos"),
}
MT = z3.BitVec("mtime_ms", 64)       # the file's modification time in milliseconds relative to the epoch (signed)


def _t_modified(e, st, callee, args, dty):
    ok = z3.Bool("modified_ok")
    return [(ok, EnumV("Result", "Ok", 0, {0: Agg("SystemTime", {0: Int(MT, "i64")})})), (z3.Not(ok), EnumV("Result", "Err", 1, {0: Lazy("stat_error", "std::io::Error")}))]


def _t_duration_since(e, st, callee, args, dty):
    """SystemTime::duration_since(t, UNIX_EPOCH): Ok(t - epoch) for t >= epoch, Err(epoch - t) before it"""
    v = summaries.deref_val(e, st, args[0])
    if not (isinstance(v, Agg) and v.ty == "SystemTime"):
        return NotImplemented
    t = v.fields[0].t
    return [(t >= 0, EnumV("Result", "Ok", 0, {0: Agg("Duration", {0: Int(t, "u64")})})),
            (t < 0, EnumV("Result", "Err", 1, {0: Agg("SystemTimeError", {0: Agg("Duration", {0: Int(-t, "u64")})})}))]


def _t_dur(f):
    def g(e, st, callee, args, dty):
        v = summaries.deref_val(e, st, args[0])
        if not (isinstance(v, Agg) and v.ty == "Duration" and isinstance(v.fields.get(0), Int)):
            return NotImplemented
        return f(v.fields[0].t)
    return g


def _t_err_duration(e, st, callee, args, dty):
    v = summaries.deref_val(e, st, args[0])
    if isinstance(v, Agg) and v.ty == "SystemTimeError":
        return v.fields[0]
    return NotImplemented


def _t_unwrap_or(e, st, callee, args, dty):
    """Result<Duration, _>::unwrap_or(Duration::ZERO)"""
    v, d = args[0], args[1]
    if isinstance(v, EnumV) and v.ty == "Result":
        if v.variant == "Ok":
            return v.fields[0]
        dv = summaries.deref_val(e, st, d)
        if isinstance(dv, Agg) and dv.ty == "Duration":
            return dv
        if "ZERO" in repr(dv) or "Duration" in (dty or ""):
            return Agg("Duration", {0: Int(z3.BitVecVal(0, 64), "u64")})
    return NotImplemented


TIME = {
    r"^(std::fs::)?Metadata::modified$|FileMetadata::modified$": _t_modified,
    r"^(std::time::)?SystemTime::duration_since$": _t_duration_since,
    r"^(std::time::)?Duration::as_millis$": _t_dur(lambda d: Int(z3.ZeroExt(64, d), "u128")),
    r"^(std::time::)?Duration::as_secs$": _t_dur(lambda d: Int(z3.UDiv(d, z3.BitVecVal(1000, 64)), "u64")),
    r"^(std::time::)?Duration::as_micros$": _t_dur(lambda d: Int(z3.ZeroExt(64, d) * 1000, "u128")),
    r"^(std::time::)?Duration::subsec_millis$": _t_dur(lambda d: Int(z3.Extract(31, 0, z3.URem(d, z3.BitVecVal(1000, 64))), "u32")),
    r"^(std::time::)?SystemTimeError::duration$": _t_err_duration,
    r"(^|::)wrapping_neg$": lambda e, st, c, a, d: Int(-a[0].t, a[0].ty) if isinstance(a[0], Int) else NotImplemented,
    r"(^|::)wrapping_sub$": lambda e, st, c, a, d: Int(a[0].t - a[1].t, a[0].ty) if isinstance(a[0], Int) and isinstance(a[1], Int) else NotImplemented,
    r"(^|::)wrapping_add$": lambda e, st, c, a, d: Int(a[0].t + a[1].t, a[0].ty) if isinstance(a[0], Int) and isinstance(a[1], Int) else NotImplemented,
    r"^(std::result::|core::result::)?Result::unwrap_or$": _t_unwrap_or,
    r"^(std::fs::)?Metadata::len$": summaries.pure("len"),
}
INL = r"file::<impl[^>]*>::(len|file_id|deref)$|cache::<impl[^>]*>::modified_timestamp_ms$|^(cache::)?modified_timestamp_ms$"


def called(p, pattern):
    return [e for e in p.events if e.kind == "call" and re.search(pattern, e.callee)]


def term_of(v):
    if isinstance(v, Int):
        return v.t
    if isinstance(v, Agg) and 0 in v.fields and isinstance(v.fields[0], Int):
        return v.fields[0].t
    if isinstance(v, Lazy):
        return z3.BitVec(mirsym.sanitize(v.name + ".0"), 64)
    if isinstance(v, Agg) and v.base and not v.fields:
        return z3.BitVec(mirsym.sanitize(v.base + ".0"), 64)
    raise Inconclusive("no integer in %r" % (v,))


def ms_from_events(p):
    """the value `as_millis(duration_since(modified(md), EPOCH).unwrap_or(ZERO)) as u64` if that is what the path computes"""
    am = called(p, r"Duration::as_millis$")
    if len(am) != 1 or not isinstance(am[0].ret, Int):
        return None
    ds = called(p, r"SystemTime::duration_since$")
    md = called(p, r"Metadata::modified$")
    if len(ds) != 1 or len(md) != 1:
        return None
    return z3.Extract(63, 0, am[0].ret.t)


def run():
    rep = Report(
        "C12", "other",
        "Bounded symbolic execution (mirsym/z3) of HashCache::{key, get, put, open} and FileHasher::{hash_file, hash_transformed} "
        "with the sled tree as an uninterpreted map and the stat/clock accessors as pure functions: z3 decides that a "
        "lookup hits only when the stored millisecond mtime and length equal the current ones, returns the stored pair, "
        "that put stores what it is given under a key made of (file id, chunk pos, chunk len), that the tree name mentions "
        "hash function and transform, and that the hashers store exactly the value they computed (for transforms: the "
        "output length).  Composition: with 'content change => mtime(ms) or length change' a hit equals a recomputation.",
        assumptions=["sled / typed_sled behave as a map", "Metadata::modified/len, duration_since, as_millis are deterministic functions of the file state",
                     "a content change also changes mtime (ms) or length (the property's proviso)"],
        outside=["sled durability / interrupted runs", "inode reuse within the same millisecond and length"])
    ctx = oblig.Ctx()
    add_obligations(rep, ctx)
    return rep


def add_obligations(rep, ctx):
    """the cache obligations; also part of C01 and C03 (their statements quantify over 'with or without the hash cache')"""
    prog = ctx.lib
    import optsum as _o0
    eng = oblig.engine(prog, unroll=0, inline=INL, extra=dict(_o0.SUMMARIES, **TIME))
    fns = lambda: oblig.fnames(eng)
    # what put stores as the modification time, as a function of the file's mtime (time model above): pieces (condition, term)
    stored_ms = []

    def only_time(c):
        names = set()

        def walk(t):
            if z3.is_const(t) and t.decl().kind() == z3.Z3_OP_UNINTERPRETED:
                names.add(str(t))
            for ch in t.children():
                walk(ch)
        walk(c)
        return names <= {"mtime_ms", "modified_ok"}

    def F_of(t):
        """the stored value for modification time t (pieces of put; 0xdead.. where put stores nothing)"""
        r = z3.BitVecVal(0xDEADBEEFDEADBEEF, 64)
        for conds, term in stored_ms:
            sub = lambda x: z3.substitute(x, (MT, t))
            r = z3.If(z3.And(*[sub(c) for c in conds]) if conds else z3.BoolVal(True), sub(term), r)
        return r
    HC = lambda n: prog.method("HashCache", n)

    def finish(o, scenario=None):
        if o.verdict == "violated":
            if scenario:
                replay(o, ctx, scenario)
            if not o.stats.get("traces_validated"):
                battery(o, ctx)
        rep.add(o)

    # ---- key
    ps = eng.run(HC("key"))

    def key_prop(p):
        r = p.result
        if not (isinstance(r, EnumV) and r.variant == "Ok" and isinstance(r.fields.get(0), Agg)):
            return z3.BoolVal(False)
        k = r.fields[0]
        f = prog.src.field_index
        fid, pos, ln = k.fields.get(f("Key", "file_id")), k.fields.get(f("Key", "chunk_pos")), k.fields.get(f("Key", "chunk_len"))
        ok = (isinstance(fid, Lazy) and "metadata" in fid.name and fid.name.endswith(".id")
              and isinstance(pos, Lazy) and pos.name.endswith("chunk*.pos") and isinstance(ln, Lazy) and ln.name.endswith("chunk*.len"))
        return z3.BoolVal(bool(ok))
    finish(oblig.check_paths(eng, ps, "key = (file id, chunk position, chunk length)", key_prop, fns(), key="cache:key"))

    # ---- pre-pass over put: the stored millisecond value per path
    for p in eng.run(HC("put")):
        ins = called(p, r"Tree.*::insert$|::insert$")
        if not ins or len(ins[0].args) < 3:
            continue
        v = summaries.deref_val(eng, _st(p), ins[0].args[2])
        if isinstance(v, Agg):
            ms = v.fields.get(prog.src.field_index("CachedFileInfo", "modified_timestamp_ms"))
            if isinstance(ms, Int):
                piece = ([c for c in p.pc if only_time(c)], ms.t)
                if not any(str(piece) == str(q) for q in stored_ms):
                    stored_ms.append(piece)
    # different modification times (at millisecond resolution) are stored as different values - otherwise a rewrite that changes the
    # mtime is served from the cache (the property's proviso is "each content change also changes the mtime (ms) or the length")
    o_inj = Obligation("put: different modification times (ms) are stored as different values, for every representable time (also before 1970)",
                       "E2 mirsym/z3 (time model: mtime as a signed 64-bit millisecond count)", fns(), "all 64-bit signed millisecond times")
    o_inj.key = "cache:mtime-injective"
    if not stored_ms:
        o_inj.verdict, o_inj.detail = "inconclusive", "no path of put stores a millisecond value under the time model"
    else:
        t1, t2 = z3.BitVec("t1", 64), z3.BitVec("t2", 64)
        slv = z3.Solver()
        # (times within +-2^62 ms, far beyond any file system's range, so that the negation in the model cannot overflow)
        lim = z3.BitVecVal(1 << 62, 64)
        slv.add(z3.Bool("modified_ok"), t1 != t2, t1 > -lim, t1 < lim, t2 > -lim, t2 < lim, F_of(t1) == F_of(t2))
        o_inj.queries = 1
        o_inj.stats = {"paths": len(stored_ms), "states": len(stored_ms), "transitions": 1}
        r_ = slv.check()
        if r_ == z3.sat:
            m_ = slv.model()
            a, b = m_.eval(t1, model_completion=True).as_signed_long(), m_.eval(t2, model_completion=True).as_signed_long()
            o_inj.verdict = "violated"
            o_inj.cex = {"mtime_ms_1": a, "mtime_ms_2": b, "stored": m_.eval(F_of(t1), model_completion=True).as_long()}
            o_inj.detail = "the modification times %d ms and %d ms (relative to 1970-01-01) are both stored as %d" % (a, b, o_inj.cex["stored"])
        elif r_ == z3.unsat:
            o_inj.verdict = "holds"
            o_inj.witness = "%d pieces" % len(stored_ms)
        else:
            o_inj.verdict, o_inj.detail = "inconclusive", "solver: unknown"
    finish(o_inj, "mtime-ms")

    # ---- get
    ps = eng.run(HC("get"))

    def get_prop(p):
        r = p.result
        if not (isinstance(r, EnumV) and r.variant == "Ok"):
            return None
        inner = r.fields.get(0)
        if not (isinstance(inner, EnumV) and inner.variant == "Some"):
            return None
        g = called(p, r"Tree.*::get$|::get$")
        g = [e for e in g if isinstance(e.ret, Lazy)]
        if not g:
            return z3.BoolVal(False)
        base = mirsym.sanitize(g[0].ret.name + "@Ok.0@Some.0")
        st_ms = z3.BitVec(base + ".modified_timestamp_ms", 64)
        st_len = z3.BitVec(base + ".file_len.0", 64)
        # the value the stored one is compared with is the one put stores for the file's current modification time
        cur_ms = F_of(MT) if stored_ms else None
        ln = called(p, r"Metadata::len$")
        if cur_ms is None or len(ln) != 1:
            return z3.BoolVal(False)
        cur_len = term_of(ln[0].ret)
        pair = inner.fields.get(0)
        ok_pair = (isinstance(pair, Agg) and isinstance(pair.fields.get(0), Lazy) and pair.fields[0].name == base + ".data_len"
                   and isinstance(pair.fields.get(1), Lazy) and pair.fields[1].name == base + ".hash")
        return z3.And(st_ms == cur_ms, st_len == cur_len, z3.BoolVal(bool(ok_pair)))
    finish(oblig.check_paths(eng, ps, "get: hit only if stored mtime(ms) and length equal the current ones; returns the stored (data_len, hash)",
                             get_prop, fns(), key="cache:get"), "mtime-ms")

    # ---- put
    ps = eng.run(HC("put"))

    def put_prop(p):
        ins = called(p, r"Tree.*::insert$|::insert$")
        if not ins:
            # a path that reaches the point of storing (the entry was serialised / the mtime was read) and returns Ok without an
            # unconditional insert does not replace an existing entry (compare_and_swap, an `if !contains_key` ...)
            reached = called(p, r"Metadata::len$") and p.status == "return" and isinstance(p.result, EnumV) and p.result.variant == "Ok"
            return z3.BoolVal(False) if reached else None
        v = summaries.deref_val(eng, _st(p), ins[0].args[2]) if len(ins[0].args) > 2 else None
        if not isinstance(v, Agg):
            return z3.BoolVal(False)
        f = prog.src.field_index
        ms, fl = v.fields.get(f("CachedFileInfo", "modified_timestamp_ms")), v.fields.get(f("CachedFileInfo", "file_len"))
        dl, hs = v.fields.get(f("CachedFileInfo", "data_len")), v.fields.get(f("CachedFileInfo", "hash"))
        cur_ms = ms.t if isinstance(ms, Int) else None        # (what is stored is decided by cache:mtime-injective and cache:get)
        ln = called(p, r"Metadata::len$")
        if cur_ms is None or len(ln) != 1 or not isinstance(ms, Int):
            return z3.BoolVal(False)
        keyarg = ins[0].args[1]
        ok = (isinstance(dl, Lazy) and dl.name == "data_len" and isinstance(hs, Lazy) and hs.name == "hash"
              and isinstance(keyarg, Lazy) and keyarg.name == "key")
        return z3.And(ms.t == cur_ms, term_of(fl) == term_of(ln[0].ret), z3.BoolVal(bool(ok)))
    finish(oblig.check_paths(eng, ps, "put: stores (mtime ms, file length, data_len, hash) under the given key", put_prop, fns(),
                             key="cache:put"), "mtime-ms")

    # ---- tree name
    ps = eng.run(HC("open"))

    def open_prop(p):
        op = called(p, r"Tree.*::open$")
        if not op:
            return None
        # the arguments of the format! that builds the tree id
        fa = [e for e in p.events if e.kind == "call" and e.callee.endswith("new_debug") or e.kind == "call" and e.callee.endswith("new_display")]
        st = _st(p)
        mentions_alg = mentions_tr = False
        tr_none = any("transform#d == 0" in str(c) or "0 == transform#d" in str(c) for c in p.pc)
        for ev in p.events:
            if ev.kind != "call" or not ev.callee.startswith("fmt::Argument::new_"):
                continue
            for a in ev.args:
                c = summaries.canon(eng, st, a)
                if re.search(r"\balgorithm\b", c):
                    mentions_alg = True
                elif re.search(r"transform", c) or (tr_none and isinstance(summaries.deref_val(eng, st, a), mirsym.Str)):
                    mentions_tr = True
        return z3.BoolVal(mentions_alg and mentions_tr)
    e_open = oblig.engine(prog, unroll=0, inline=INL, extra=dict(PURE, **{r"^(core::fmt::rt::)?Argument::new_(display|debug)$": _rec_fmt}))
    ps = e_open.run(HC("open"))
    eng.encoded.update(e_open.encoded)
    finish(oblig.check_paths(e_open, ps, "open: the tree name is formatted from both the hash function and the transform", open_prop, fns(),
                             key="cache:tree-name", allow=("return", "panic", "diverge", "bound")), "tree-name")

    # ---- new_cached: the cache is opened for this hasher's algorithm and its complete transform command
    import optsum as _opt
    from obligations.C11 import template_format as _tf
    e_nc = oblig.engine(prog, unroll=0, inline=oblig.module_inliner(prog, "hasher.rs", r"HashCache::"),
                        extra=dict(_opt.SUMMARIES, **{
                            r"^(std::fmt::|alloc::fmt::)?format$": _tf,
                            r"^(core::fmt::rt::)?Argument::new_(display|debug)$": lambda e, st, c, a, d: Agg("fmtarg", {0: a[0]}),
                            r"^(std::fmt::|core::fmt::)?Arguments::(new|new_const|from_str)$": lambda e, st, c, a, d: Agg("fmtargs", {0: a[0], 1: a[1] if len(a) > 1 else Agg("array", {})})}))
    fnc = prog.method("FileHasher", "new_cached")
    i_cmd = prog.src.field_index("Transform", "command_str")
    i_inp = prog.src.field_index("Transform", "in_place")
    in_place = z3.Bool("T.in_place")
    tval = Agg("transform::Transform", {i_inp: Bool(in_place)}, base="T")
    alg = Lazy("alg", fnc.args[0][1])
    descs = []

    def describe(p, v):
        """what the string handed to the cache is made of: canonical text, views (as_str / deref ..) followed to their source"""
        st = _st(p)
        for _ in range(6):
            src = [ev for ev in p.events if ev.kind == "call" and ev.ret is v and ev.args and re.search(r"as_str$|[Dd]eref|as_ref$|as_deref$|borrow$|clone$|to_string$|to_owned$", ev.callee)]
            if not src:
                break
            v = src[0].args[0]
        return summaries.canon(e_nc, st, v)
    for label, targ in (("with a transform", EnumV("Option", "Some", 1, {0: tval})), ("without a transform", EnumV("Option", "None", 0, {}))):
        ps = e_nc.run(fnc, args=[alg, targ, Lazy("log", fnc.args[2][1])])

        def nc_prop(p, targ=targ):
            od = called(p, r"HashCache::open(_default)?$")
            if not (p.status == "return" and isinstance(p.result, EnumV) and p.result.variant == "Ok"):
                return None
            if len(od) != 1:
                return z3.BoolVal(False)
            a_tr, a_alg = od[0].args[-2], od[0].args[-1]
            if a_alg is not alg:
                return z3.BoolVal(False)
            if targ.variant == "None":
                ok = isinstance(a_tr, EnumV) and a_tr.variant == "None"
            else:
                ok = False
                if isinstance(a_tr, EnumV) and a_tr.variant == "Some":
                    v = a_tr.fields.get(0)
                    # the string handed over is the transform's complete `command_str` (a view of it, or a text built around it)
                    d = describe(p, v)
                    descs.append((list(p.pc), d))
                    ok = "command_str" in d or ".%d" % i_cmd in d
            r = p.result.fields[0]
            same = isinstance(r, Agg) and any(v is alg for v in r.fields.values())
            return z3.BoolVal(bool(ok and same))
        finish(oblig.check_paths(e_nc, ps, "new_cached (%s): the cache tree is opened for the hasher's own algorithm and the complete transform command string" % label,
                                 nc_prop, fns(), key="hasher:new_cached", allow=("return", "panic", "diverge", "bound")))
    eng.encoded.update(e_nc.encoded)
    # --in-place selects which bytes are hashed (the program's output vs the file it worked on): the two settings must not share a tree
    o_ip = Obligation("new_cached: the cache tree name depends on --in-place (the two settings hash different bytes for the same command)", "E2 mirsym/z3", fns(),
                      "transform with in_place symbolic")
    o_ip.key = "hasher:new_cached:in-place"
    slv = z3.Solver()
    t_descs = {d for pc, d in descs if slv.check(*(pc + [in_place])) == z3.sat}
    f_descs = {d for pc, d in descs if slv.check(*(pc + [z3.Not(in_place)])) == z3.sat}
    o_ip.queries = 2 * len(descs)
    o_ip.stats = {"paths": len(descs), "states": len(descs), "transitions": o_ip.queries}
    if not descs:
        o_ip.verdict, o_ip.detail = "inconclusive", "no path of new_cached hands a transform string to the cache"
    elif (t_descs & f_descs) and not any("in_place" in d for d in (t_descs & f_descs)):
        o_ip.verdict = "violated"
        o_ip.cex = {"tree_name_built_from": sorted(t_descs & f_descs)[:2]}
        o_ip.detail = "with and without --in-place the tree is named after %s" % sorted(t_descs & f_descs)[0][:120]
    else:
        o_ip.verdict = "holds"
        o_ip.witness = "in-place: %s / not: %s" % (sorted(t_descs)[:1], sorted(f_descs)[:1])
    finish(o_ip)

    # ---- hashers: helpers of hasher.rs are inlined down to the leaves (HashCache::get/put/key, FileMetadata::new, open,
    # stream_hash, Transform::run), so the obligations do not depend on how the hashers are factored into functions
    import optsum
    LEAF = r"(^|::)(open|stream_hash|evict_page_cache_if_low_mem|format_output_stream)$|HashCache::|FileMetadata::new$|Transform::run$|::warn$"

    def inl(c, t):
        return oblig.defined_in(prog, t, "hasher.rs") and not re.search(LEAF, c) and not re.search(LEAF, t.name)
    ex = dict(optsum.SUMMARIES)
    ex.update(PURE)
    eh = oblig.engine(prog, unroll=0, inline=inl, extra=ex)
    FH = lambda n: prog.method("FileHasher", n)

    def cache_protocol(p, transformed):
        """None: irrelevant path; else python bool"""
        if p.status != "return" or not isinstance(p.result, EnumV):
            return None
        get, put = called(p, r"HashCache::get$"), called(p, r"HashCache::put$")
        key, md = called(p, r"HashCache::key$"), called(p, r"FileMetadata::new$")
        sh = called(p, r"(^|::)stream_hash$")
        if not get:
            # no cache / no metadata / no key: nothing may be stored either
            return not put
        if len(get) != 1 or len(key) != 1 or len(md) != 1:
            return False
        ga = get[0].info["args"]
        # the entry is looked up under the key built from this chunk and the metadata just read
        key_ok = ga[1] == key[0].ret.name + "@Ok.0" and ga[2] == md[0].ret.name + "@Ok.0" and key[0].info["args"][1] == "chunk" \
            and key[0].info["args"][2] == ga[2]
        if not key_ok:
            return False
        if p.result.variant != "Ok":
            return not put
        pl = p.result.fields.get(0)
        if isinstance(pl, Lazy) and pl.name.startswith(get[0].ret.name + "@Ok"):
            # hit: the stored value is returned unchanged, nothing is computed or stored
            want = get[0].ret.name + ("@Ok.0@Some.0" if transformed else "@Ok.0@Some.0.1")
            return pl.name == want and not put and not sh
        if len(put) != 1 or len(sh) != 1 or not isinstance(sh[0].ret, Lazy):
            return False
        pa = put[0].info["args"]
        comp = sh[0].ret.name + "@Ok.0"
        same_entry = pa[1] == ga[1] and pa[2] == ga[2]
        if transformed:
            # the stored data length is the length of the transform *output*
            stored_ok = pa[3] == comp + ".0" and pa[4] == comp + ".1" and isinstance(pl, Lazy) and pl.name == comp
        else:
            stored_ok = pa[3] == "chunk*.len" and pa[4] == comp + ".1" and isinstance(pl, Lazy) and pl.name == comp + ".1"
        return same_entry and stored_ok

    ps = eh.run(FH("hash_file"))

    def hf_prop(p):
        r = cache_protocol(p, False)
        return None if r is None else z3.BoolVal(bool(r))
    finish(oblig.check_paths(eh, ps, "hash_file: a hit returns the stored hash; a miss stores the computed hash of exactly this chunk under the looked-up key",
                             hf_prop, fns(), key="hasher:hash_file-cache", allow=("return", "panic", "diverge")))
    ps = eh.run(FH("hash_transformed"))

    def ht_prop(p):
        r = cache_protocol(p, True)
        return None if r is None else z3.BoolVal(bool(r))
    finish(oblig.check_paths(eh, ps, "hash_transformed: a hit returns the stored (length, hash); a miss stores the output length and hash it computed",
                             ht_prop, fns(), key="hasher:hash_transformed-cache", allow=("return", "panic", "diverge", "bound")), "transform-len")
    eng.encoded.update(eh.encoded)
    return rep


def _rec_fmt(e, st, callee, args, dty):
    st.events.append(mirsym.Event("call", "fmt::Argument::new_" + ("debug" if callee.endswith("debug") else "display"), tuple(args), None, len(st.pc), e.site(st)))
    return mirsym.Opaque("fmt")


def _st(p):
    st = mirsym.State()
    st.mem = p.mem
    st.pc = list(p.pc)
    return st


# ------------------------------------------------------------------------- native replay

def groups_of(binary, args, env):
    r = subprocess.run([binary, "group", "-f", "json"] + args, stdout=subprocess.PIPE, stderr=subprocess.PIPE, env=env, timeout=120)
    js = json.loads(r.stdout.decode(errors="replace"))
    return sorted(sorted(os.path.basename(f) for f in g["files"]) for g in js.get("groups", []))


_RW = {}


def concurrent_rewrite_replay(ctx):
    """native (replay/hasher_cache_test.rs): a file is rewritten in place while hash_file reads it; a later cached call must not
    return the hash of the bytes read before the rewrite"""
    if "r" in _RW:
        return _RW["r"]
    import sys
    from common import VERIF, copy_repo, scratch_root
    sys.path.insert(0, os.path.join(VERIF, "replay"))
    devs = []
    try:
        import native_driver
        src = copy_repo("hasher-replay-src")
        drv = native_driver.NativeDriver(src, scratch_root(), [("hasher", "hasher_cache_test.rs", "verif_hasher_cache_test")])
        out = drv.run("hasher::verif_hasher_cache_test::verif_hasher_cache_driver", ["RW " + os.path.join(scratch_root(), "rw-replay").encode().hex()], "hc")
        if out and out[0].startswith("stale"):
            devs.append({"history": "file rewritten in place (same length, new mtime) while hash_file was reading it; next cached call",
                         "cached": out[0].split()[1], "uncached": out[0].split()[2]})
    except Exception:   # noqa
        pass
    _RW["r"] = devs
    return devs


def battery(o, ctx):
    """fallback confirmation: the cached-vs-uncached history battery (replay/batteries.py) on the real binary"""
    import sys
    sys.path.insert(0, os.path.join(os.path.dirname(os.path.dirname(os.path.abspath(__file__))), "replay"))
    import batteries
    try:
        binary = native.build_binary(ctx.src)
    except Inconclusive as e:
        o.verdict, o.detail = "inconclusive", "replay build failed: %s" % e
        return
    devs = batteries.c12_battery(binary)
    if not devs:
        devs = concurrent_rewrite_replay(ctx)
    o.cex = dict(o.cex or {}, native_battery=devs[:5])
    if devs:
        o.verdict = "violated"
        o.stats["traces_validated"] = 1
        o.detail = (o.detail.split("counterexample did not reproduce")[0] + " replayed natively (history battery): %s" % json.dumps(devs[0])[:400]).strip()
    else:
        o.verdict = "inconclusive"
        o.detail += "; the cached-vs-uncached history battery found no deviation either"


def replay(o, ctx, scenario):
    try:
        binary = native.build_binary(ctx.src)
    except Inconclusive as e:
        o.verdict, o.detail = "inconclusive", "replay build failed: %s" % e
        return
    d = tempfile.mkdtemp(prefix="c12replay.")
    try:
        root = os.path.join(d, "root")
        os.makedirs(root)
        env = dict(os.environ, HOME=d, XDG_CACHE_HOME=os.path.join(d, "cache"))
        devs = []
        a, b = os.path.join(root, "a.bin"), os.path.join(root, "b.bin")
        if scenario == "mtime-ms":
            for p in (a, b):
                open(p, "wb").write(b"A" * 5000)
                os.utime(p, ns=(1_600_000_000_100_000_000, 1_600_000_000_100_000_000))
            g1 = groups_of(binary, ["--cache", root], env)
            with open(b, "r+b") as f:
                f.seek(2500); f.write(b"B")
            os.utime(b, ns=(1_600_000_000_600_000_000, 1_600_000_000_600_000_000))
            cached = groups_of(binary, ["--cache", root], env)
            plain = groups_of(binary, [root], env)
            if cached != plain:
                devs.append({"scenario": "same-length edit within the same second (mtime .100 -> .600)", "cached": cached, "uncached": plain})
        elif scenario == "tree-name":
            for p in (a, b):
                open(p, "wb").write(b"A" * 5000)
            groups_of(binary, ["--cache", "--hash-fn", "metro", root], env)
            c = os.path.join(root, "c.bin")
            open(c, "wb").write(b"A" * 5000)
            for extra in (["--hash-fn", "blake3"], ["--hash-fn", "sha256"], ["--transform", "cat"]):
                cached = groups_of(binary, ["--cache"] + extra + [root], env)
                plain = groups_of(binary, extra + [root], env)
                if cached != plain:
                    devs.append({"scenario": "second cached run with %s" % " ".join(extra), "cached": cached, "uncached": plain})
        elif scenario == "transform-len":
            open(a, "wb").write(b"xxhello")
            open(b, "wb").write(b"hello")
            args = ["--transform", "tr -d x", root]
            groups_of(binary, ["--cache"] + args, env)
            os.rename(a, os.path.join(root, "a2.bin"))
            cached = groups_of(binary, ["--cache"] + args, env)
            plain = groups_of(binary, args, env)
            if cached != plain:
                devs.append({"scenario": "warm cache + transform whose output lengths equal while input lengths differ", "cached": cached, "uncached": plain})
        o.cex["native_replay"] = devs
        if devs:
            o.stats["traces_validated"] = 1
            o.detail += "; replayed natively: %s" % json.dumps(devs[0])[:300]
        else:
            o.verdict, o.detail = "inconclusive", "counterexample did not reproduce through the CLI (scenario %s)" % scenario
    finally:
        shutil.rmtree(d, ignore_errors=True)
