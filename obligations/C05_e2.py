"""C05 / C18 / C20, E2 part: what the Kani harnesses stub.

The Kani model file system replaces the thin wrappers FsCommand::{remove, unsafe_rename, hardlink, symlink, unsafe_copy, mkdirs,
check_can_rename, temp_file}.  Their own code is decided here on the MIR:
 * every wrapper issues exactly one std::fs call on the paths it was given (in the order given) and returns Err iff that call
   failed - an error of any kind is passed on (with a message), never swallowed, never invented;
 * check_can_rename returns Err iff the target exists;
 * temp_file(path) is a sibling of path (same parent) named <file name>.<suffix> with a random alphanumeric suffix of constant
   length >= 8 (the documented 24), so the temporary name is fresh whatever the length of the file name.
Counterexamples are replayed natively: replay/fsops_replay.py (fault plans with every error class) and replay/dedupe_test.rs."""
import os
import re
import sys

import z3

import mirsym
import oblig
import optsum
import summaries
from common import Inconclusive, Obligation, VERIF, copy_repo, scratch_root
from mirsym import Agg, Bool, EnumV, Int, Lazy, Ref

WRAPPERS = [
    ("remove", r"fs::remove_file$|(^|::)remove_file$", 1),
    ("unsafe_rename", r"fs::rename$|(^|::)rename$", 2),
    ("hardlink", r"fs::hard_link$|(^|::)hard_link$", 2),
    ("symlink", r"(^|::)symlink(_file)?$", 2),
    ("unsafe_copy", r"fs::copy$|(^|::)copy$", 2),
    ("mkdirs", r"(^|::)create_dir_all$", 1),
]


RESOLVE = r"fs::canonicalize$|(^|::)canonicalize$"


def origin(eng, p, st, v, depth=8, trail=None):
    """name of the function argument (p0, p1, ..) a value is derived from through conversions (to_path_buf, as_ref, deref, borrow ..)
    and symlink resolution (the Ok payload of fs::canonicalize); `trail` collects the callees passed on the way"""
    for _ in range(depth):
        cn = summaries.canon(eng, st, v)
        m = re.fullmatch(r"&?(p\d)\*?", cn.strip())
        if m:
            return m.group(1)
        ok = re.fullmatch(r"(.+)@Ok\.0", cn.strip())
        if ok:
            prod = [ev for ev in p.events if ev.kind == "call" and ev.ret is not None and summaries.canon(eng, st, ev.ret) == ok.group(1)
                    and re.search(RESOLVE, ev.callee)]
            if not prod or not prod[0].args:
                return cn
            if trail is not None:
                trail.append(prod[0].callee)
            v = prod[0].args[0]
            continue
        prod = [ev for ev in p.events if ev.kind == "call" and ev.ret is not None and summaries.canon(eng, st, ev.ret) == cn]
        if not prod or not prod[0].args:
            return cn
        if not re.search(r"to_path_buf$|as_ref$|[Dd]eref|borrow$|as_path$|into$|from$|clone$", prod[0].callee):
            return cn
        if trail is not None:
            trail.append(prod[0].callee)
        v = prod[0].args[0]
    return None


def called(p, pat):
    return [ev for ev in p.events if ev.kind == "call" and re.search(pat, ev.callee)]


def add(rep, ctx, replayer=None):
    prog = ctx.lib
    ex = dict(optsum.SUMMARIES)
    inl = oblig.module_inliner(prog, "dedupe.rs", r"^$")
    for name, pat, nargs in WRAPPERS:
        try:
            f = prog.method("FsCommand", name)
        except Exception:   # noqa
            o = Obligation("FsCommand::%s" % name, "E2 mirsym/z3")
            o.verdict, o.detail = "inconclusive", "function not found in the MIR"
            rep.add(o)
            continue
        eng = oblig.engine(prog, inline=inl, extra=ex, unroll=0)
        args = [Lazy("p%d" % i, t) for i, (n, t) in enumerate(f.args)]
        ps = eng.run(f, args=args)

        def prop(p, pat=pat, nargs=nargs, args=args):
            if p.status != "return" or not isinstance(p.result, EnumV):
                return z3.BoolVal(False)
            c = called(p, pat)
            pre = called(p, RESOLVE)
            if len(c) > 1 or len(pre) > 1 or not all(isinstance(ev.ret, Lazy) for ev in c + pre):
                return z3.BoolVal(False)
            st = mirsym.State()
            st.mem, st.pc = p.mem, list(p.pc)
            # the i-th path handed to the std call derives from the i-th argument (through to_path_buf / as_ref; a link source may
            # have been resolved with fs::canonicalize first)
            ok = True
            for ev in c:
                for i in range(nargs):
                    ok = ok and origin(eng, p, st, ev.args[i]) == "p%d" % i
            for ev in pre:
                ok = ok and origin(eng, p, st, ev.args[0]) == "p0"
            fl = lambda ev: z3.BitVec(mirsym.sanitize(ev.ret.name + "#d"), 64) == 1
            failed = z3.Or([fl(ev) for ev in pre + c]) if pre + c else z3.BoolVal(False)
            # the operation itself is skipped only when the resolution before it failed
            issued = z3.BoolVal(True) if c else (z3.Or([fl(ev) for ev in pre]) if pre else z3.BoolVal(False))
            return z3.And(z3.BoolVal(bool(ok)), issued, z3.BoolVal(p.result.variant == "Err") == failed)
        o = oblig.check_paths(eng, ps, "FsCommand::%s: exactly one std::fs operation on the given path(s); Err iff a call it made failed (no error is swallowed)" % name,
                              prop, oblig.fnames(eng), key="wrapper:%s" % name)
        if o.verdict == "violated" and replayer:
            replayer(o, name)
        rep.add(o)

    # check_can_rename
    f = prog.method("FsCommand", "check_can_rename")
    eng = oblig.engine(prog, inline=inl, extra=ex, unroll=0)
    args = [Lazy("p%d" % i, t) for i, (n, t) in enumerate(f.args)]
    ps = eng.run(f, args=args)

    def cprop(p):
        if p.status != "return" or not isinstance(p.result, EnumV):
            return z3.BoolVal(False)
        exs = [ev for ev in called(p, r"::(try_)?exists$|symlink_metadata$|::metadata$") if isinstance(ev.ret, (Bool, Lazy))]
        if len(exs) != 1:
            return z3.BoolVal(False)
        st = mirsym.State()
        st.mem, st.pc = p.mem, list(p.pc)
        on_target = origin(eng, p, st, exs[0].args[0]) == "p1"
        if isinstance(exs[0].ret, Bool):
            return z3.And(z3.BoolVal(on_target), z3.BoolVal(p.result.variant == "Err") == exs[0].ret.t)
        # a metadata query: whatever kind of entry it finds (file, directory, symlink, special file) counts as existing
        found = z3.BitVec(mirsym.sanitize(exs[0].ret.name + "#d"), 64) == 0
        return z3.And(z3.BoolVal(on_target), z3.BoolVal(p.result.variant == "Err") == found)
    o = oblig.check_paths(eng, ps, "FsCommand::check_can_rename: Err iff something exists at the target", cprop, oblig.fnames(eng), key="wrapper:check_can_rename")
    if o.verdict == "violated" and replayer:
        replayer(o, "check_can_rename")
    rep.add(o)

    # temp_file
    f = prog.method("FsCommand", "temp_file")
    eng = oblig.engine(prog, inline=None, extra=ex, unroll=0)
    pv = Lazy("path", f.args[0][1])
    ps = eng.run(f, args=[pv])

    def tprop(p):
        if p.status != "return":
            return None
        tk = [ev for ev in p.events if ev.kind == "call" and re.search(r"Iterator>::take$|::take$", ev.callee)]
        smp = called(p, r"sample_iter$|Alphanumeric|sample_string$")
        if len(tk) != 1 or not smp or not isinstance(tk[0].args[1], Int):
            return z3.BoolVal(False)
        n = z3.simplify(tk[0].args[1].t)
        if not z3.is_bv_value(n):
            return z3.BoolVal(False)        # the suffix length depends on the input
        fnm = [ev for ev in called(p, r"Path::file_name$") if ev.args and ev.args[0] is pv]
        par = [ev for ev in called(p, r"Path::parent$") if ev.args and ev.args[0] is pv]
        pushes = called(p, r"OsString::push$|String::push_str$")
        joined = called(p, r"Path::join$")
        same_dir = bool(par) and len(joined) <= 1 and all(any(e.ret is not None and getattr(e.ret, "name", "?") in repr(j.args[0]) for e in par) for j in joined)
        return z3.BoolVal(bool(n.as_long() >= 8 and fnm and len(pushes) >= 2 and same_dir))
    o = oblig.check_paths(eng, ps, "FsCommand::temp_file: a sibling named <file name>.<random alphanumeric suffix of constant length >= 8>, whatever the length of the name",
                          tprop, oblig.fnames(eng), key="wrapper:temp_file", allow=("return", "panic", "diverge"))
    if o.verdict == "violated":
        dev = temp_file_native()
        if dev:
            o.stats["traces_validated"] = 1
            o.cex = dict(o.cex or {}, native=dev)
            o.detail += "; replayed natively: %s" % dev
        elif dev is not None:
            o.verdict = "inconclusive"
            o.detail += "; the real temp_file gives fresh sibling names for short and for 254-byte file names"
    rep.add(o)


def temp_file_native():
    sys.path.insert(0, os.path.join(VERIF, "replay"))
    try:
        import native_driver
        src = copy_repo("dedupe-replay-src")
        drv = native_driver.NativeDriver(src, scratch_root(), [("dedupe", "dedupe_test.rs", "verif_dedupe_test")])
    except Exception:   # noqa
        return None
    names = [b"/d/f", b"/d/" + b"n" * 200, b"/d/" + b"n" * 254, b"/d/" + b"n" * 255, b"f"]
    out = drv.run("dedupe::verif_dedupe_test::verif_dedupe_driver", ["TF " + " ".join(n.hex() for n in names)] * 2, "tf")
    if len(out) < 2 or out[0] in ("PANIC", "?"):
        return {"problem": "temp_file panics"}
    a = [bytes.fromhex(h) for h in out[0].split()]
    b = [bytes.fromhex(h) for h in out[1].split()]
    for n, t1, t2 in zip(names, a, b):
        base = os.path.basename(n)
        suf = os.path.basename(t1)[len(base):]
        if os.path.dirname(t1) != os.path.dirname(n) or not os.path.basename(t1).startswith(base + b".") or len(suf) < 9 or t1 == t2 or not suf[1:].isalnum():
            return {"file_name_length": len(base), "temp_name_suffix": repr(suf), "second_call_suffix": repr(os.path.basename(t2)[len(base):]),
                    "problem": "temporary sibling name is not <name>.<fresh random suffix>"}
    return {}


def reflink_protocol(rep, ctx):
    """reflink::linux_reflink (the `dedupe` command on Linux): the file is first cloned to a temporary sibling (backup), only then
    overwritten with a clone of the retained file; if the overwrite fails the backup is renamed back (a warning if that fails too) and
    the error is returned; the backup is removed only after a successful overwrite (or when the backup itself could not be made)."""
    prog = ctx.lib
    cands = [f for n, f in prog.fns.items() if re.search(r"(^|::)linux_reflink$", n)]
    o = Obligation("linux_reflink: backup clone -> overwrite -> (restore the backup on failure | remove it on success); the error is returned",
                   "E2 mirsym/z3", [], "loop-free; reflink_overwrite, FsCommand::{temp_file, remove, unsafe_rename} are leaves")
    o.key = "reflink:protocol"
    if len(cands) != 1:
        o.verdict, o.detail = "inconclusive", "linux_reflink: %d candidates" % len(cands)
        rep.add(o)
        return
    f = cands[0]
    inl = lambda c, t: oblig.defined_in(prog, t, "reflink.rs") and not re.search(r"reflink_overwrite|restore_metadata|get_xattrs|restore_xattrs", t.name)
    eng = oblig.engine(prog, inline=inl, extra=dict(optsum.SUMMARIES))
    ps = eng.run(f, args=[Lazy("src", f.args[0][1]), Lazy("dest", f.args[1][1]), Lazy("log", f.args[2][1])])

    def where(p, st, v):
        """'dest' / 'src' / 'tmp' / other"""
        for _ in range(6):
            cn = summaries.canon(eng, st, v)
            if re.match(r"&?dest\*?\.", cn):
                return "dest"
            if re.match(r"&?src\*?\.", cn):
                return "src"
            prod = [ev for ev in p.events if ev.kind == "call" and ev.ret is not None and summaries.canon(eng, st, ev.ret) == cn.lstrip("&")]
            if not prod:
                return cn
            if re.search(r"temp_file$", prod[0].callee):
                return "tmp" if where(p, st, prod[0].args[0]) == "dest" else "tmp?"
            if not prod[0].args:
                return cn
            v = prod[0].args[0]
        return "?"

    def failed(ev):
        return z3.BitVec(mirsym.sanitize(ev.ret.name + "#d"), 64) == 1

    def prop(p):
        if p.status != "return" or not isinstance(p.result, EnumV):
            return z3.BoolVal(False)
        st = mirsym.State()
        st.mem, st.pc = p.mem, list(p.pc)
        ro = called(p, r"(^|::)reflink_overwrite$")
        rm = called(p, r"FsCommand::remove$")
        rn = called(p, r"FsCommand::unsafe_rename$")
        other = called(p, r"FsCommand::(hardlink|symlink|unsafe_copy)$|fs::(remove_file|rename|copy|write)$")
        warn = called(p, r"::warn$")
        if not ro or other or not all(isinstance(e.ret, Lazy) for e in ro + rm + rn):
            return z3.BoolVal(False)
        conj = []
        # 1. backup: dest -> tmp
        conj.append(z3.BoolVal(where(p, st, ro[0].args[0]) == "dest" and where(p, st, ro[0].args[1]) == "tmp"))
        is_err = z3.BoolVal(p.result.variant == "Err")
        if len(ro) == 1:
            # the backup failed (otherwise the overwrite would have been attempted)
            conj.append(failed(ro[0]))
            conj.append(is_err)
            conj.append(z3.BoolVal(not rn and len(rm) <= 1 and all(where(p, st, e.args[0]) == "tmp" for e in rm)))
        elif len(ro) == 2:
            conj.append(z3.Not(failed(ro[0])))
            conj.append(z3.BoolVal(where(p, st, ro[1].args[0]) == "src" and where(p, st, ro[1].args[1]) == "dest"))
            ok2 = z3.Not(failed(ro[1]))
            conj.append(is_err == failed(ro[1]))
            # success: the backup is removed, nothing is renamed; failure: the backup is renamed back, not removed
            conj.append(z3.Implies(ok2, z3.BoolVal(len(rm) == 1 and not rn and where(p, st, rm[0].args[0]) == "tmp" if rm else False)))
            conj.append(z3.Implies(failed(ro[1]), z3.BoolVal(len(rn) == 1 and not rm and where(p, st, rn[0].args[0]) == "tmp" and where(p, st, rn[0].args[1]) == "dest" if rn else False)))
            if rn:
                conj.append(z3.Implies(failed(rn[0]), z3.BoolVal(bool(warn))))
        else:
            return z3.BoolVal(False)
        return z3.And(*conj)
    o2 = oblig.check_paths(eng, ps, o.name, prop, oblig.fnames(eng), key=o.key)
    o2.bounds = o.bounds
    rep.add(o2)


def hardlink_source(rep, ctx, replayer=None):
    """C02 ("every original path still exists and reads back exactly the same bytes"): link(2) / fs::hard_link does not follow a
    symbolic link given as the source - the new name becomes a second name of the *symlink*.  The retained path of a group can be a
    symbolic link (reports of `group --symbolic-links` list links next to their targets in one sub-group), and a relative symlink
    hard-linked into another directory dangles.  Obligation: on every path of FsCommand::hardlink that reaches fs::hard_link, the
    source handed to it is the Ok payload of fs::canonicalize of the `target` argument (symlinks resolved)."""
    prog = ctx.lib
    f = prog.method("FsCommand", "hardlink")
    eng = oblig.engine(prog, inline=oblig.module_inliner(prog, "dedupe.rs", r"^$"), extra=dict(optsum.SUMMARIES), unroll=0)
    args = [Lazy("p%d" % i, t) for i, (n, t) in enumerate(f.args)]
    ps = eng.run(f, args=args)

    def prop(p):
        if p.status != "return":
            return None
        c = called(p, WRAPPERS[2][1])
        if not c:
            return None
        st = mirsym.State()
        st.mem, st.pc = p.mem, list(p.pc)
        good = True
        for ev in c:
            trail = []
            root = origin(eng, p, st, ev.args[0], trail=trail)
            good = good and root == "p0" and any(re.search(RESOLVE, t) for t in trail)
        return z3.BoolVal(bool(good))
    o = oblig.check_paths(eng, ps, "FsCommand::hardlink: the link source is the retained path with symbolic links resolved (a hard link to a symlink dangles elsewhere)",
                          prop, oblig.fnames(eng), key="wrapper:hardlink:source-may-be-a-symlink")
    if o.verdict == "violated" and replayer:
        replayer(o)
    rep.add(o)


def hardlink_resolves(prog):
    """does FsCommand::hardlink hand fs::hard_link the canonicalized target on every path that reaches it? (C11 uses this to decide
    which `ln` the script has to print: `ln -L` dereferences the source like the real run, plain `ln` / `ln -P` does not)"""
    f = prog.method("FsCommand", "hardlink")
    eng = oblig.engine(prog, inline=oblig.module_inliner(prog, "dedupe.rs", r"^$"), extra=dict(optsum.SUMMARIES), unroll=0)
    args = [Lazy("p%d" % i, t) for i, (n, t) in enumerate(f.args)]
    seen, res = 0, True
    for p in eng.run(f, args=args):
        if p.status != "return":
            continue
        st = mirsym.State()
        st.mem, st.pc = p.mem, list(p.pc)
        for ev in called(p, WRAPPERS[2][1]):
            trail = []
            origin(eng, p, st, ev.args[0], trail=trail)
            seen += 1
            res = res and any(re.search(RESOLVE, t) for t in trail)
    if not seen:
        raise Inconclusive("FsCommand::hardlink: no path reaches fs::hard_link")
    return res
