"""C07 - `group` and `--dry-run` never modify the scanned tree (claimed in part).

E2: (O1) Transform::make_args with the argument closure invoked for every combination of $IN / $OUT occurrences, copy and
in_place symbolic, together with the Drop impls of Input / Output: every path that is removed on drop or written
(copy target, named pipe, in-place output) derives from the temp dir, never from the scanned file; the private copy is made
with fs::copy into a fresh random name.  (O2) files are opened read-only.  (O3) run_dedupe: dry_run <=> the script is only
printed.  (O4) the cache lives in the user cache dir."""
import json
import os
import re
import shutil
import subprocess
import tempfile

import z3

import mirsym
import native
import oblig
import summaries
from common import Inconclusive, Obligation, Report
from mirsym import Agg, Bool, EnumV, Int, Lazy, ListV, Ref, Str, Unit


def called(p, pattern):
    return [e for e in p.events if e.kind == "call" and re.search(pattern, e.callee)]


def _st(p):
    st = mirsym.State()
    st.mem = p.mem
    st.pc = list(p.pc)
    return st


MUTATORS = r"(^|::)(remove_file|remove_dir|remove_dir_all|rename|write|set_permissions|set_len|create|create_new|create_dir|create_dir_all|hard_link|symlink|truncate|set_times|set_modified)$"


def add_transform_obligations(rep, ctx):
    """the temp-file obligations of the transform machinery; also part of C01 (colliding temp copies mix up file contents)"""
    return run(rep, ctx, True)


def run(rep_in=None, ctx_in=None, only_transform=False):
    rep = rep_in or Report(
        "C07", "other",
        "Bounded symbolic execution (mirsym/z3): Transform::make_args with its argument closure invoked for the variable "
        "sequences [], [IN], [OUT], [IN, OUT] (copy / in_place symbolic), composed with the Drop impls of Input and Output: the "
        "set of paths that are deleted on drop or written is computed per path and must derive from the temp dir; "
        "Input::prepare_input_file copies (never links) into a fresh random name; hasher::open_noatime sets only read(true) "
        "(+O_NOATIME); run_dedupe prints the script iff --dry-run and executes it otherwise; the cache path is "
        "dirs::cache_dir()/fclones.  Counterexamples are replayed through the CLI.",
        assumptions=["parse_command calls its closure once per $VAR occurrence, in order (nom parser outside the encoding)",
                     "tmp_dir is outside the scanned tree (std::env::temp_dir())"],
        outside=["what the user's transform program does", "atime semantics", "sled's own files", "the bodies of log_script's threads"])
    ctx = ctx_in or oblig.Ctx()
    prog = ctx.lib
    if rep_in is None:
        oblig.install_battery(rep, ctx, ["c07_battery"])

    def finish(o, scenario=None):
        if o.verdict == "violated" and scenario:
            replay(o, ctx, scenario)
            if o.verdict == "inconclusive":
                o.verdict = "violated"       # let the snapshot battery (install_battery) try
        rep.add(o)

    # ---------------------------------------------------------------- O1 make_args x Drop
    try:
        # which variants delete which field on drop
        eng = oblig.engine(prog, unroll=0)
        drops = {}
        for ty in ("Input", "Output"):
            fs = [f for f in prog.by_last.get("drop", []) if prog.impl_info(f)[1] == ty]
            if len(fs) != 1:
                raise Inconclusive("Drop impl of transform::%s: %d found" % (ty, len(fs)))
            variants = prog.src.enums.get(ty)
            removed = {}
            for vi, vn in enumerate(variants):
                nfields = 2 if (ty, vn) == ("Input", "Copied") else (0 if vn in ("StdOut",) else 1)
                val = EnumV(ty, vn, vi, {i: Lazy("%s_%s_%d" % (ty, vn, i), "PathBuf") for i in range(nfields)})
                mem = {"self": val}
                ps = eng.run(fs[0], args=[Ref("self", (), True)], mem=mem)
                rm = set()
                for p in ps:
                    for ev in called(p, r"remove_file$|remove_dir_all$|remove_dir$"):
                        rm.add((ev.info or {}).get("args", ["?"])[0])
                removed[vn] = sorted(rm)
            drops[ty] = removed
        rep.extra["removed_on_drop"] = drops

        ma = prog.method("Transform", "make_args")
        clos = prog.closures_of(ma)
        if len(clos) != 1:
            raise Inconclusive("make_args: %d closures" % len(clos))
        bad, seen = [], 0
        for seq in ([], ["IN"], ["OUT"], ["IN", "OUT"], ["OUT", "IN"]):
            def s_parse(e, st, callee, args, dty, seq=seq):
                clo = args[1]
                cf = clos[0]
                calls = []
                for v in seq:
                    a0 = clo
                    if cf.args and mirsym.is_ref_type(cf.args[0][1]) and not isinstance(clo, Ref):
                        st.mem["pc_clo"] = clo
                        a0 = Ref("pc_clo", (), True)
                    calls.append((cf, [a0, Str(mirsym.bytes_to_items(v.encode()), "str")]))
                return ("invoke_seq", calls, ListV((), "Vec"))
            extra = {
                r"(^|::)parse_command$": s_parse,
                r"Path::to_path_buf$": summaries.pure("scanned"),
                r"(PathBuf|Path)::join$": summaries.pure("join"),
                r"new_v4$": _fresh_uuid,
                r"Uuid::as_u128$": summaries.pure("as_u128"),
                r"Path::hash128$": summaries.pure("hash128"),
                r"Path::file_name$|PathBuf::file_name$": summaries.pure("file_name"),
                r"^(core::fmt::rt::)?Argument::new_(display|debug|lower_hex|upper_hex)$": lambda e, st, c, a, d: Agg("fmtarg", {0: a[0]}),
                r"^(std::fmt::|core::fmt::)?Arguments::(new|new_const|from_str)$": lambda e, st, c, a, d: Agg("fmtargs", {0: a[0], 1: a[1] if len(a) > 1 else Agg("array", {})}),
                r"^(std::fmt::|alloc::fmt::)?format$": _format_pure,
                r"^(std::cell::)?RefCell::new$": lambda e, st, c, a, d: Agg("RefCell", {0: a[0]}),
                r"^(std::cell::)?RefCell::into_inner$": lambda e, st, c, a, d: a[0].fields[0] if isinstance(a[0], Agg) else NotImplemented,
                r"^(std::cell::)?RefCell::replace$": _refcell_replace,
                r"^<.*PathBuf as Clone>::clone$|PathBuf::into_os_string$|<.* as (std::convert::)?From<.*>>::from$": lambda e, st, c, a, d: summaries.deref_val(e, st, a[0]),
            }
            import strsum
            extra.update({k: v for k, v in strsum.STR.items() if "starts_with" in k})
            eng2 = oblig.engine(prog, unroll=2, inline=r"transform::<impl[^>]*>::(input_path|random_tmp_file_name|output|tmp_\w+|\w*file_name\w*)$", extra=dict(extra, **{r"<str as PartialEq>::eq$|<&str as PartialEq.*>::eq$|core::str::.*::eq$": _str_eq}))
            ps = eng2.run(ma)
            for p in ps:
                if p.status in ("abort", "bound"):
                    raise Inconclusive("make_args path %s: %s" % (p.status, p.note[:160]))
                if p.status != "return" or not isinstance(p.result, Agg):
                    continue
                seen += 1
                inp, outp = p.result.fields.get(1), p.result.fields.get(2)
                if not (isinstance(inp, EnumV) and isinstance(outp, EnumV)):
                    raise Inconclusive("make_args result not understood: %r" % (p.result,))
                st = _st(p)
                danger = []          # paths deleted on drop or written by fclones / the child
                if inp.variant == "Copied":
                    danger.append(("copy target / removed on drop", summaries.canon(eng2, st, inp.fields.get(1))))
                for i in range(len(inp.fields)):
                    if ("%s_%s_%d" % ("Input", inp.variant, i)) in drops["Input"].get(inp.variant, []):
                        danger.append(("Input::%s field %d removed on drop" % (inp.variant, i), summaries.canon(eng2, st, inp.fields.get(i))))
                for i in range(len(outp.fields)):
                    if ("%s_%s_%d" % ("Output", outp.variant, i)) in drops["Output"].get(outp.variant, []):
                        danger.append(("Output::%s field %d removed on drop" % (outp.variant, i), summaries.canon(eng2, st, outp.fields.get(i))))
                    if outp.variant == "Named":
                        danger.append(("named pipe created", summaries.canon(eng2, st, outp.fields.get(i))))
                for what, c in danger:
                    temp_derived = c.startswith("join_self*.tmp_dir") and "scanned" not in c.split("join_self*.tmp_dir", 1)[0]
                    unique = ("uuid" in c) if what.startswith("copy target") else True
                    if not temp_derived or "scanned_input_;" in c[:20] or not unique:
                        what = what + ("" if unique else " (name is not a fresh random name: concurrent runs on equally named files collide)")
                        bad.append({"variables": seq, "path_condition": [str(z3.simplify(x)) for x in p.pc], "what": what, "path": c,
                                    "input": inp.variant, "output": outp.variant})
        o = Obligation("transform: every path deleted on drop, created or written by a transform run derives from the temp dir, never the scanned file",
                       "E2 mirsym/z3", oblig.fnames(eng) + oblig.fnames(eng2), "variable sequences [], [IN], [OUT], [IN,OUT], [OUT,IN]; copy, in_place symbolic")
        o.key = "transform:temp-only"
        o.queries = eng.queries + eng2.queries
        o.stats = {"paths": seen, "states": seen, "transitions": seen}
        if bad:
            o.verdict = "violated"
            o.cex = {"cases": bad[:4]}
            o.detail = "%s with $%s: %s is %s" % (bad[0]["path_condition"], bad[0]["variables"], bad[0]["what"], bad[0]["path"])
            finish(o, "tmp-collision" if all("fresh random" in b["what"] for b in bad) else "in-place-no-copy")
        elif not seen:
            o.verdict, o.detail = "inconclusive", "vacuous"
            rep.add(o)
        else:
            o.verdict = "holds"
            rep.add(o)
    except Inconclusive as ex:
        o = Obligation("transform temp files", "E2 mirsym/z3")
        o.verdict, o.detail = "inconclusive", str(ex)
        rep.add(o)

    # ---------------------------------------------------------------- prepare_input_file copies into a random name
    try:
        eng = oblig.engine(prog, unroll=0)
        pif = prog.method("Input", "prepare_input_file")
        idx = prog.src.variant_index("Input", "Copied")
        mem = {"self": EnumV("Input", "Copied", idx, {0: Lazy("src", "PathBuf"), 1: Lazy("target", "PathBuf")})}
        ps = eng.run(pif, args=[Ref("self", (), False)], mem=mem)

        def prop(p):
            cp = called(p, r"(^|::)copy$")
            other = called(p, r"hard_link|symlink|rename|reflink")
            st = _st(p)
            ok = len(cp) == 1 and not other and "src" in summaries.canon(eng, st, cp[0].args[0]) and "target" in summaries.canon(eng, st, cp[0].args[1])
            # on every path - also when the copy failed - the scanned file itself is only ever read
            for ev in called(p, MUTATORS):
                if any("src" in summaries.canon(eng, st, a) for a in (ev.args or ())):
                    ok = False
            return z3.BoolVal(bool(ok))
        finish(oblig.check_paths(eng, ps, "the private $IN file is an independent copy (fs::copy), not a link to the scanned file", prop,
                                 oblig.fnames(eng), key="transform:copy"), "in-place-copy")
        rt = prog.method("Transform", "random_tmp_file_name")
        ps = eng.run(rt)

        def rprop(p):
            return z3.BoolVal(bool(called(p, r"new_v4$")) and bool(called(p, r"::join$")))
        finish(oblig.check_paths(eng, ps, "temporary file names are fresh random names inside the temp dir", rprop, oblig.fnames(eng),
                                 key="transform:random-name"), "tmp-collision")
    except Inconclusive as ex:
        o = Obligation("transform copy", "E2 mirsym/z3")
        o.verdict, o.detail = "inconclusive", str(ex)
        rep.add(o)

    # ---------------------------------------------------------------- Transform::new: where `copy` and the temp dir come from
    try:
        import optsum as _opt2
        tn = prog.method("Transform", "new")
        engn = oblig.engine(prog, unroll=1, inline=None, extra=dict(_opt2.SUMMARIES))
        psn = engn.run(tn, args=[Lazy("cmd", tn.args[0][1]), Bool(z3.Bool("in_place"))])
        fi_ = prog.src.field_index

        def nprop(p):
            if not (p.status == "return" and isinstance(p.result, EnumV) and p.result.variant == "Ok"):
                return None
            t = p.result.fields.get(0)
            if not isinstance(t, Agg):
                return z3.BoolVal(False)
            st = _st(p)
            pc_ = called(p, r"(^|::)parse_command$")
            td = called(p, r"create_temp_dir$")
            if len(pc_) != 1 or len(td) != 1:
                return z3.BoolVal(False)
            # the temp dir is always the freshly created per-run directory
            tmp = t.fields.get(fi_("Transform", "tmp_dir"))
            tmp_ok = isinstance(tmp, Lazy) and isinstance(td[0].ret, Lazy) and tmp.name.startswith(td[0].ret.name + "@Ok")
            # `copy` (a private copy of $IN is made) is the flag the substitution callback of parse_command sets - the same callback
            # mechanism make_args substitutes with - read out of its cell after parsing
            cp = t.fields.get(fi_("Transform", "copy"))
            inner = [ev for ev in called(p, r"RefCell::into_inner$|Cell::get$|Cell::into_inner$") if ev.ret is cp or (isinstance(cp, Bool) and isinstance(ev.ret, Bool) and z3.eq(cp.t, ev.ret.t))]
            cp_ok = False
            if inner:
                cell = summaries.canon(engn, st, inner[0].args[0])
                clo = pc_[0].args[1]
                caps = [summaries.canon(engn, st, summaries.deref_val(engn, st, v)) if isinstance(v, Ref) else summaries.canon(engn, st, v)
                        for v in (clo.fields.values() if isinstance(clo, Agg) else [])]
                cp_ok = cell.lstrip("&") in [c.lstrip("&") for c in caps]
            return z3.BoolVal(bool(tmp_ok and cp_ok))
        finish(oblig.check_paths(engn, psn, "Transform::new: the temp dir is the per-run directory just created; `copy` is the flag set by parse_command's substitution callback",
                                 nprop, oblig.fnames(engn), key="transform:new", allow=("return", "panic", "diverge", "bound")), "in-place-copy")
    except Inconclusive as ex:
        o = Obligation("Transform::new", "E2 mirsym/z3")
        o.verdict, o.detail = "inconclusive", str(ex)
        rep.add(o)

    # ---------------------------------------------------------------- Drop for Transform: the per-run temp dir goes away with its contents
    try:
        fs_ = [f for f in prog.by_last.get("drop", []) if prog.impl_info(f)[1] == "Transform"]
        if len(fs_) != 1:
            raise Inconclusive("Drop impl of Transform: %d found" % len(fs_))
        engd = oblig.engine(prog, unroll=0, inline=None)
        psd = engd.run(fs_[0], args=[Ref("tr", (), True)], mem={"tr": Lazy("transform", "Transform")})

        def dprop(p):
            if p.status != "return":
                return None
            rm = called(p, r"(^|::)remove_dir_all$")
            st = _st(p)
            return z3.BoolVal(len(rm) == 1 and "tmp_dir" in summaries.canon(engd, st, rm[0].args[0]))
        finish(oblig.check_paths(engd, psd, "Drop for Transform: the per-run temp dir is removed recursively (whatever a transform program left next to its private copies goes with it)",
                                 dprop, oblig.fnames(engd), key="transform:drop-removes-temp-dir"))
    except Inconclusive as ex:
        o = Obligation("Drop for Transform", "E2 mirsym/z3")
        o.verdict, o.detail = "inconclusive", str(ex)
        rep.add(o)

    if only_transform:
        return rep

    # ---------------------------------------------------------------- O2 read-only open
    try:
        eng = oblig.engine(prog, unroll=0)
        on = prog.find(r"(^|::)open_noatime$")
        ps = eng.run(on)

        def oprop(p):
            setters = [e for e in p.events if e.kind == "call" and re.search(r"OpenOptions::(write|append|create|create_new|truncate)$", e.callee)]
            rd = called(p, r"OpenOptions::read$")
            return z3.BoolVal(not setters and bool(rd))
        finish(oblig.check_paths(eng, ps, "files are opened with read(true) only (plus O_NOATIME)", oprop, oblig.fnames(eng), key="hasher:open-readonly"))
    except Inconclusive as ex:
        o = Obligation("read-only open", "E2 mirsym/z3")
        o.verdict, o.detail = "inconclusive", str(ex)
        rep.add(o)

    # ---------------------------------------------------------------- O3 dry run
    try:
        binp = ctx.bin
        eng = oblig.engine(binp, unroll=0)
        rd = binp.find(r"(^|::)run_dedupe$")
        ps = eng.run(rd)
        dry = z3.Bool("config.dry_run")

        def dprop(p):
            ls, rs = called(p, r"(^|::)log_script$"), called(p, r"(^|::)run_script$")
            if not ls and not rs:
                return None
            return z3.And(z3.BoolVal(bool(ls)) == dry, z3.BoolVal(bool(rs)) == z3.Not(dry), z3.BoolVal(len(ls) + len(rs) == 1))
        finish(oblig.check_paths(eng, ps, "run_dedupe: --dry-run only prints the script (log_script), otherwise it is executed (run_script)", dprop,
                                 oblig.fnames(eng), key="run_dedupe:dry-run", allow=("return", "panic", "diverge", "bound")), "dry-run")
    except Inconclusive as ex:
        o = Obligation("dry run", "E2 mirsym/z3")
        o.verdict, o.detail = "inconclusive", str(ex)
        rep.add(o)

    # ---------------------------------------------------------------- O3b main(): no file-system mutation outside run_group / run_dedupe
    try:
        binp = ctx.bin
        import optsum as _opt
        engm = oblig.engine(binp, unroll=1, inline=None, extra=dict(_opt.SUMMARIES))
        mn = binp.find(r"^main$")
        ps = engm.run(mn)

        def mprop(p):
            rd = called(p, r"(^|::)run_dedupe$|(^|::)run_group$")
            if not rd:
                return None
            bad = called(p, MUTATORS)
            return z3.BoolVal(not bad)
        finish(oblig.check_paths(engm, ps, "main(): the command dispatch itself creates or changes nothing in the file system (a --dry-run is decided inside run_dedupe)",
                                 mprop, oblig.fnames(engm), key="main:no-mutation", allow=("return", "panic", "diverge", "bound")), "dry-run")
    except Inconclusive as ex:
        o = Obligation("main dispatch", "E2 mirsym/z3")
        o.verdict, o.detail = "inconclusive", str(ex)
        rep.add(o)

    # ---------------------------------------------------------------- O4 cache location
    try:
        eng = oblig.engine(prog, unroll=0)
        od = prog.method("HashCache", "open_default")
        ps = eng.run(od)

        def cprop(p):
            op = called(p, r"HashCache::open$")
            if not op:
                return None
            cd = called(p, r"cache_dir$")
            jn = called(p, r"::join$")
            named = bool(jn) and ("fclones" in repr(jn[0].args[1]).replace(" ", "") or bytes(b"fclones").hex() in "".join(
                "%02x" % (x.as_long() if hasattr(x, "as_long") else 0) for x in (getattr(summaries.deref_val(eng, _st(p), jn[0].args[1]), "items", ()))))
            # the directory that is joined with "fclones" is the one dirs::cache_dir() returned (absolute by the XDG rules), nothing
            # taken from the environment or the working directory
            from_sys = False
            if len(cd) == 1 and len(jn) == 1:
                st = _st(p)
                recv = summaries.canon(eng, st, jn[0].args[0]).lstrip("&").rstrip("*")
                src = summaries.canon(eng, st, cd[0].ret)
                for _ in range(4):
                    if recv.startswith(src):
                        break
                    base_ = re.sub(r"@(Ok|Some)\.0$", "", recv)
                    prod = [ev for ev in p.events if ev.kind == "call" and ev.ret is not None and ev.args and summaries.canon(eng, st, ev.ret) == base_
                            and re.search(r"Option::(ok_or|ok_or_else|unwrap|expect)$|Result::(unwrap|expect)$|[Dd]eref|as_ref$|as_path$|clone$", ev.callee)]
                    if not prod:
                        break
                    recv = summaries.canon(eng, st, prod[0].args[0]).lstrip("&").rstrip("*")
                from_sys = recv.startswith(src)
            ok = len(cd) == 1 and len(jn) == 1 and named and from_sys
            return z3.BoolVal(bool(ok))
        finish(oblig.check_paths(eng, ps, "the cache database is opened in dirs::cache_dir()/fclones", cprop, oblig.fnames(eng), key="cache:location"))
    except Inconclusive as ex:
        o = Obligation("cache location", "E2 mirsym/z3")
        o.verdict, o.detail = "inconclusive", str(ex)
        rep.add(o)
    return rep


def _fresh_uuid(e, st, callee, args, dty):
    return Lazy(mirsym.sanitize(st.fresh("uuid")), "Uuid")


def _format_pure(e, st, callee, args, dty):
    fa = summaries.deref_val(e, st, args[0])
    parts = []
    if isinstance(fa, Agg) and fa.ty == "fmtargs":
        arr = summaries.deref_val(e, st, fa.fields.get(1))
        if isinstance(arr, Agg):
            for k in sorted(arr.fields):
                a = arr.fields[k]
                inner = a.fields[0] if isinstance(a, Agg) and a.ty == "fmtarg" else a
                parts.append(summaries.canon(e, st, inner))
    return Lazy(mirsym.sanitize("fmt(%s)" % ";".join(parts)), "String")


def _refcell_replace(e, st, callee, args, dty):
    r = args[0]
    if not isinstance(r, Ref):
        return NotImplemented
    cur = e.load(st, r.cell, r.path)
    if not isinstance(cur, Agg):
        return NotImplemented
    old = cur.fields.get(0)
    e.store(st, r.cell, r.path, Agg("RefCell", {0: args[1]}))
    return old


def _str_eq(e, st, callee, args, dty):
    import strsum
    a, b = strsum.as_str(e, st, args[0]), strsum.as_str(e, st, args[1])
    if a is None or b is None:
        return NotImplemented
    if len(a.items) != len(b.items):
        return Bool(z3.BoolVal(False))
    return Bool(z3.simplify(z3.And(*[x == y for x, y in zip(a.items, b.items)])) if a.items else z3.BoolVal(True))


# ------------------------------------------------------------------------------- native replay

def snapshot(root):
    out = {}
    for dp_, dn, fn in os.walk(root):
        for n in fn + dn:
            p = os.path.join(dp_, n)
            st = os.lstat(p)
            out[os.path.relpath(p, root)] = (st.st_mode, st.st_ino, st.st_mtime_ns, open(p, "rb").read() if os.path.isfile(p) and not os.path.islink(p) else None)
    return out


def replay(o, ctx, scenario):
    try:
        binary = native.build_binary(ctx.src)
    except Inconclusive as e:
        o.verdict, o.detail = "inconclusive", "replay build failed: %s" % e
        return
    d = tempfile.mkdtemp(prefix="c07replay.")
    try:
        root = os.path.join(d, "root")
        os.makedirs(os.path.join(root, "sub"))
        for n, c in (("a.bin", b"A" * 300), ("b.bin", b"A" * 300), ("sub/a.bin", b"C" * 200), ("sub/c.bin", b"C" * 200)):
            open(os.path.join(root, n), "wb").write(c)
        tmp = os.path.join(d, "tmp")
        os.makedirs(tmp)
        env = dict(os.environ, HOME=d, XDG_CACHE_HOME=os.path.join(d, "cache"), TMPDIR=tmp, PATH=d + ":" + os.environ.get("PATH", ""))
        open(os.path.join(d, "inplace.sh"), "w").write("#!/bin/sh\n# rewrites its argument in place\nprintf X >> \"$1\"\n")
        os.chmod(os.path.join(d, "inplace.sh"), 0o755)
        devs = []
        before = snapshot(root)
        cases = []
        if scenario in ("in-place-no-copy", "in-place-copy", "tmp-collision"):
            cases = [["group", "--transform", "true $IN", "--in-place", "--no-copy", root],
                     ["group", "--transform", "inplace.sh $IN", "--in-place", root],
                     ["group", "--transform", "cat $IN", root], ["group", "--transform", "cat", root],
                     ["group", "--transform", "cp $IN $OUT", root]]
        if scenario == "in-place-no-copy":
            cases = cases[:1] + cases[2:]
        else:
            cases = cases[1:]
        for args in cases:
            subprocess.run([binary] + args, stdout=subprocess.PIPE, stderr=subprocess.PIPE, env=env, timeout=120)
            after = snapshot(root)
            if after != before:
                devs.append({"cmd": " ".join(args[:-1] + ["<root>"]), "missing": sorted(set(before) - set(after)),
                             "changed": sorted(k for k in before if k in after and before[k] != after[k])})
                for k, v in before.items():          # restore
                    p = os.path.join(root, k)
                    if v[3] is not None:
                        open(p, "wb").write(v[3])
                before = snapshot(root)
            leftovers = os.listdir(tmp)
            if leftovers:
                devs.append({"cmd": " ".join(args[:-1] + ["<root>"]), "temp_files_left": leftovers[:3]})
                shutil.rmtree(tmp); os.makedirs(tmp)
        if scenario == "tmp-collision":
            open(os.path.join(d, "slowin.sh"), "w").write("#!/bin/sh\nsleep 1\ncat \"$1\"\n")
            os.chmod(os.path.join(d, "slowin.sh"), 0o755)
            r2 = os.path.join(d, "root2")
            for sub, c in (("x", b"A" * 500), ("y", b"B" * 500), ("z", b"C" * 500), ("w", b"D" * 500)):
                os.makedirs(os.path.join(r2, sub))
                open(os.path.join(r2, sub, "same.bin"), "wb").write(c)
            r = subprocess.run([binary, "group", "-f", "json", "--threads", "8", "--transform", "slowin.sh $IN", r2], stdout=subprocess.PIPE, stderr=subprocess.PIPE, env=env, timeout=120)
            try:
                groups = json.loads(r.stdout.decode()).get("groups", [])
            except Exception:
                groups = []
            if groups:
                devs.append({"cmd": "group --threads 8 --transform 'slowin.sh $IN' on 4 different files all named same.bin", "bogus_groups": [[os.path.relpath(f, r2) for f in g["files"]] for g in groups][:3]})
        if scenario == "dry-run":
            rp = os.path.join(d, "rep.txt")
            with open(rp, "wb") as f:
                subprocess.run([binary, "group", root], stdout=f, stderr=subprocess.PIPE, env=env, timeout=60)
            for cmd in (["remove"], ["link"], ["link", "--soft"], ["move", os.path.join(d, "moved")], ["dedupe"]):
                for extra in ([], ["-o", os.path.join(d, "script.sh")]):
                    with open(rp, "rb") as f:
                        subprocess.run([binary] + cmd + ["--dry-run"] + extra, stdin=f, stdout=subprocess.PIPE, stderr=subprocess.PIPE, env=env, timeout=60)
                    after = snapshot(root)
                    if after != before:
                        devs.append({"cmd": " ".join(cmd + ["--dry-run"] + (["-o", "FILE"] if extra else [])), "missing": sorted(set(before) - set(after)),
                                     "changed": sorted(k for k in before if k in after and before[k] != after[k])})
                        return_after = True
                        break
        o.cex["native_replay"] = devs[:4]
        if devs:
            o.stats["traces_validated"] = 1
            o.detail += "; replayed natively: %s" % json.dumps(devs[0])[:300]
        else:
            o.verdict, o.detail = "inconclusive", "counterexample did not reproduce through the CLI (scenario %s)" % scenario
    finally:
        shutil.rmtree(d, ignore_errors=True)
