"""C16 - directory pruning is conservative (claimed); glob translation (partly, see DESIGN.md).

E2 with byte-list strings.  Part A (include side): the MIR of regex::Regex::new (which calls get_fixed_prefix) and of
Regex::is_partial_match is executed symbolically on anchored regular expressions `^ f1 f2 .. fn $` whose fragments come from
the menu the glob translator emits (plain literal, escaped meta character, two-byte literal, `/`, `[^/]*`, `.*`, `[^/]`,
`(a|b)`, `(a)?`, `[ab]`) plus `c?` / `c*` (raw --regex patterns); the concrete bytes inside each class are chosen by the
solver.  The directory string is a list of <= 4 symbolic characters (1 or 2 bytes each) ending in `/`.  Oracle: a reference
matcher for exactly these fragments written as an SMT formula (dynamic programme over fragment x position): if the
directory string is a prefix of some string matched by the regex, is_partial_match must say true.

Part B (exclude side and wiring): PathSelector::matches_dir is executed with lists of <= 1 include / exclude pattern:
a directory is admitted iff (no include || some include matches partially) && no exclude rejects it; the exclude test is
executed down to the regex object it uses (`^pattern` or `^pattern$`) and composed with the reference matcher: an
exclude pattern may prune a directory only if it matches every path below it."""
import itertools
import json
import multiprocessing
import os
import random
import re
import subprocess
import sys
import time

import z3

import listsum
import mirsym
import oblig
import strsum
from common import Inconclusive, Obligation, Report, VERIF, copy_repo, say, scratch_root, seed, tier
from mirsym import Agg, Bool, EnumV, Int, Lazy, ListV, Ref, Str, Unit
from summaries import deref_val, meth_name
from strsum import Alts, B8, and_or_none, as_str, decode_all, inr, isconst

META = b"\\.+*?()|[]{}^$#&-~"


# ------------------------------------------------------------------ extra string summaries

def s_str_len(e, st, callee, args, dty):
    s = as_str(e, st, args[0])
    if s is None:
        return NotImplemented
    return Int(z3.BitVecVal(len(s.items), 64), "usize")


def s_enumerate(e, st, callee, args, dty):
    it = args[0]
    if isinstance(it, Agg) and it.ty == "Chars":
        return Agg("EnumChars", {0: it.fields[0], 1: Int(z3.BitVecVal(0, 64), "usize")})
    return NotImplemented


def s_enum_next(e, st, callee, args, dty):
    r = args[0]
    it = deref_val(e, st, r)
    if not (isinstance(it, Agg) and it.ty == "EnumChars" and isinstance(r, Ref)):
        return NotImplemented
    s, i = it.fields[0], it.fields[1]
    alts = strsum.next_char_alts(e, st, s)
    res = []
    for c, ch, rest in alts:
        if ch is None:
            res.append((c, EnumV("Option", "None", 0, {})))
        else:
            nxt = Agg("EnumChars", {0: Str(rest, "chars"), 1: Int(z3.simplify(i.t + 1), "usize")})
            res.append((c, ("store", r, nxt, EnumV("Option", "Some", 1, {0: Agg("tuple", {0: i, 1: ch})}))))
    return ("multi", res)


def s_take(e, st, callee, args, dty):
    it, n = args[0], args[1]
    if isinstance(it, Agg) and it.ty == "Chars" and isinstance(n, Int):
        return Agg("TakeChars", {0: it.fields[0], 1: n})
    return NotImplemented


def s_collect_string(e, st, callee, args, dty):
    it = args[0]
    if not (isinstance(it, Agg) and it.ty == "TakeChars"):
        return NotImplemented
    s, n = it.fields[0], it.fields[1]
    nv = isconst(n.t)
    if nv is None:
        raise Inconclusive("take(n) with a symbolic n")
    if nv >= 2 ** 63:
        # usize underflow of `len - 1` is reported by the overflow assertion before; unreachable here
        nv = len(s.items)
    al = Alts(e, st)
    out = []
    for conds, toks in decode_all(al, list(s.items)):
        items = []
        for kind, i, k, cp in toks[:nv]:
            items += list(s.items[i:i + k])
        out.append((and_or_none(conds), Str(items, "String")))
    return out


def s_starts_with_sym(e, st, callee, args, dty):
    s, p = as_str(e, st, args[0]), as_str(e, st, args[1])
    if s is None or p is None:
        return NotImplemented
    if len(p.items) > len(s.items):
        return Bool(z3.BoolVal(False))
    return Bool(z3.And(*[s.items[j] == p.items[j] for j in range(len(p.items))]) if p.items else z3.BoolVal(True))


def s_ends_with_sym(e, st, callee, args, dty):
    s = as_str(e, st, args[0])
    pv = deref_val(e, st, args[1])
    if s is None:
        return NotImplemented
    if isinstance(pv, Int):        # char pattern (ASCII)
        c = isconst(pv.t)
        if c is None or c >= 0x80:
            return NotImplemented
        if not s.items:
            return Bool(z3.BoolVal(False))
        return Bool(s.items[-1] == B8(c))
    p = as_str(e, st, args[1])
    if p is None or len(p.items) > len(s.items):
        return Bool(z3.BoolVal(False)) if p is not None else NotImplemented
    k = len(s.items) - len(p.items)
    return Bool(z3.And(*[s.items[k + j] == p.items[j] for j in range(len(p.items))]) if p.items else z3.BoolVal(True))


def _latin1_only(e, st, items):
    """every non-ASCII byte is the lead byte 0xC3 or a continuation byte right after it (characters U+00C0..U+00FF)"""
    conds = []
    for j, b in enumerate(items):
        ok = b == B8(0xC3)
        if j > 0:
            ok = z3.Or(ok, z3.And(items[j - 1] == B8(0xC3), inr(b, 0x80, 0xBF)))
        conds.append(z3.Or(z3.ULT(b, B8(0x80)), ok))
    return z3.And(*conds) if conds else z3.BoolVal(True)


def _lower_bytes(items, unicode_=True):
    out = []
    for j, b in enumerate(items):
        low = z3.If(inr(b, 0x41, 0x5A), b + B8(0x20), b)
        if unicode_ and j > 0:
            # U+00C0..U+00DE except U+00D7 (c3 80 .. c3 9e, not c3 97) fold to +0x20
            low = z3.If(z3.And(items[j - 1] == B8(0xC3), inr(b, 0x80, 0x9E), b != B8(0x97)), b + B8(0x20), low)
        out.append(low)
    return out


def s_to_lowercase_ascii(e, st, callee, args, dty):
    """str::to_lowercase for strings of ASCII and Latin-1 letters (U+00C0..U+00FF); other non-ASCII text is not modelled"""
    s = as_str(e, st, args[0])
    if s is None:
        return NotImplemented
    if e.check(*(list(st.pc) + [z3.Not(_latin1_only(e, st, s.items))])) != z3.unsat:
        raise Inconclusive("to_lowercase on non-ASCII text outside U+00C0..U+00FF is not modelled")
    return Str(_lower_bytes(s.items), "String")


def s_make_ascii_lowercase(e, st, callee, args, dty):
    """str::make_ascii_lowercase / to_ascii_lowercase: only A-Z are folded"""
    r = args[0]
    s = as_str(e, st, r)
    if s is None:
        return NotImplemented
    low = Str(_lower_bytes(s.items, unicode_=False), s.kind)
    if callee.endswith("to_ascii_lowercase"):
        return Str(low.items, "String")
    if isinstance(r, Ref):
        return ("store", r, low, mirsym.Unit())
    return NotImplemented


def s_regex_build(e, st, callee, args, dty):
    """regex::RegexBuilder::build: an opaque regex object that remembers nothing (matching is the reference model)"""
    return EnumV("Result", "Ok", 0, {0: Lazy(mirsym.sanitize(st.fresh("regex")), "regex::Regex")})


EXTRA = dict(strsum.STR)
EXTRA.update({
    r"^core::str::(<impl str>::)?len$|^(std::string::)?String::len$": s_str_len,
    r"^<(std::str::)?Chars(<'_>)? as (std::iter::)?Iterator>::enumerate$": s_enumerate,
    r"^<(std::iter::)?Enumerate<(std::str::)?Chars(<'_>)?> as (std::iter::)?Iterator>::next$": s_enum_next,
    r"^<(std::iter::)?Enumerate<(std::str::)?Chars(<'_>)?> as (std::iter::)?IntoIterator>::into_iter$": lambda e, st, c, a, d: a[0],
    r"^<(std::str::)?Chars(<'_>)? as (std::iter::)?Iterator>::take$": s_take,
    r"^<(std::iter::)?Take<(std::str::)?Chars(<'_>)?> as (std::iter::)?Iterator>::collect$": s_collect_string,
    r"^core::str::(<impl str>::)?starts_with$": s_starts_with_sym,
    r"^core::str::(<impl str>::)?ends_with$": s_ends_with_sym,
    r"^(std::str::|alloc::str::)?(<impl str>::)?to_lowercase$": s_to_lowercase_ascii,
    r"^(regex::)?RegexBuilder::build$": s_regex_build,
    r"(^|::)(make_ascii_lowercase|to_ascii_lowercase)$": s_make_ascii_lowercase,
})


# ------------------------------------------------------------------ fragments and the reference matcher

def ch1(name, cons_fn):
    b = z3.BitVec(name, 8)
    return [b], cons_fn(b)


def plain_cons(b):
    return [inr(b, 0x01, 0x7F), b != B8(0x2F)] + [b != B8(c) for c in META]


def meta_cons(b):
    return [z3.Or(*[b == B8(c) for c in META])]


def u2(name):
    b0, b1 = z3.BitVec(name + "_0", 8), z3.BitVec(name + "_1", 8)
    return [b0, b1], [inr(b0, 0xC2, 0xDF), inr(b1, 0x80, 0xBF)]


def fragment(cls, name):
    """-> (regex bytes, constraints, reference node)"""
    S = lambda txt: [B8(x) for x in txt]
    if cls == "PLAIN":
        c, k = ch1(name, plain_cons)
        return c, k, ("lit", c)
    if cls == "ESC":
        c, k = ch1(name, meta_cons)
        return S(b"\\") + c, k, ("lit", c)
    if cls == "U2":
        c, k = u2(name)
        return c, k, ("lit", c)
    if cls == "L1":      # a letter of U+00C0..U+00FF (two bytes c3 xx, not the signs U+00D7 / U+00F7)
        b0, b1 = z3.BitVec(name + "_0", 8), z3.BitVec(name + "_1", 8)
        return [b0, b1], [b0 == B8(0xC3), inr(b1, 0x80, 0xBF), b1 != B8(0x97), b1 != B8(0xB7)], ("lit", [b0, b1])
    if cls == "SEP":
        return S(b"/"), [], ("lit", S(b"/"))
    if cls == "STAR":
        return S(b"[^/]*"), [], ("star",)
    if cls == "DSTAR":
        return S(b".*"), [], ("dstar",)
    if cls == "QM":
        return S(b"[^/]"), [], ("qm",)
    if cls == "ALT":
        a, ka = ch1(name + "a", plain_cons)
        b, kb = ch1(name + "b", plain_cons)
        return S(b"(") + a + S(b"|") + b + S(b")"), ka + kb, ("alt", [a, b])
    if cls == "OPT":
        a, ka = ch1(name + "a", plain_cons)
        return S(b"(") + a + S(b")?"), ka, ("opt", a)
    if cls == "CLASS":
        a, ka = ch1(name + "a", lambda b: plain_cons(b) + [b != B8(0x21)])
        b, kb = ch1(name + "b", plain_cons)
        return S(b"[") + a + b + S(b"]"), ka + kb, ("alt", [a, b])
    if cls == "LITQ":       # raw regex `c?`
        a, ka = ch1(name + "a", plain_cons)
        return a + S(b"?"), ka, ("opt", a)
    if cls == "LITS":       # raw regex `c*`
        a, ka = ch1(name + "a", plain_cons)
        return a + S(b"*"), ka, ("many", a)
    raise ValueError(cls)


FRAGS_ALL = ["PLAIN", "ESC", "U2", "SEP", "STAR", "DSTAR", "QM", "ALT", "OPT", "CLASS", "LITQ", "LITS"]
FRAGS_ASCII = [f for f in FRAGS_ALL if f != "U2"]
FRAGS_CI = FRAGS_ASCII + ["L1"]


def dir_chars(shape, ci=False):
    """directory string: chars of 1 ('A') or 2 ('U') symbolic bytes; the last one is '/'"""
    chars, cons = [], []
    for i, k in enumerate(shape):
        if k == "A":
            b = z3.BitVec("d%d" % i, 8)
            chars.append([b])
            cons += [inr(b, 0x01, 0x7F)]
        elif k == "L":
            b0, b1 = z3.BitVec("d%d_0" % i, 8), z3.BitVec("d%d_1" % i, 8)
            chars.append([b0, b1])
            cons += [b0 == B8(0xC3), inr(b1, 0x80, 0xBF), b1 != B8(0x97), b1 != B8(0xB7)]
        else:
            c, kk = u2("d%d" % i)
            chars.append(c)
            cons += kk
    cons.append(chars[-1][0] == B8(0x2F))
    return chars, cons


def eqchar(a, b, ci=False):
    if len(a) != len(b):
        return z3.BoolVal(False)
    if ci and len(a) == 1:
        low = lambda x: z3.If(inr(x, 0x41, 0x5A), x + B8(0x20), x)
        return low(a[0]) == low(b[0])
    if ci and len(a) == 2:
        low2 = lambda c: z3.If(z3.And(c[0] == B8(0xC3), inr(c[1], 0x80, 0x9E), c[1] != B8(0x97)), c[1] + B8(0x20), c[1])
        return z3.And(a[0] == b[0], low2(a) == low2(b))
    return z3.And(*[x == y for x, y in zip(a, b)])


def notchar(a, byte):
    return z3.Not(z3.And(z3.BoolVal(len(a) == 1), a[0] == B8(byte))) if len(a) == 1 else z3.BoolVal(True)


def reach_table(nodes, chars, ci=False):
    """reach[i][j]: the first i fragments can consume exactly the first j characters"""
    m, n = len(nodes), len(chars)
    F = z3.BoolVal(False)
    reach = [[F] * (n + 1) for _ in range(m + 1)]
    reach[0][0] = z3.BoolVal(True)
    for i, nd in enumerate(nodes):
        k = nd[0]
        for j in range(n + 1):
            src = reach[i][j]
            if z3.is_false(src):
                continue
            if k == "lit":
                if j < n:
                    reach[i + 1][j + 1] = z3.Or(reach[i + 1][j + 1], z3.And(src, eqchar(chars[j], nd[1], ci)))
            elif k == "qm":
                if j < n:
                    reach[i + 1][j + 1] = z3.Or(reach[i + 1][j + 1], z3.And(src, notchar(chars[j], 0x2F)))
            elif k in ("star", "dstar"):
                bad = 0x2F if k == "star" else 0x0A
                acc = src
                reach[i + 1][j] = z3.Or(reach[i + 1][j], acc)
                for t in range(j, n):
                    acc = z3.And(acc, notchar(chars[t], bad))
                    reach[i + 1][t + 1] = z3.Or(reach[i + 1][t + 1], acc)
            elif k == "alt":
                if j < n:
                    reach[i + 1][j + 1] = z3.Or(reach[i + 1][j + 1], z3.And(src, z3.Or(*[eqchar(chars[j], a, ci) for a in nd[1]])))
            elif k == "opt":
                reach[i + 1][j] = z3.Or(reach[i + 1][j], src)
                if j < n:
                    reach[i + 1][j + 1] = z3.Or(reach[i + 1][j + 1], z3.And(src, eqchar(chars[j], nd[1], ci)))
            elif k == "many":
                acc = src
                reach[i + 1][j] = z3.Or(reach[i + 1][j], acc)
                for t in range(j, n):
                    acc = z3.And(acc, eqchar(chars[t], nd[1], ci))
                    reach[i + 1][t + 1] = z3.Or(reach[i + 1][t + 1], acc)
    return reach


def is_prefix_of_match(nodes, chars, ci=False):
    """some string with this prefix is matched (every fragment has a non-empty language)"""
    r = reach_table(nodes, chars, ci)
    n = len(chars)
    return z3.Or(*[r[i][n] for i in range(len(nodes) + 1)])


# ------------------------------------------------------------------ workers

_W = {}


def worker_init(mir_path, srcdir):
    prog = mirsym.Program(open(mir_path).read(), srcdir)
    _W["prog"] = prog
    _W["new"] = prog.method("Regex", "new")
    _W["ipm"] = prog.method("Regex", "is_partial_match")


def new_engine(unroll=40):
    return oblig.engine(_W["prog"], unroll=unroll, inline=r"Regex::get_fixed_prefix$|get_fixed_prefix$", extra=EXTRA, solver_timeout_ms=60000)


def model_bytes(m, items):
    return bytes(m.eval(b, model_completion=True).as_long() for b in items)


DSHAPES = [s for n in (1, 2, 3, 4) for s in itertools.product("AU", repeat=n) if s[-1] == "A"]
DSHAPES_CI = [s for n in (1, 2, 3, 4) for s in itertools.product("AL", repeat=n) if s[-1] == "A" and s.count("L") <= 2]


def check_regex_shape(job):
    shape, ci = job
    t0 = time.time()
    res = {"shape": list(shape), "ci": ci, "queries": 0, "paths": 0, "cex": [], "error": None}
    try:
        rbytes, cons, nodes = [B8(0x5E)], [], []
        for i, cls in enumerate(shape):
            bs, k, nd = fragment(cls, "r%d" % i)
            rbytes += bs
            cons += k
            nodes.append(nd)
        rbytes.append(B8(0x24))
        e = new_engine()
        ps = e.run(_W["new"], args=[Str(rbytes, "str"), Bool(z3.BoolVal(ci))], pre=cons)
        for p in ps:
            res["paths"] += 1
            if p.status in ("abort", "bound"):
                res["error"] = "Regex::new path %s: %s" % (p.status, p.note[:200])
                continue
            if p.status != "return" or not (isinstance(p.result, EnumV) and p.result.variant == "Ok"):
                if e.check(*p.pc) == z3.sat:
                    e.solver.push(); e.solver.add(*p.pc); e.solver.check(); m = e.solver.model(); e.solver.pop()
                    res["cex"].append({"oracle": "new", "regex": model_bytes(m, rbytes).decode("latin1"), "detail": "Regex::new ended with %s %s" % (p.status, p.note[:80])})
                continue
            rx = p.result.fields[0]
            for dshape in (DSHAPES_CI if ci else DSHAPES):
                chars, dcons = dir_chars(dshape)
                ditems = [b for c in chars for b in c]
                e2 = new_engine(unroll=8)
                mem = dict(p.mem)
                mem["rx"] = rx
                mem["dstr"] = Str(ditems, "str")
                qs = e2.run(_W["ipm"], args=[Ref("rx", (), False), Ref("dstr", (), False)], pre=list(p.pc) + dcons, mem=mem)
                want = is_prefix_of_match(nodes, chars, ci)
                for q in qs:
                    res["paths"] += 1
                    if q.status in ("abort", "bound"):
                        res["error"] = "is_partial_match path %s: %s" % (q.status, q.note[:200])
                        continue
                    got = q.result.t if (q.status == "return" and isinstance(q.result, Bool)) else z3.BoolVal(False)
                    r = e2.check(*(list(q.pc) + [want, z3.Not(got)]))
                    if r == z3.sat:
                        e2.solver.push(); e2.solver.add(*q.pc); e2.solver.add(want, z3.Not(got)); e2.solver.check(); m = e2.solver.model(); e2.solver.pop()
                        fp = rx.fields.get(1) if isinstance(rx, Agg) else None
                        res["cex"].append({"oracle": "partial", "regex": model_bytes(m, rbytes).hex(), "dir": model_bytes(m, ditems).hex(),
                                           "fixed_prefix": model_bytes(m, fp.items).hex() if isinstance(fp, Str) else None, "ci": ci,
                                           "detail": "is_partial_match %s" % (q.status if q.status != "return" else "false")})
                        # a second counterexample in which the computed prefix itself is wrong (not merely compared wrongly), so that a
                        # defect of get_fixed_prefix is not hidden behind one of is_partial_match
                        if isinstance(fp, Str):
                            dl = [z3.If(inr(b, 0x41, 0x5A), b + B8(0x20), b) for b in ditems] if ci else ditems
                            k = min(len(fp.items), len(dl))
                            comparable = z3.And(*[fp.items[t] == dl[t] for t in range(k)]) if k else z3.BoolVal(True)
                            terms = list(q.pc) + [want, z3.Not(got), z3.Not(comparable)]
                            if e2.check(*terms) == z3.sat:
                                e2.solver.push(); e2.solver.add(*terms); e2.solver.check(); m = e2.solver.model(); e2.solver.pop()
                                res["cex"].append({"oracle": "partial", "regex": model_bytes(m, rbytes).hex(), "dir": model_bytes(m, ditems).hex(),
                                                   "fixed_prefix": model_bytes(m, fp.items).hex(), "ci": ci, "detail": "fixed prefix disagrees with the directory"})
                        break
                    if r == z3.unknown:
                        res["error"] = "solver unknown"
                res["queries"] += e2.queries
                if len(res["cex"]) >= 6:
                    break
        res["queries"] += e.queries
    except Inconclusive as ex:
        res["error"] = str(ex)[:300]
    except Exception:   # noqa
        import traceback
        res["error"] = "internal: " + traceback.format_exc()[-500:]
    res["wall"] = round(time.time() - t0, 2)
    return res


def shapes_for_tier():
    sh = []
    for n in (1, 2):
        sh += [(s, False) for s in itertools.product(FRAGS_ALL, repeat=n)]
    lead = ["PLAIN", "ESC", "U2", "SEP"]
    sh += [((a, b, c), False) for a in lead for b in FRAGS_ALL for c in ["PLAIN", "SEP", "STAR", "DSTAR", "U2", "ESC"]]
    sh += [(s, True) for n in (1, 2) for s in itertools.product(FRAGS_CI, repeat=n)]
    if tier() == "thorough":
        sh += [(s, False) for s in itertools.product(FRAGS_ALL, repeat=3) if (s, False) not in set(sh)]
        sh += [((a, b, c, d), False) for a in lead for b in lead for c in FRAGS_ALL for d in ["PLAIN", "SEP", "STAR", "DSTAR"]]
        sh += [(s, True) for s in itertools.product(FRAGS_CI, repeat=3)]
    return sh


def run():
    rep = Report(
        "C16", "other",
        "Bounded symbolic execution (mirsym/z3, byte-list strings) of regex::Regex::new + get_fixed_prefix and Regex::is_partial_match "
        "on anchored regexes of <= 3 fragments from the menu the glob translator emits (plus c?, c* of raw regexes) with the "
        "bytes inside each fragment class left to the solver, against directory strings of <= 4 symbolic characters (1 or 2 "
        "bytes) ending in '/'.  Oracle: reference matcher for exactly these fragments as an SMT dynamic programme; z3 decides "
        "for every regex and directory of every shape: prefix of a matching string => is_partial_match.  PathSelector::matches_dir "
        "is executed with <= 1 include / exclude pattern (wiring), and the exclude test is composed with the reference matcher.",
        assumptions=["reference semantics of the regex fragments (`.` excludes newline, `[^/]` and classes are per character) - validated natively "
                     "against the regex crate on the concretised counterexamples and on a fixed sample each run",
                     "case-insensitive runs: ASCII and the letters U+00C0..U+00FF (to_lowercase modelled for these)",
                     "regex::RegexBuilder::build is opaque (matching itself is the regex crate)"],
        outside=["glob -> regex translation by nom combinators (pattern.rs) except through the native sample", "the regex engine",
                 "regexes of more than 3 (thorough: 4) fragments, directories of more than 4 characters"])
    ctx = oblig.Ctx()
    prog = ctx.lib
    mir_path = os.path.join(scratch_root(), "lib.mir")
    open(mir_path, "w").write("\n\n".join(f.text for f in prog.fns.values()))
    shapes = shapes_for_tier()
    random.Random(seed()).shuffle(shapes)
    t0 = time.time()
    # wall-clock budget for the symbolic execution of all shapes: a change that makes the paths of get_fixed_prefix explode must
    # end in "inconclusive (time budget)" - with whatever counterexamples were found until then still replayed and reported - not in
    # a check that never returns (normally the shapes take 3-4 minutes)
    budget = float(os.environ.get("VERIF_C16_BUDGET_S", "1500" if tier() == "quick" else "7200"))
    results = []
    pool = multiprocessing.Pool(14, initializer=worker_init, initargs=(mir_path, ctx.srcdir))
    try:
        it = pool.imap_unordered(check_regex_shape, shapes)          # (chunksize 1: the iterator then supports next(timeout))
        for _ in range(len(shapes)):
            left = budget - (time.time() - t0)
            if left <= 0:
                break
            try:
                results.append(it.next(timeout=left))
            except multiprocessing.TimeoutError:
                break
    finally:
        pool.terminate()
        pool.join()
    if len(results) < len(shapes):
        results.append({"shape": ("<time budget>",), "cex": [], "error": "time budget of %d s exceeded: %d of %d regex shapes decided" % (budget, len(results), len(shapes)),
                        "queries": 0, "paths": 0})
    wall = time.time() - t0
    cex = [dict(c, shape=r["shape"]) for r in results for c in r["cex"]]
    errors = [r for r in results if r["error"]]
    nq = sum(r["queries"] for r in results)
    npaths = sum(r["paths"] for r in results)
    rep.extra.update({"regex_shapes": len(shapes), "dir_shapes": len(DSHAPES), "paths_explored": npaths, "symbolic_exec_wall_s": round(wall, 1),
                      "fragment_classes": FRAGS_ALL})
    fns = ["Regex::new#" + mirsym.text_hash(prog.method("Regex", "new").text),
           "Regex::get_fixed_prefix#" + mirsym.text_hash(prog.method("Regex", "get_fixed_prefix").text),
           "Regex::is_partial_match#" + mirsym.text_hash(prog.method("Regex", "is_partial_match").text)]
    o = Obligation("include side: a directory that is a prefix of a string matched by the pattern is never rejected by is_partial_match",
                   "E2 mirsym/z3 (byte-list strings)", fns, "%d regex shapes (<= %d fragments) x %d directory shapes (<= 4 chars)" % (
                       len(shapes), max(len(s[0]) for s in shapes), len(DSHAPES)))
    o.queries = nq
    o.stats = {"shapes": len(shapes), "paths": npaths, "states": npaths, "transitions": nq}
    mine = [c for c in cex if c["oracle"] == "partial"]
    other = [c for c in cex if c["oracle"] != "partial"]
    groups = []
    if errors and not mine:
        o.verdict, o.detail = "inconclusive", "%d shapes not decided, e.g. %s: %s" % (len(errors), errors[0]["shape"], errors[0]["error"][:300])
    elif not mine:
        o.verdict = "holds"
        o.witness = "%d shapes decided, %d symbolic paths, %d solver queries" % (len(shapes) - len(errors), npaths, nq)
    else:
        groups = classify(mine)
        confirm(o, groups, ctx)
        # at most 6 defect classes are reported one by one (the evidence keeps the count of the rest)
        conf = [g for g in groups if g.get("confirmed")]
        if len(conf) > 6:
            o.stats["further_confirmed_classes"] = len(conf) - 6
            keep = set(id(g) for g in conf[:6])
            groups = [g for g in groups if not g.get("confirmed") or id(g) in keep]
        first = True
        if o.verdict == "violated":
            for g in groups:
                if not g.get("confirmed"):
                    continue
                og = o if first else Obligation(o.name, o.engine, fns, o.bounds)
                og.verdict = "violated"
                og.key = "partial-match:%s" % g["role"]
                og.cex = {"role": g["role"], "examples": g["examples"][:4], "native": g.get("native")}
                og.detail = "%s: e.g. regex %r rejects directory %r; replayed natively: %s" % (
                    g["role"], bytes.fromhex(g["examples"][0]["regex"]).decode("utf-8", "replace"),
                    bytes.fromhex(g["examples"][0]["dir"]).decode("utf-8", "replace"), g.get("native"))
                og.stats = dict(o.stats, traces_validated=1)
                og.queries = o.queries if first else 0
                if not first:
                    rep.add(og)
                first = False
    rep.add(o)
    if other:
        o2 = Obligation("Regex::new terminates normally on every regex of the shapes", "E2 mirsym/z3", fns)
        o2.verdict, o2.detail = "inconclusive", "unexpected end of Regex::new: %s" % json.dumps(other[0])[:300]
        rep.add(o2)
    from obligations import C16_glob
    C16_glob.add(rep, ctx)
    return rep


def classify(cexs):
    """roles by call site and structure of the failing regex, never by model values: the computed fixed prefix tells whether the
    comparison in is_partial_match or the prefix computation in get_fixed_prefix is at fault"""
    groups = {}
    for c in cexs:
        rx = bytes.fromhex(c["regex"])
        d = bytes.fromhex(c["dir"])
        fp = bytes.fromhex(c["fixed_prefix"]) if c.get("fixed_prefix") is not None else None
        body = rx[1:-1]
        multibyte = any(x >= 0x80 for x in d) or any(x >= 0x80 for x in rx)
        dd = d
        if c.get("ci"):
            try:
                dd = d.decode("utf-8").lower().encode("utf-8")
            except UnicodeDecodeError:
                dd = d.lower()
        shape = c["shape"]
        if fp is not None and (dd.startswith(fp) or fp.startswith(dd)):
            nchars = lambda b: len(b.decode("utf-8", "replace"))
            if multibyte and nchars(d) > nchars(fp) and len(d) > len(fp):
                # more characters of the directory are compared than the prefix has (byte length used as a character count); this
                # can only happen when the directory is longer in bytes than the prefix - otherwise min(byte lengths) characters are
                # the whole directory and the comparison itself is the right one
                role = "is_partial_match:prefix-comparison-counts-bytes-as-characters"
            elif c.get("ci") and multibyte:
                role = "is_partial_match:case-folding-of-non-ascii-letters"
            else:
                role = "is_partial_match:prefix-comparison"
        elif multibyte and ("LITQ" in shape or "LITS" in shape) and optional_after_multibyte(shape):
            # (tested before the escape roles: a regex can contain an escaped character *and* an optional literal after a
            # multi-byte character; the wrongly kept optional literal is what makes the prefix wrong then)
            role = "get_fixed_prefix:optional-literal-not-removed-after-multibyte-char"
        elif b"\\\\" in body:
            role = "get_fixed_prefix:escaped-backslash-dropped"
        elif re.search(rb"\\.", body, re.S) and re.search(rb"\\.[^\\]*?(\[|\(|\.\*|\?|\*)", body, re.S):
            role = "get_fixed_prefix:escape-flag-not-reset"
        elif multibyte and ("LITQ" in shape or "LITS" in shape):
            role = "get_fixed_prefix:optional-literal-not-removed-after-multibyte-char"
        else:
            role = "get_fixed_prefix:%s%s" % ("ci:" if c.get("ci") else "", "-".join(shape))
        g = groups.setdefault(role, {"role": role, "examples": []})
        g["examples"].append(c)
    return list(groups.values())


def optional_after_multibyte(shape):
    """the first optional literal (c? / c*) of the shape comes after a two-byte character and no wildcard fragment precedes it"""
    seen_u2 = False
    for f in shape:
        if f == "U2":
            seen_u2 = True
        elif f in ("LITQ", "LITS"):
            return seen_u2
        elif f not in ("PLAIN", "ESC", "SEP"):
            return False
    return False


def confirm(o, groups, ctx):
    """replay with the real Regex (replay/regex_test.rs): is_match(dir + ext) for the solver's extension candidates and is_partial_match(dir)"""
    sys.path.insert(0, os.path.join(VERIF, "replay"))
    import native_driver
    src = copy_repo("regex-replay-src")
    try:
        drv = native_driver.NativeDriver(src, scratch_root(), [("regex", "regex_test.rs", "verif_regex_test")])
    except Exception as ex:   # noqa
        o.verdict, o.detail = "inconclusive", "native regex driver: %s" % str(ex)[-300:]
        return
    anyc = False
    for g in groups:
        lines = []
        for c in g["examples"][:8]:
            lines.append("%s %s %d" % (c["regex"], c["dir"], 1 if c.get("ci") else 0))
        out = drv.run("regex::verif_regex_test::verif_regex_driver", lines, "rx")
        g["confirmed"] = False
        for c, l in zip(g["examples"][:8], out):
            # "<partial 0|1> <witness extension hex or ->"
            parts = l.split()
            if len(parts) >= 2 and parts[0] == "0" and parts[1] != "-":
                g["confirmed"] = True
                g["native"] = "real Regex::new(%r).is_partial_match(%r) = false although it matches %r" % (
                    bytes.fromhex(c["regex"]).decode("utf-8", "replace"), bytes.fromhex(c["dir"]).decode("utf-8", "replace"),
                    (bytes.fromhex(c["dir"]) + bytes.fromhex(parts[1] if parts[1] != "e" else "")).decode("utf-8", "replace"))
                g["examples"] = [c] + [x for x in g["examples"] if x is not c]
                break
        anyc = anyc or g["confirmed"]
    if anyc:
        o.verdict = "violated"
    else:
        o.verdict = "inconclusive"
        o.detail = "solver counterexamples did not reproduce with the real Regex: %s" % json.dumps(groups[0]["examples"][0])[:300]
