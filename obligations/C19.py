"""C19 - the task/open-file semaphore is safe and live under all interleavings.

E3: interleaving BMC (z3) over automata built from the MIR of Semaphore::acquire / release; E2: access, access_owned
and the two Drop impls call acquire / release exactly once on the same semaphore.  Replay: shuttle DFS on the real
semaphore.rs (std::sync rewritten to shuttle::sync)."""
import os
import re
import shutil
import subprocess
import time

import z3

import bmc
import mirsym
import oblig
from common import Inconclusive, Obligation, Report, VERIF, cargo_env, say, scratch_root, tier

A = ("acquire",)
R = ("release", None)


def rel_of(t, i):
    return ("release", (t, i))


def configs():
    quick = [
        ([[A, R], [A, R]], 1, 0), ([[A, R], [A, R]], 1, 1), ([[A, R], [A, R]], 2, 0),
        ([[R], [A]], 0, 0), ([[R], [A]], 0, 1),
        ([[A], [rel_of(0, 0)], [A, R]], 1, 0),          # guard acquired on thread 0, released on thread 1
        ([[A, R], [A, R], [A, R]], 1, 0),
        ([[A, R, A, R], [A, R]], 1, 0),
        ([[R, R], [A], [A]], 0, 0),                     # two waiters, two releases in a row
    ]
    thorough = quick + [
        ([[A, R], [A, R], [A, R]], 2, 1), ([[A, R], [A, R], [A, R]], 1, 2),
        ([[A, R, A, R], [A, R, A, R]], 1, 1), ([[R], [R], [A], [A]], 0, 0),
        ([[A], [rel_of(0, 0), A, R], [A, R]], 1, 1),
        # (four acquire/release threads over two permits, two threads with three pairs each and 2+2+1 pairs over two permits were
        # tried: z3 answers `unknown` within the 20-minute cap per query at depth 19 for the first of them, so they are not part
        # of the tier - a configuration that cannot be decided would make the whole tier inconclusive on every run)
    ]
    return thorough if tier() == "thorough" else quick


def prog_str(p):
    out = ""
    for o in p:
        if o[0] == "acquire":
            out += "A"
        elif o[1] is None:
            out += "R"
        else:
            out += "r%d%d" % o[1]
    return out


def shuttle_replay(src, cfg):
    """-> (True reproduced | False not reproduced | None could not run, detail)"""
    work = os.path.join(scratch_root(), "shuttle_sem")
    shutil.rmtree(work, ignore_errors=True)
    shutil.copytree(os.path.join(VERIF, "replay", "shuttle_sem"), work)
    sem = open(os.path.join(src, "fclones", "src", "semaphore.rs")).read()
    if "use std::sync::{Arc, Condvar, Mutex};" not in sem:
        return None, "semaphore.rs no longer imports std::sync::{Arc, Condvar, Mutex}; cannot rewrite for shuttle"
    sem = sem.replace("use std::sync::{Arc, Condvar, Mutex};", "use shuttle::sync::{Arc, Condvar, Mutex};")
    sem = re.sub(r"#\[cfg\(test\)\]\s*mod tests \{.*\Z", "", sem, flags=re.S)
    open(os.path.join(work, "src", "semaphore.rs"), "w").write(sem)
    p = subprocess.run(["cargo", "build", "--offline", "--release"], cwd=work, env=cargo_env(), stdout=subprocess.PIPE, stderr=subprocess.STDOUT, timeout=1800)
    if p.returncode != 0:
        return None, "shuttle replay crate did not build: " + p.stdout.decode(errors="replace")[-400:]
    exe = os.path.join(work, "target", "release", "shuttle_sem")
    args = [exe, str(cfg.permits)] + [prog_str(pr) for pr in cfg.programs]
    try:
        r = subprocess.run(args, stdout=subprocess.PIPE, stderr=subprocess.PIPE, timeout=900)
    except subprocess.TimeoutExpired:
        return None, "shuttle DFS timed out"
    err = r.stderr.decode(errors="replace")
    msg = [l for l in err.splitlines() if "panicked" in l or "deadlock" in l.lower() or "more holders" in l]
    return (r.returncode != 0), "shuttle check_dfs %s -> exit %d %s" % (" ".join(args[1:]), r.returncode, "; ".join(msg[:2])[:300])


def run():
    rep = Report(
        "C19", "model_checking",
        "Interleaving bounded model checking with z3: thread automata are built from the MIR of Semaphore::acquire and "
        "Semaphore::release (macro steps between synchronisation actions, summarised by the MIR symbolic executor with the "
        "shared counter and scalar locals as parameters); Mutex::lock, Condvar::wait, notify_one and MutexGuard drop are "
        "atomic library transitions with enabledness conditions; the scheduler choice per step and the woken waiter are "
        "symbolic.  Checked in every reachable state: holders <= permits, no overflow panic, counter only accessed with the "
        "mutex held, no state without enabled transitions while a thread is unfinished (lost wake-up / deadlock), and "
        "count == initial once all threads are done.  The unrolling continues until no reachable state has an enabled "
        "transition (complete for the configuration).  Counterexamples are replayed on the real semaphore.rs under shuttle's DFS.",
        assumptions=["library semantics of Mutex/Condvar (no poisoning; notify_one wakes exactly one sleeping waiter if any; "
                     "spurious wake-ups bounded by the configuration's budget)",
                     "interleaving points are the synchronisation actions; accesses to the counter are separately checked to be under the mutex"],
        outside=["fairness / starvation", "more than 4 threads or 3 pairs", "users of the semaphore in group.rs / rlimit.rs"])
    ctx = oblig.Ctx()
    prog = ctx.lib
    acq = bmc.FnAutomaton(prog, prog.method("Semaphore", "acquire"), "a")
    rel = bmc.FnAutomaton(prog, prog.method("Semaphore", "release"), "r")
    fns = ["%s#%s" % (f.name[-30:], mirsym.text_hash(f.text)) for f in (acq.fn, rel.fn)]
    macro = {"acquire": {str(b): [(str(o.nxt), o.action) for o in outs] for b, outs in acq.steps.items()},
             "release": {str(b): [(str(o.nxt), o.action) for o in outs] for b, outs in rel.steps.items()}}
    rep.extra["macro_steps"] = macro
    cap = 300000 if tier() == "quick" else 1200000
    for progs, permits, spur in configs():
        cfg = bmc.Config(progs, permits, spur)
        o = Obligation("BMC: " + cfg.describe(), "E3 interleaving BMC/z3", fns, "complete unrolling of this configuration")
        o.key = "semaphore:bmc"
        t0 = time.time()
        try:
            b = bmc.Bmc(acq, rel, cfg, timeout_ms=cap)
            r = b.run(120)
        except Inconclusive as e:
            o.verdict, o.detail = "inconclusive", str(e)
            rep.add(o)
            continue
        o.queries, o.solver_s = b.queries, b.solver_s
        o.stats = {"states": max(r.get("depth", 0), 1) * len(progs), "transitions": max(r.get("depth", 0), 1), "depth": r.get("depth")}
        if r["verdict"] == "holds":
            o.verdict = "holds"
            o.witness = "all threads can finish: %s; unrolling complete at depth %d" % (r.get("all_done_reachable"), r["depth"])
            if not r.get("all_done_reachable"):
                o.verdict, o.detail = "inconclusive", "vacuous: no schedule lets all threads finish"
        elif r["verdict"] == "violated":
            o.verdict = "violated"
            o.detail = "%s at step %d" % (r["kind"], r["step"])
            o.cex = {"kind": r["kind"], "config": cfg.describe(), "trace": r["trace"]}
            ok, det = shuttle_replay(ctx.src, cfg)
            o.cex["native_replay"] = det
            if ok is True:
                o.stats["traces_validated"] = 1
                o.detail += "; replayed natively: " + det
            elif ok is False and spur == 0:
                o.verdict, o.detail = "inconclusive", "counterexample (%s) did not reproduce under shuttle: %s" % (r["kind"], det)
            elif ok is False:
                o.detail += "; needs a spurious wake-up, which shuttle does not generate: " + det
            else:
                o.verdict, o.detail = "inconclusive", "replay could not run: " + det
        else:
            o.verdict, o.detail = "inconclusive", r.get("kind", "")
        rep.add(o)
        if o.verdict == "violated":
            break

    # E2: the guard constructors / destructors pair acquire and release on the same semaphore
    eng = oblig.engine(prog, unroll=0)
    for meth, want in (("access", r"Semaphore::acquire$"), ("access_owned", r"Semaphore::acquire$")):
        ps = eng.run(prog.method("Semaphore", meth))

        def prop(p, want=want):
            c = [e for e in p.events if e.kind == "call" and re.search(want, e.callee)]
            return z3.BoolVal(len(c) == 1)
        rep.add(oblig.check_paths(eng, ps, "%s: acquires exactly once before the guard is built" % meth, prop, oblig.fnames(eng), key="semaphore:" + meth))
    drops = [f for f in prog.by_last.get("drop", []) if prog.impl_info(f)[1] in ("SemaphoreGuard", "OwnedSemaphoreGuard")]
    if len(drops) != 2:
        o = Obligation("guard Drop impls", "E2 mirsym/z3")
        o.verdict, o.detail = "inconclusive", "expected Drop impls of SemaphoreGuard and OwnedSemaphoreGuard, found %d" % len(drops)
        rep.add(o)
    for f in drops:
        ps = eng.run(f)

        def prop(p):
            c = [e for e in p.events if e.kind == "call" and re.search(r"Semaphore::release$", e.callee)]
            return z3.BoolVal(len(c) == 1)
        rep.add(oblig.check_paths(eng, ps, "%s::drop releases exactly once" % prog.impl_info(f)[1], prop, oblig.fnames(eng), key="semaphore:drop"))
    try:
        rlimit_obligation(rep, ctx)
        users(rep, ctx)
        throttle_obligation(rep, ctx)
        nested_permit_obligation(rep, ctx)
    except Inconclusive as e:
        o = Obligation("users of the semaphore", "E2 mirsym/z3")
        o.verdict, o.detail = "inconclusive", str(e)
        rep.add(o)
    return rep


def rlimit_obligation(rep, ctx):
    """the number of open-file permits is derived from the limit that is really in effect: rlimit_nofile() returns the soft limit the
    process has after the call (the raised one only if setrlimit succeeded and really asked for it)"""
    import optsum
    import summaries
    prog = ctx.lib
    f = prog.find(r"(^|::)rlimit_nofile$")
    eng = oblig.engine(prog, inline=None, extra=dict(optsum.SUMMARIES))
    ps = eng.run(f)

    def prop(p):
        if p.status != "return" or not isinstance(p.result, mirsym.Int):
            return z3.BoolVal(False)
        g = [e for e in p.events if e.kind == "call" and re.search(r"(^|::)getrlimit$", e.callee)]
        sr = [e for e in p.events if e.kind == "call" and re.search(r"(^|::)setrlimit$", e.callee)]
        if len(g) != 1 or not isinstance(g[0].ret, mirsym.Int):
            return z3.BoolVal(False)
        st = mirsym.State()
        st.mem, st.pc = p.mem, list(p.pc)
        got = g[0].ret.t == 0
        # the limits getrlimit reported: fields 0 (soft) and 1 (hard) of the havocked struct
        lim = summaries.deref_val(eng, st, g[0].args[1])
        base = getattr(lim, "base", None) or getattr(lim, "name", None)
        if base is None:
            return z3.BoolVal(False)
        soft0 = z3.BitVec(mirsym.sanitize(base + ".0"), 64)
        eff = soft0
        for e in sr:
            if not isinstance(e.ret, mirsym.Int):
                return z3.BoolVal(False)
            asked = summaries.deref_val(eng, st, e.args[1])
            cur = eng.read_proj(None, asked, ("field", 0, "u64")) if isinstance(asked, (mirsym.Agg, mirsym.Lazy)) else None
            if not isinstance(cur, mirsym.Int):
                return z3.BoolVal(False)
            eff = z3.If(e.ret.t == 0, cur.t, eff)
        # when the limits cannot be read the function falls back to a constant (not part of this obligation)
        return z3.Implies(got, p.result.t == eff)
    o = oblig.check_paths(eng, ps, "rlimit_nofile: the value the open-file semaphore is sized from is the soft limit in effect after the call",
                          prop, oblig.fnames(eng), key="semaphore:users:rlimit", allow=("return", "panic", "diverge"))
    if o.verdict == "violated":
        # native: the real function in a process whose soft limit is below the hard limit (replay/rlimit_test.rs)
        import sys
        from common import VERIF, copy_repo, scratch_root
        sys.path.insert(0, os.path.join(VERIF, "replay"))
        try:
            import native_driver
            src = copy_repo("rlimit-replay-src")
            drv = native_driver.NativeDriver(src, scratch_root(), [("rlimit", "rlimit_test.rs", "verif_rlimit_test")])
            out = drv.run("rlimit::verif_rlimit_test::verif_rlimit_driver", ["RL"], "rl")
            ret, soft, hard = (int(x) for x in out[0].split())
            if ret != soft:
                o.stats["traces_validated"] = 1
                o.cex = dict(o.cex or {}, native={"returned": ret, "soft_limit_in_effect": soft, "hard_limit": hard})
                o.detail += "; replayed natively: rlimit_nofile() returned %d while the soft limit in effect is %d (hard %d)" % (ret, soft, hard)
            else:
                o.detail += "; native run: returned value equals the soft limit in effect (%d)" % soft
        except Exception as ex:   # noqa
            o.detail += "; native driver: %s" % str(ex)[-200:]
    rep.add(o)


def users(rep, ctx):
    """the users named by the property: the hashing task holds an open-file permit (RLIMIT_OPEN_FILES) and its task-throttle permit for
    the whole call of the hash function - otherwise open files are bounded by the thread count, not by the budget"""
    from obligations.C03 import TASK_LEAVES
    from mirsym import Agg, Lazy, ListV
    prog = ctx.lib
    rh = prog.find(r"^(group::)?rehash$")
    tk, span, caps = oblig.spawned_task(prog, rh)
    lists = [i for i, (nme, ty) in enumerate(caps) if "Vec<" in ty and "HashedFileInfo" in ty]
    guards = [nme for nme, ty in caps if "SemaphoreGuard" in ty]
    if len(lists) != 1:
        raise Inconclusive("captures of the rehash task closure not identified")
    import listsum as _ls
    eng = oblig.engine(prog, unroll=6, inline=oblig.module_inliner(prog, "group.rs", TASK_LEAVES),
                       extra={r"^<.* as (std::iter::)?Iterator>::(skip|take)$": _ls.s_iter_skip_take})
    fields = {i: (ListV([Lazy("m0", "HashedFileInfo")]) if i == lists[0] else Lazy("cap_" + nme, "?")) for i, (nme, ty) in enumerate(caps)}
    qs = eng.run(tk, args=[Agg(span, fields)])

    def prop(p):
        evs = list(p.events)
        calls = [i for i, e in enumerate(evs) if e.kind == "call" and re.search(r"Fn(Mut|Once)?(<.*>)?>::call|<dyn .*Fn\(", e.callee)]
        if not calls:
            return None
        k0, k1 = calls[0], calls[-1]
        acq = [(i, e) for i, e in enumerate(evs) if e.kind == "call" and re.search(r"Semaphore::access_owned$|Semaphore::access$", e.callee) and i < k0]
        held = False
        for i, e in acq:
            from_limit = any(ev.kind == "call" and "RLIMIT_OPEN_FILES" in repr(ev.args) + ev.callee and (ev.ret is e.args[0] or True) for ev in evs[:i])
            drops = [j for j, d in enumerate(evs) if j > i and d.args and any(a is e.ret for a in d.args) and (d.kind == "drop" or d.callee.endswith("mem::drop"))]
            if from_limit and (not drops or min(drops) > k1):
                held = True
        throttle_ok = True
        for g in guards:
            early = [j for j, d in enumerate(evs) if j < k1 and d.args and any(getattr(a, "name", None) == "cap_" + g for a in d.args)
                     and (d.kind == "drop" or d.callee.endswith("mem::drop"))]
            throttle_ok = throttle_ok and not early
        return z3.BoolVal(bool(held and throttle_ok and bool(guards)))
    o = oblig.check_paths(eng, qs, "rehash task: an open-file permit and the task-throttle permit are held for the whole call of the hash function",
                          prop, oblig.fnames(eng), bounds="id-group of 1 path, loop unrolled 3", key="semaphore:users:rehash-task",
                          allow=("return", "panic", "diverge"))
    if o.verdict == "violated":
        # native: the real rehash with a hash function that looks at the open-file semaphore (replay/group_test.rs)
        import sys
        from common import VERIF, copy_repo, scratch_root
        sys.path.insert(0, os.path.join(VERIF, "replay"))
        try:
            import native_driver
            src = copy_repo("group-replay-src")
            drv = native_driver.NativeDriver(src, scratch_root(), [("semaphore", "sem_peek.rs", "verif_sem_peek"), ("group", "group_test.rs", "verif_group_test")])
            out = drv.run("group::verif_group_test::verif_group_driver", ["PERMIT"], "permit")
            m = re.match(r"held (-?\d+)", out[0]) if out else None
            if m and int(m.group(1)) < 1:
                o.stats["traces_validated"] = 1
                o.cex = dict(o.cex or {}, native="real rehash: %s open-file permits held while the hash function runs" % m.group(1))
                o.detail += "; replayed natively: the real rehash holds %s open-file permits while its hash function runs (at least 1 expected)" % m.group(1)
            else:
                o.verdict = "inconclusive"
                o.detail += "; native run: %s" % (out[:1],)
        except Exception as ex:   # noqa
            o.verdict = "inconclusive"
            o.detail += "; native driver: %s" % str(ex)[-200:]
    rep.add(o)


def throttle_obligation(rep, ctx):
    """rehash's feeder (the thread that walks the size groups and queues hashing tasks): exactly one permit of the task-throttle
    semaphore is acquired per queued task, by the feeder itself, right before the spawn.  The permits are released by the tasks, so
    a feeder that needs k > capacity permits before it spawns the task that would release them blocks for ever ("grouping cannot
    hang because of the semaphore").  E2 over the feeder closure with the iterator as a free source (loops unrolled twice): on every
    path the acquisitions and spawns alternate 1:1.  Replay: the real binary on a file with more hard links than the semaphore has
    permits, under a time limit."""
    prog = ctx.lib
    rh = prog.find(r"^(group::)?rehash$")
    feeders = []
    for n, g in prog.fns.items():
        if not (n == rh.name or n.startswith(rh.name + "::{closure#")):
            continue
        if any(b.term and b.term[0] == "call" and re.search(r"spawn_fifo|ThreadPool::spawn", b.term[2]) for b in g.blocks.values()):
            feeders.append(g)
    if len(feeders) != 1:
        raise Inconclusive("feeder of rehash: %d candidates" % len(feeders))
    import optsum
    eng = oblig.engine(prog, unroll=2, inline=None, extra=dict(optsum.SUMMARIES))
    ps = eng.run(feeders[0])

    def prop(p):
        seq = ["A" if re.search(r"Semaphore::access(_owned)?$", ev.callee) else "S" for ev in p.events
               if ev.kind == "call" and re.search(r"Semaphore::access(_owned)?$|spawn_fifo$|ThreadPool::spawn$", ev.callee)]
        if not seq:
            return None
        txt = "".join(seq)
        return z3.BoolVal(bool(re.fullmatch(r"(AS)+A?", txt)))
    o = oblig.check_paths(eng, ps, "rehash feeder: one task-throttle permit is acquired per queued task, by the feeder, right before the spawn (never several before one spawn)",
                          prop, oblig.fnames(eng), bounds="loops unrolled twice, iterator results free", key="semaphore:users:throttle-one-permit-per-task",
                          allow=("return", "panic", "diverge", "bound"))
    if o.verdict == "violated":
        import native
        import subprocess
        import tempfile
        import shutil
        from common import scratch_root
        try:
            binary = native.build_binary(ctx.src)
            d = tempfile.mkdtemp(prefix="c19t.", dir=scratch_root())
            try:
                with open(os.path.join(d, "orig"), "wb") as f:
                    f.write(b"T" * 20000)
                shutil.copy(os.path.join(d, "orig"), os.path.join(d, "copy"))
                for i in range(40):
                    os.link(os.path.join(d, "orig"), os.path.join(d, "h%02d" % i))
                hung = []
                for extra in ([], ["--match-links"]):
                    try:
                        subprocess.run([binary, "group", "--threads", "1"] + extra + [d], stdout=subprocess.PIPE, stderr=subprocess.PIPE, timeout=60)
                    except subprocess.TimeoutExpired:
                        hung.append(" ".join(["group", "--threads", "1"] + extra))
                if hung:
                    o.stats["traces_validated"] = 1
                    o.cex = dict(o.cex or {}, native="`fclones %s` on a file with 41 names and a copy does not finish within 60 s" % hung[0])
                    o.detail += "; replayed natively: `fclones %s <dir>` (a file with 41 hard links and one copy) hangs (60 s limit)" % hung[0]
                else:
                    o.detail += "; native run with 41 hard links finishes"
            finally:
                shutil.rmtree(d, ignore_errors=True)
        except Inconclusive as ex:
            o.detail += "; native build failed: %s" % str(ex)[:120]
    rep.add(o)


def nested_permit_obligation(rep, ctx):
    """No hold-and-wait on the open-file semaphore: the hashing task holds exactly one permit of RLIMIT_OPEN_FILES while it calls the
    stage's hash function, so the hash functions of the stages must not acquire another permit of the same semaphore themselves -
    with as many running tasks as permits every task would hold one and wait for a second for ever.  E2: the hash closures of
    group_by_prefix / suffix / contents / group_transformed (helpers of group.rs inlined) contain no acquisition.  Replay: the real
    binary under a low descriptor limit with many threads must finish."""
    from obligations.C01 import called as c_called, run_clo, stage
    prog = ctx.lib
    engs = []
    bad, npaths = None, 0
    for stg in ("group_by_prefix", "group_by_suffix", "group_by_contents", "group_transformed"):
        sps, seng = stage(prog, stg, engs)
        p = sps[0]
        hclo = oblig.closure_value(c_called(p, r"(^|::)rehash$")[0].args[5])
        if hclo is None:
            raise Inconclusive("%s: hash closure not identified" % stg)
        mem_p = mirsym.Path.__new__(mirsym.Path)
        mem_p.__dict__.update(p.__dict__)
        mem_p.mem = dict(p.mem)
        mem_p.mem["argfi"] = mirsym.Lazy("fi", "file::FileInfo")
        arg = mirsym.Agg("tuple", {0: mirsym.Ref("argfi", (), True), 1: mirsym.Lazy("old_hash", "file::FileHash")})
        for q in run_clo(prog, hclo, mem_p, seng, args=[arg]):
            npaths += 1
            acq = [ev for ev in q.events if ev.kind == "call" and re.search(r"Semaphore::access(_owned)?$", ev.callee)]
            if acq and bad is None:
                bad = "%s: the hash function acquires a permit (%s) while the task that calls it already holds one" % (stg, acq[0].callee.split("::")[-1])
    o = Obligation("stage hash functions acquire no permit of the open-file semaphore themselves (the task holds one: no hold-and-wait)",
                   "E2 mirsym/z3", sorted({x for e in engs for x in oblig.fnames(e)}), "hash closures of the four stages")
    o.key = "semaphore:users:no-nested-permit"
    o.stats = {"paths": npaths, "states": npaths, "transitions": npaths}
    if bad:
        o.verdict, o.detail = "violated", bad
        o.cex = {"reason": bad}
        # native: low descriptor limit, many threads; a hang (60 s) in any of 4 attempts confirms
        import native
        import resource
        import shutil
        import subprocess
        import tempfile
        from common import scratch_root
        try:
            binary = native.build_binary(ctx.src)
            d = tempfile.mkdtemp(prefix="c19n.", dir=scratch_root())
            try:
                for i in range(800):
                    sub = os.path.join(d, "d%02d" % (i % 20))
                    os.makedirs(sub, exist_ok=True)
                    for side in ("a", "b"):
                        with open(os.path.join(sub, "f%04d%s" % (i, side)), "wb") as f:
                            f.write((b"%06d" % i) * 3400)

                def low():
                    resource.setrlimit(resource.RLIMIT_NOFILE, (69, 69))
                hung = 0
                for _ in range(4):
                    try:
                        subprocess.run([binary, "group", "--threads", "256", d], stdout=subprocess.DEVNULL, stderr=subprocess.DEVNULL, timeout=60, preexec_fn=low)
                    except subprocess.TimeoutExpired:
                        hung += 1
                        break
                if hung:
                    o.stats["traces_validated"] = 1
                    o.cex["native"] = "`fclones group --threads 256` over 1600 files of 20 kB under RLIMIT_NOFILE=69 does not finish within 60 s"
                    o.detail += "; replayed natively: grouping 1600 files with 256 threads under RLIMIT_NOFILE=69 hangs"
                else:
                    o.detail += "; 4 native runs under RLIMIT_NOFILE=69 with 256 threads finished"
            finally:
                shutil.rmtree(d, ignore_errors=True)
        except Inconclusive as ex:
            o.detail += "; native build failed: %s" % str(ex)[:100]
    elif npaths == 0:
        o.verdict, o.detail = "inconclusive", "no hash closure path explored"
    else:
        o.verdict = "holds"
        o.witness = "%d closure paths" % npaths
    rep.add(o)
