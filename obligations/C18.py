"""C18 - `move` maps sources injectively and never overwrites."""
from common import Report, tier
from obligations import e1
from obligations.C05 import FUNCS


def run():
    rep = Report(
        "C18", "model_checking",
        "Kani/CBMC over the compiled FsCommand::execute(Move) with move_rename / move_copy on a model file system: "
        "target-exists, parent-dir-exists, use_rename and the failure of every FS call are symbolic; fs::copy is "
        "two-step.  Asserted in every state: a pre-existing target is never altered; the source inode stays until "
        "the target holds the complete bytes; Ok => source gone, target complete and it did not exist before.",
        assumptions=[
            "stubs as in C05; check_can_rename is modelled as 'Err iff target slot non-empty'",
            "TOCTOU between the existence check and rename/copy is outside the claim",
        ],
        outside=["cross-device behaviour of the real rename", "TOCTOU races"])
    import oblig
    ctx0 = oblig.Ctx()
    oblig.install_battery(rep, ctx0, ["c18_battery"])
    src, _ = e1.prepare()
    fn = e1.source_of(src, "dedupe.rs", FUNCS)
    specs = [dict(harness="fs_move", name="execute(Move) never overwrites / deletes before copy complete",
                  functions=fn, bounds="one command, every subset of FS calls failing, unwind 2",
                  key="execute:move:C18")]
    e1.run_harnesses(rep, "C18", src, specs, jobs=2, timeout=1500 if tier() == "quick" else 3600,
                     replayer=e1.fs_replayer("faults", {"fs_move": "move"}))
    from obligations import C05
    C05.wrappers(rep)
    from obligations import C18_e2
    from common import Inconclusive, Obligation
    try:
        C18_e2.add(rep, ctx0)
    except Inconclusive as ex:
        o = Obligation("move_target mapping", "E2 mirsym/z3")
        o.verdict, o.detail = "inconclusive", str(ex)
        rep.add(o)
    return rep
