"""C05 - replacing a file is atomic w.r.t. crashes and I/O errors.
E1 (Kani): FsCommand::execute per variant over a model file system; every FS wrapper may fail
(any subset of calls => every position k, and pairs); the invariant is asserted before and after the
effect of every model call (= the states a kill can expose)."""
from common import Report, copy_repo, tier
from obligations import e1

FUNCS = ["execute", "safe_remove", "move_rename", "move_copy"]
OPS = {"fs_remove": "remove", "fs_hardlink": "link", "fs_softlink": "soft", "fs_move": "move"}


def specs_for(src, prop):
    fn = e1.source_of(src, "dedupe.rs", FUNCS)
    return [dict(harness=h, name="execute(%s) under arbitrary call failures / kill points" % op, functions=fn,
                 bounds="one command, every subset of <=6 FS calls failing, 5-slot model FS, unwind 2",
                 key="execute:%s:%s" % (op, prop)) for h, op in OPS.items()]


def run():
    rep = Report(
        "C05", "model_checking",
        "Kani/CBMC over the compiled FsCommand::execute, safe_remove, move_rename, move_copy (and the closures "
        "passed to safe_remove) for Remove, HardLink, SoftLink, Move.  The thin std::fs wrappers are replaced by a "
        "5-slot model file system (file, temp sibling, retained file, bystander, move target); every call fails "
        "nondeterministically, fs::copy is two-step.  Asserted in every intermediate state: the original inode is at "
        "its path or under the temp name, or the path is a complete replacement; retained and bystander files never "
        "change.  Asserted at return: Ok => replaced and no temp left without warning; Err => original restored, or "
        "(roll-back failed too) original under temp name and a warning; one single fault => restored.",
        assumptions=[
            "stubs: FsCommand::{unsafe_rename,remove,hardlink,symlink,check_can_rename,mkdirs,unsafe_copy,temp_file,maybe_lock}, Path::display, alloc::fmt::format",
            "rename/link/unlink/symlink are atomic (POSIX); no fsync/power-loss model",
            "unwind 2 with unwinding assertions on",
        ],
        outside=["rayon scheduling in run_script", "power loss / fsync ordering", "the std::fs calls themselves"])
    src, _ = e1.prepare()
    e1.run_harnesses(rep, "C05", src, specs_for(src, "C05"), jobs=8,
                     timeout=1500 if tier() == "quick" else 3600, replayer=e1.fs_replayer("faults", OPS))
    wrappers(rep)
    # "the file is not counted as processed" / the rest of the script goes on: run_script
    try:
        import oblig
        from obligations import C20_run
        ctxr = oblig.Ctx()
        oblig.install_battery(rep, ctxr, ["c20_battery"])
        C20_run.add(rep, ctxr.lib)
    except Exception as ex:   # noqa
        from common import Obligation
        o = Obligation("run_script", "E2 mirsym/z3")
        o.verdict, o.detail = "inconclusive", str(ex)[:200]
        rep.add(o)
    return rep


def simulation(rep, ctx, variants=None):
    """E2 path enumeration of execute replayed on the model file system (obligations/C05_sim.py); replay = native fault plans"""
    from obligations import C05_sim
    reps = {v: e1.fs_replayer("faults", {"w": op}) for v, op in (("Remove", "remove"), ("SoftLink", "soft"), ("HardLink", "link"), ("Move", "move"))}

    def replayer(o, variant):
        ok, det = reps[variant]({"harness": "w"}, None)
        o.cex = dict(o.cex or {}, native_replay=det)
        if ok is True:
            o.stats["traces_validated"] = 1
            o.detail += "; replayed natively: " + det
        else:
            o.detail += "; native fault plans: " + str(det)
    C05_sim.add(rep, ctx, replayer, variants)


def wrappers(rep):
    """E2 obligations on the code the Kani harnesses stub (thin std::fs wrappers, temp_file); replay = the native fault plans"""
    import oblig
    from common import Inconclusive, Obligation
    from obligations import C05_e2
    fsr = e1.fs_replayer("faults", {"w": "move"})
    fsl = e1.fs_replayer("faults", {"w": "link"})

    def replayer(o, name):
        r = fsr if name in ("unsafe_copy", "mkdirs", "check_can_rename", "unsafe_rename") else fsl
        ok, det = r({"harness": "w"}, None)
        o.cex = dict(o.cex or {}, native_replay=det)
        if ok is True:
            o.stats["traces_validated"] = 1
            o.detail += "; replayed natively: " + det
        else:
            # left unconfirmed so that the report's battery (if any) can still confirm it
            o.detail += "; native fault plans: " + str(det)
    try:
        ctxw = oblig.Ctx()
        C05_e2.add(rep, ctxw, replayer)
        C05_e2.reflink_protocol(rep, ctxw)
        simulation(rep, ctxw)
    except Inconclusive as ex:
        o = Obligation("file-system wrappers", "E2 mirsym/z3")
        o.verdict, o.detail = "inconclusive", str(ex)
        rep.add(o)
