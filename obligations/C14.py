"""C14 - a report is internally consistent in every output format (kernel level).

E2 (mirsym/z3):
  * write_report_at with a list of 2 symbolic groups: every header statistic is the sum over exactly the list that is handed
    to the writer (group count, files, bytes, redundant / missing files and bytes with redundant_count / missing_count as
    pure functions of (group, filter)); the format handed to the writer is config.format; both output branches;
  * redundant_count / missing_count / matches(_strictly) against their documented definition over the *real* sub-grouping
    (FileSubGroup::group executed symbolically with an IndexMap model: hard links and --isolate roots), and the sub-grouping
    itself against a declarative reference (obligations/subgroups.py);
  * sort_by_path (ascending paths; files of one isolate root together, roots in the given order) and the key of the final
    group sort (decreasing (file length, hash prefix));
  * the four writers on 2 groups of 3 and 1 files: the text group header prints files.len() and is followed by exactly
    that many path lines, in order; fdupes prints the same paths and a blank line per group; CSV writes size, hash,
    files.len() and the same paths with a quoting style that quotes when necessary; JSON serialises the same length, hash
    and files; ReportWriter::write dispatches each format to its writer with the same header and groups."""
import re

import z3

import listsum
import mapsum
import mirsym
import oblig
import optsum
import strsum
import summaries
from common import Inconclusive, Obligation, Report, tier
from mirsym import Agg, Bool, EnumV, Event, FnV, Int, Lazy, ListV, Opaque, Ref, Str, Unit
from obligations import subgroups
from summaries import deref_val

FILE_INL = r"<impl at fclones/src/file\.rs:\d+:\d+: \d+:\d+>::(mul|add|add_assign|sum|clone|from|into)$"


def called(p, pattern):
    return [e for e in p.events if e.kind == "call" and re.search(pattern, e.callee)]


# ------------------------------------------------------------------ summaries

def s_fold(e, st, callee, args, dty):
    """Iterator::fold on a concrete-length list: the closure body is executed once per element (arithmetic-overflow panics
    of the accumulator are outside the claim: the no-overflow condition is added to the path)"""
    l = listsum.as_list(e, st, args[0])
    if l is None:
        return NotImplemented
    acc = args[1]
    for it in l.items:
        ok = None
        try:
            paths = closure_paths_tolerant(e, st, args[2], [acc, it])
        except Inconclusive:
            return NotImplemented
        if len(paths) != 1:
            raise Inconclusive("fold closure forks (%d return paths)" % len(paths))
        extra, res, evs = paths[0]
        st.pc.extend(extra)
        st.events.extend(evs)
        acc = res
    return acc


def closure_paths_tolerant(e, st, clo, argvals):
    from mirsym import Engine, is_ref_type
    clo_v = deref_val(e, st, clo)
    span = clo_v.ty if isinstance(clo_v, Agg) else (clo_v.name if isinstance(clo_v, FnV) else None)
    if span is None or "closure" not in span:
        raise Inconclusive("not a closure")
    if isinstance(clo_v, FnV):
        clo_v = Agg(span, {})
    cf = e.prog.closure_by_span(span)
    if cf is None:
        raise Inconclusive("closure not in MIR")
    sub = Engine(e.prog, inline=e.inline, summaries=e.summaries, unroll=max(e.unroll, 4), inline_all=e.inline_all)
    mem = dict(st.mem)
    a0 = clo_v
    if cf.args and is_ref_type(cf.args[0][1]):
        cell = "foldclo:%d:%d" % (st.counter, len(mem))
        mem[cell] = a0
        a0 = Ref(cell, (), True)
    paths = sub.run(cf, args=[a0] + list(argvals), pre=list(st.pc), mem=mem)
    e.encoded.update(sub.encoded)
    e.queries += sub.queries
    e.solver_s += sub.solver_s
    out = []
    for p in paths:
        if p.status == "return":
            out.append((p.pc[len(st.pc):], p.result, p.events))
        elif p.status in ("abort", "bound"):
            raise Inconclusive("fold closure: %s %s" % (p.status, p.note[:100]))
    return out


def s_map_tolerant(e, st, callee, args, dty):
    """Iterator::map on a concrete-length list; the no-overflow conditions of the closure body are added to the path"""
    l = listsum.as_list(e, st, args[0])
    if l is None:
        return NotImplemented
    out = []
    for it in l.items:
        try:
            ps = closure_paths_tolerant(e, st, args[1], [it])
        except Inconclusive:
            return NotImplemented
        if len(ps) != 1:
            return NotImplemented
        st.pc.extend(ps[0][0])
        st.events.extend(ps[0][2])
        out.append(ps[0][1])
    return ListV(out, "iter")


def s_len_pure(e, st, callee, args, dty):
    v = deref_val(e, st, args[0])
    if isinstance(v, ListV):
        return Int(z3.BitVecVal(len(v.items), 64), "usize")
    if isinstance(v, (Lazy, Agg)):
        return summaries.pure("len")(e, st, callee, args, dty)
    return NotImplemented


def s_sum(e, st, callee, args, dty):
    """Iterator::sum over integers or single-field newtypes (FileLen)"""
    l = listsum.as_list(e, st, args[0])
    if l is None:
        return NotImplemented
    t = z3.BitVecVal(0, 64)
    newtype = None
    for x in l.items:
        x = deref_val(e, st, x)
        if isinstance(x, Int):
            t = t + x.t
        elif isinstance(x, Agg) and 0 in x.fields and isinstance(x.fields[0], Int):
            t = t + x.fields[0].t
            newtype = x.ty
        elif isinstance(x, Lazy):
            t = t + z3.BitVec(mirsym.sanitize(x.name + ".0"), 64)
            newtype = mirsym.type_base(x.ty)
        else:
            return NotImplemented
    t = z3.simplify(t)
    if newtype:
        return Agg(newtype, {0: Int(t, "u64")})
    return Int(t, "usize")


def u64_of(v):
    if isinstance(v, Int):
        return v.t
    if isinstance(v, Agg) and 0 in v.fields and isinstance(v.fields[0], Int):
        return v.fields[0].t
    if isinstance(v, Lazy):
        return z3.BitVec(mirsym.sanitize(v.name + ".0"), 64)
    if isinstance(v, Agg) and v.base:
        return z3.BitVec(mirsym.sanitize(v.base + ".0"), 64)
    raise Inconclusive("no u64 in %r" % (v,))


def stats_extras():
    ex = dict(optsum.SUMMARIES)
    ex.update(listsum.LIST)
    ex.update(mapsum.MAP)
    ex[r"^<.* as (std::iter::)?Iterator>::fold$"] = s_fold
    ex[r"^<.* as (std::iter::)?Iterator>::sum$"] = s_sum
    ex[r"^<.* as (std::iter::)?Iterator>::map$"] = s_map_tolerant
    ex[r"^(std::vec::|alloc::vec::)?Vec::len$"] = s_len_pure
    ex[r"FileGroup::redundant_count$"] = summaries.pure("redundant_count")
    ex[r"FileGroup::missing_count$"] = summaries.pure("missing_count")
    ex[r"GroupConfig::group_filter$"] = summaries.pure("group_filter")
    return ex


def run():
    rep = Report(
        "C14", "other",
        "Bounded symbolic execution (mirsym/z3): write_report_at on a list of 2 symbolic groups (every header statistic is the sum over "
        "the very list handed to the writer, for both output branches); redundant_count / missing_count / matches(_strictly) "
        "against their documented definitions over the real FileSubGroup::group (executed symbolically for <= 3 files and "
        "<= 2 roots with an insertion-ordered-map model, against a declarative reference); sort_by_path and the key of the "
        "final group sort; the text / fdupes / CSV / JSON writers on groups of 3 and 1 files (count printed == paths listed, "
        "same paths in the same order in every format) and the format dispatcher.",
        assumptions=["IndexMap by its documented contract (insertion-ordered map)", "slice::sort_by / par_sort_by_key are correct sorts (stable) by the comparator / key that is checked",
                     "Path::is_prefix_of is a free predicate of (root, path); file ids are symbolic (inode, device) pairs",
                     "no arithmetic overflow in the header totals (u64 / usize sums)",
                     "csv, serde_json, console styling are trusted to print the fields they are given"],
        outside=["the csv / serde_json crates' own output", "the parallel sort's implementation", "absolute-ness of paths (walk, C09)",
                 "more than 3 files per group / 2 isolate roots (thorough: 4 / 3)"])
    ctx = oblig.Ctx()
    prog = ctx.lib
    engs = []
    fn = lambda: sorted({x for e in engs for x in oblig.fnames(e)})

    _add = rep.add

    def add_replayed(o):
        if o.verdict == "violated":
            replay(o, ctx)
        return _add(o)
    rep.add = add_replayed

    def guarded(name, body):
        try:
            body()
        except Inconclusive as e:
            o = Obligation(name, "E2 mirsym/z3")
            o.verdict, o.detail = "inconclusive", str(e)
            rep.add(o)

    # ------------------------------------------------------------------ sub-grouping and the counts built on it
    def sub():
        o = subgroups.group_obligations(rep, prog, engs, fn, tier())
        rep.add(o)
        for o in subgroups.count_obligations(prog, engs, fn, tier()):
            rep.add(o)
        rep.add(subgroups.sort_obligation(prog, engs, fn))
        from obligations import path_kernels
        path_kernels.is_prefix_of_obligation(rep, prog)
    guarded("sub-grouping", sub)

    # ------------------------------------------------------------------ header statistics
    def stats():
        f = prog.find(r"^(group::)?write_report_at$")
        LEAF = r"FileGroup::(redundant_count|missing_count)$|GroupConfig::group_filter$|ReportWriter::|(^|::)progress_bar$"

        def inl(c, t):
            return (oblig.defined_in(prog, t, "group.rs") or bool(re.search(FILE_INL, t.name))) and not re.search(LEAF, c)
        eng = oblig.engine(prog, unroll=3, extra=stats_extras(), inline=inl)
        engs.append(eng)
        groups = ListV([Lazy("g0", "FileGroup<FileInfo>"), Lazy("g1", "FileGroup<FileInfo>")], "slice")
        ps = eng.run(f, args=[None, None, Ref("groupscell", (), False), None], mem={"groupscell": groups})
        nwrite = [0]

        def prop(p):
            wr = called(p, r"ReportWriter::write$")
            if p.status in ("panic", "diverge"):
                return None
            if not wr:
                # File::create failed: the error is returned
                return z3.BoolVal(isinstance(p.result, EnumV) and p.result.variant == "Err")
            if len(wr) != 1:
                return z3.BoolVal(False)
            nwrite[0] += 1
            w = wr[0]
            hdr = deref_val(eng, _st(p), w.args[2])
            if not isinstance(hdr, Agg):
                return z3.BoolVal(False)
            stats_v = hdr.fields.get(prog.src.field_index("ReportHeader", "stats"))
            if not (isinstance(stats_v, EnumV) and stats_v.variant == "Some" and isinstance(stats_v.fields.get(0), Agg)):
                return z3.BoolVal(False)
            S = stats_v.fields[0]
            fi = lambda n: S.fields.get(prog.src.field_index("FileStats", n))
            # the groups handed to the writer: an iterator over the same slice (possibly wrapped by inspect)
            it = w.args[3]
            src_ok = False
            if isinstance(it, ListV) and len(it.items) == 2 and all(isinstance(x, Ref) and x.cell == "groupscell" for x in it.items):
                src_ok = [x.path for x in it.items] == [(("elem", 0),), (("elem", 1),)]
            elif isinstance(it, Lazy):
                insp = [e_ for e_ in called(p, r"Iterator>::(inspect|map|by_ref)$") if isinstance(e_.ret, Lazy) and e_.ret.name == it.name]
                if insp and isinstance(insp[0].args[0], ListV):
                    a = insp[0].args[0]
                    src_ok = len(a.items) == 2 and all(isinstance(x, Ref) and x.cell == "groupscell" for x in a.items)
            fmt_ok = "config" in eng.canon(_st(p), w.args[1]) and "format" in eng.canon(_st(p), w.args[1])
            filt = "group_filter(config)"
            rc = [z3.BitVec(mirsym.sanitize("redundant_count(g%d;%s)" % (i, filt)), 64) for i in range(2)]
            mc = [z3.BitVec(mirsym.sanitize("missing_count(g%d;%s)" % (i, filt)), 64) for i in range(2)]
            ln = [z3.BitVec(mirsym.sanitize("len(g%d.files)" % i), 64) for i in range(2)]
            fl = [z3.BitVec(mirsym.sanitize("g%d.file_len.0" % i), 64) for i in range(2)]
            try:
                conj = [
                    u64_of(fi("group_count")) == 2,
                    u64_of(fi("total_file_count")) == ln[0] + ln[1],
                    u64_of(fi("total_file_size")) == fl[0] * ln[0] + fl[1] * ln[1],
                    u64_of(fi("redundant_file_count")) == rc[0] + rc[1],
                    u64_of(fi("redundant_file_size")) == fl[0] * rc[0] + fl[1] * rc[1],
                    u64_of(fi("missing_file_count")) == mc[0] + mc[1],
                    u64_of(fi("missing_file_size")) == fl[0] * mc[0] + fl[1] * mc[1],
                ]
            except Inconclusive:
                return z3.BoolVal(False)
            return z3.And(z3.BoolVal(bool(src_ok)), z3.BoolVal(bool(fmt_ok)), *conj)
        o = oblig.check_paths(eng, ps, "write_report_at: group count, total / redundant / missing files and bytes are sums over exactly the group list handed to the writer; format = config.format",
                              prop, fn(), bounds="2 symbolic groups; both output branches", key="report:header-stats", allow=("return", "panic", "diverge"))
        if o.verdict == "holds" and nwrite[0] < 2:
            o.verdict, o.detail = "inconclusive", "only %d writer call(s) reached (expected the file and the stdout branch)" % nwrite[0]
        rep.add(o)
    guarded("header statistics", stats)

    # ------------------------------------------------------------------ final ordering of the groups
    def order():
        gf = prog.find(r"^(group::)?group_files$")
        cands = [g for g in prog.closures_of(gf) if "Reverse" in g.ret]
        if len(cands) == 0:
            # group_files itself does not sort its result: whichever pipeline produced the groups (default, --transform,
            # --skip-content-hash), the order they arrive in is what gets written - a counterexample, replayed through the CLI matrix
            o = Obligation("group_files: the final group order is by decreasing (file length, hash prefix)", "E2 mirsym/z3", fn(), "all pipelines")
            o.key = "report:group-order"
            o.verdict = "violated"
            o.detail = "group_files applies no sort by a Reverse((len, hash)) key to the list it returns"
            o.cex = {"reason": o.detail}
            replay(o, ctx)
            rep.add(o)
            return
        if len(cands) != 1:
            raise Inconclusive("sort key closure of group_files: %d candidates" % len(cands))
        eng = oblig.engine(prog, unroll=0, extra={r"FileHash::u128_prefix$": summaries.pure("u128_prefix")})
        engs.append(eng)
        ps = eng.run(cands[0], args=[None, Lazy("g", "&FileGroup<FileInfo>")])

        def prop(p):
            r = p.result
            if p.status != "return" or not isinstance(r, Agg) or "Reverse" not in r.ty:
                return z3.BoolVal(False)
            k = r.fields.get(0)
            if not isinstance(k, Agg) or len(k.fields) != 2:
                return z3.BoolVal(False)
            a, b = k.fields[0], k.fields[1]
            ok = "file_len" in eng.canon(_st(p), a) and "u128_prefix" in eng.canon(_st(p), b) and "file_hash" in eng.canon(_st(p), b)
            return z3.BoolVal(bool(ok))
        o = oblig.check_paths(eng, ps, "group_files: the final group order is by decreasing (file length, hash prefix)", prop, fn(), key="report:group-order")
        # the closure must be what the parallel sort of the result list uses
        srt = [b for b in gf.blocks.values() if b.term and b.term[0] == "call" and re.search(r"par_sort(_unstable)?_by_key", b.term[2]) and cands[0].args[0][1].split("{")[-1][:40] in b.term[2]]
        if o.verdict == "holds" and not srt:
            o.verdict, o.detail = "inconclusive", "the key closure is not passed to a sort-by-key of the result list"
        rep.add(o)
    guarded("group order", order)

    # ------------------------------------------------------------------ writers
    def writers():
        try:
            from obligations import C14_writers
        except ImportError:
            return
        C14_writers.add(rep, prog, engs, fn)
    guarded("writers", writers)
    return rep


def _st(p):
    st = mirsym.State()
    st.mem = p.mem
    st.pc = list(p.pc)
    return st


_REPLAY = {}


def replay(o, ctx, script="c14_consistency.py"):
    """native confirmation: the real binary on a scenario tree, every header statistic and ordering rule recomputed from the body"""
    import json
    import os
    import subprocess
    import sys
    import native
    from common import VERIF, scratch_root
    if script not in _REPLAY:
        try:
            binary = native.build_binary(ctx.src)
            p = subprocess.run([sys.executable, os.path.join(VERIF, "replay", script), binary, scratch_root()],
                               stdout=subprocess.PIPE, stderr=subprocess.PIPE, timeout=1800)
            _REPLAY[script] = json.loads(p.stdout.decode().strip().splitlines()[-1])
        except Exception as e:   # noqa
            _REPLAY[script] = {"error": str(e)[-300:]}
    res = _REPLAY[script]
    o.cex = dict(o.cex or {}, native_replay=res)
    if res.get("n", 0) == 0 and "sort_by_path" in o.name:
        # the order of paths inside a group: the real FileGroup::sort_by_path on every permutation of a menu of troublesome names
        dev = sort_by_path_replay(ctx)
        if dev:
            o.stats["traces_validated"] = 1
            o.cex["native_sort"] = dev
            o.detail += "; replayed natively with the real FileGroup::sort_by_path: %s" % json.dumps(dev)[:300]
            return
    if res.get("n", 0) > 0:
        o.stats["traces_validated"] = 1
        o.detail += "; replayed natively (CLI, header recomputed from the body): %s" % json.dumps(res["deviations"][0])[:300]
    else:
        o.verdict = "inconclusive"
        o.detail = "counterexample did not reproduce through the CLI consistency matrix (%s): %s" % (
            res.get("error") or "%d runs, no deviation" % res.get("runs", 0), o.detail)


def sort_by_path_replay(ctx):
    """real FileGroup::sort_by_path (replay/group_test.rs) on all permutations of small path menus (invalid UTF-8 bytes that collide
    under lossy conversion, upper/lower case, prefixes, with and without isolate roots): the result must be the ascending
    component-wise byte order (roots first, in the given order) and must not depend on the input order"""
    import itertools
    import os
    import sys
    from common import VERIF, copy_repo, scratch_root
    sys.path.insert(0, os.path.join(VERIF, "replay"))
    import native_driver
    try:
        src = copy_repo("group-replay-src")
        drv = native_driver.NativeDriver(src, scratch_root(), [("semaphore", "sem_peek.rs", "verif_sem_peek"), ("group", "group_test.rs", "verif_group_test")])
    except Exception as ex:   # noqa
        return None
    menus = [([], [b"/d/caf\xe9.txt", b"/d/caf\xe8.txt", b"/d/a", b"/d/cafe"]),
             ([], [b"/d/B", b"/d/a", b"/d/a/b", b"/d/a b"]),
             ([b"/r2", b"/r1"], [b"/r1/x", b"/r2/y", b"/r1/a", b"/r2/\xff", b"/r2/\xfe"]),
             ([b"/r1"], [b"/o/z", b"/r1/\xe9", b"/r1/\xe8", b"/o/a"])]
    key = lambda p: [c for c in p.split(b"/")]
    for roots, paths in menus:
        def rank(p):
            for i, r in enumerate(roots):
                if p.startswith(r + b"/"):
                    return i
            return len(roots)
        want = sorted(paths, key=lambda p: (rank(p), key(p)))
        lines = ["SP %d %s %s" % (len(roots), " ".join(r.hex() for r in roots), " ".join(p.hex() for p in perm)) for perm in itertools.permutations(paths)]
        lines = [" ".join(l.split()) for l in lines]
        out = drv.run("group::verif_group_test::verif_group_driver", lines, "sp")
        for perm, l in zip(itertools.permutations(paths), out):
            got = [bytes.fromhex(h) for h in l.split()]
            if got != want:
                return {"roots": [repr(r) for r in roots], "input_order": [repr(p) for p in perm], "sorted": [repr(p) for p in got], "documented": [repr(p) for p in want]}
    return None
