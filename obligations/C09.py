"""C09 - the scan selects exactly the files the options describe (decision logic of the walk).

E2: every path of Walk::{visit_path, visit_entry, visit_file, visit_link, visit_dir}, of the closures
that carry the nesting level, of run's root handling and of scan_files' size filter is enumerated
symbolically; the results of the environment calls (matches_dir, matches_full_path, gitignore,
same_fs, visited.insert, stat, read_dir, readlink) are free symbols.  Each path's effects
(consumer call / read_dir / recursive visit with its level term) are compared with a reference
decision table written from the documentation."""
import json
import os
import re
import shutil
import subprocess
import tempfile

import z3

import mirsym
import native
import oblig
from common import Inconclusive, Report, say, tier
from mirsym import Agg, Bool, EnumV, Int, Lazy

U64 = lambda n: z3.BitVec(n, 64)
B = z3.Bool


def retbool(p, pattern, default):
    e = oblig.first(p.events, pattern)
    if e is None:
        return z3.Bool(default)
    return oblig.ev_ret_bool(e)


def called(p, pattern):
    return [e for e in p.events if e.kind == "call" and re.search(pattern, e.callee)]


def arg_int(e, i):
    v = e.args[i]
    if isinstance(v, Int):
        return v.t
    raise Inconclusive("argument %d of %r is not an integer" % (i, e))


def resolve_link_obligation(prog):
    """Walk::resolve_link: the link target (relative or absolute) passes through Walk::absolute / canonicalize before it is returned"""
    import optsum
    rl = prog.method("Walk", "resolve_link")
    eng_rl = oblig.engine(prog, unroll=0, inline=None, extra=optsum.SUMMARIES)
    lk = Lazy("link", rl.args[1][1])
    sv = Lazy("self", rl.args[0][1])
    rlp = eng_rl.run(rl, args=[sv, lk])

    def resolve_prop(p):
        if p.status != "return" or not isinstance(p.result, EnumV) or p.result.variant != "Ok":
            return None
        tup = p.result.fields.get(0)
        tgt = tup.fields.get(0) if isinstance(tup, Agg) else None
        ab = [e for e in p.events if e.kind == "call" and re.search(r"Walk::absolute$|canonicalize$", e.callee)]
        rdl = called(p, r"read_link$")
        ok = len(rdl) == 1 and any(e.ret is tgt for e in ab)
        return z3.BoolVal(bool(ok))
    return oblig.check_paths(eng_rl, rlp, "resolve_link: the link target (relative or absolute) is made absolute and canonical before it is walked or recorded as visited",
                             resolve_prop, oblig.fnames(eng_rl), key="resolve_link:canonical", allow=("return", "panic", "diverge"))


def run():
    rep = Report(
        "C09", "other",
        "Bounded symbolic execution (mirsym, z3) of the MIR of the walk's decision logic: all paths of "
        "Walk::visit_path/visit_entry/visit_file/visit_link/visit_dir, the spawn/for_each closures that carry the "
        "nesting level, run's per-root closure and scan_files' size-filter closure.  Environment calls are free "
        "symbols; the effects on every path are compared by z3 with a reference decision table taken from the "
        "option documentation (depth k: directories at nesting >= k are not read; hidden; ignore files; visited "
        "set only with follow_links; symlink reporting/following; one_fs; inclusive size bounds).  "
        "A counterexample is concretised into a real directory tree + option set and replayed through the CLI.",
        assumptions=["environment calls (stat, read_dir, readlink, matches_dir, matches_full_path, IgnoreStack::matches, "
                     "DashSet::insert, same_fs) return arbitrary values", "loops over directory entries unrolled once (each entry is handled by the same closure)"],
        outside=["the `ignore` crate's matching", "real directory iteration order", "glob matching and pruning (C16)",
                 "cycle detection beyond the visited-set test", "rayon scheduling"])
    ctx = oblig.Ctx()
    prog = ctx.lib
    W = lambda n: prog.method("Walk", n)
    # helper functions of walk.rs are inlined (only the visit_* protocol functions and the environment stay calls) and the
    # Option / Result combinators execute their closures, so the tables do not depend on how the code is factored
    import optsum
    WALK_LEAVES = r"Walk::(visit_path|visit_entry|visit_file|visit_link|visit_dir|run|same_fs|resolve_link|log_warn|sorted_entries|absolute)$|IgnoreStack::|Entry::|PathSelector::|Path::"
    winl = oblig.module_inliner(prog, "walk.rs", WALK_LEAVES)
    eng = oblig.engine(prog, unroll=1, inline=winl, extra=optsum.SUMMARIES)
    level, depth = U64("level"), U64("self*.depth")
    hidden, follow, report_l = B("self*.hidden"), B("self*.follow_links"), B("self*.report_links")
    no_ignore, one_fs = B("self*.no_ignore"), B("self*.one_fs")
    fns = lambda: oblig.fnames(eng)

    def finish(o, scenario=None):
        if o.verdict == "violated":
            replay_walk(o, ctx, scenario)
        rep.add(o)

    # ---- visit_dir -------------------------------------------------------------------
    vd = eng.run(W("visit_dir"))

    def depth_limit(p):
        if not called(p, r"(^|::)read_dir$"):
            return None
        return z3.ULT(level, depth)
    AB = ("return", "panic", "diverge", "bound")   # the loop over directory entries is cut after one iteration
    finish(oblig.check_paths(eng, vd, "visit_dir: a directory at nesting >= depth is never read", depth_limit,
                             fns(), key="visit_dir:depth-limit", allow=AB), "depth")

    def dir_complete(p):
        if called(p, r"(^|::)read_dir$"):
            return None
        md = retbool(p, r"PathSelector::matches_dir$", "free_matches_dir")
        sf = retbool(p, r"Walk::same_fs$", "free_same_fs")
        return z3.Not(z3.And(z3.ULT(level, depth), md, z3.Or(z3.Not(one_fs), sf)))
    finish(oblig.check_paths(eng, vd, "visit_dir: an admissible directory is always read", dir_complete, fns(),
                             key="visit_dir:completeness", allow=AB), "dir-skip")

    # children are visited at level + 1, through the closure given to scope.spawn
    spawn_checked = [0]

    def child_level(p):
        sp = called(p, r"Scope::spawn$")
        if not sp:
            return None
        conj = []
        for e in sp[:1]:
            clo = e.args[1]
            if not isinstance(clo, Agg):
                raise Inconclusive("spawn argument is not a closure aggregate")
            sub, sp_paths = oblig.run_closure(prog, clo, p, eng=eng)
            ok = False
            for q in sp_paths:
                ve = called(q, r"Walk::visit_entry$")
                if q.status == "return":
                    if len(ve) != 1:
                        return z3.BoolVal(False)
                    ok = True
                    spawn_checked[0] += 1
                    conj.append(z3.Implies(z3.And(*q.pc) if q.pc else z3.BoolVal(True), arg_int(ve[0], 4) == level + 1))
            if not ok:
                return z3.BoolVal(False)
        return z3.And(*conj)
    finish(oblig.check_paths(eng, vd, "visit_dir: children are visited at level + 1", child_level, fns(),
                             key="visit_dir:child-level", allow=AB), "child-level")

    # ---- visit_entry -----------------------------------------------------------------
    ve = eng.run(W("visit_entry"))
    tpe = U64("entry.tpe#d")

    def entry_table(p):
        has_name_e = oblig.first(p.events, r"Path::file_name_cstr$")
        has_name = (mirsym.z3.BitVec(mirsym.sanitize(has_name_e.ret.name + "#d"), 64) == 1) if has_name_e is not None else z3.Bool("free_has_name")
        dot = retbool(p, r"starts_with", "free_starts_with_dot")
        inserted = retbool(p, r"DashSet::insert$", "free_inserted")
        ignored = retbool(p, r"IgnoreStack::matches$", "free_ignored")
        proceed = z3.And(z3.Not(z3.And(z3.Not(hidden), has_name, dot)),
                         z3.Not(z3.And(follow, z3.Not(inserted))),
                         z3.Not(z3.And(z3.Not(no_ignore), ignored)))
        vf, vdir, vl = called(p, r"Walk::visit_file$"), called(p, r"Walk::visit_dir$"), called(p, r"Walk::visit_link$")
        if len(vf) + len(vdir) + len(vl) > 1:
            return z3.BoolVal(False)
        conj = [
            z3.BoolVal(bool(vf)) == z3.And(proceed, tpe == 0),
            z3.BoolVal(bool(vdir)) == z3.And(proceed, tpe == 1),
            z3.BoolVal(bool(vl)) == z3.And(proceed, tpe == 2),
        ]
        for e in vdir + vl:
            conj.append(arg_int(e, 4) == level)
        return z3.And(*conj)
    finish(oblig.check_paths(eng, ve, "visit_entry: hidden / visited / ignore decisions and dispatch by type", entry_table,
                             fns(), key="visit_entry:table"), "entry")

    # ---- visit_file ------------------------------------------------------------------
    vfp = eng.run(W("visit_file"))

    def file_table(p):
        m = retbool(p, r"PathSelector::matches_full_path$", "free_matches_full")
        cons = [e for e in p.events if e.kind == "call" and re.search(r"Fn(Once|Mut)?>::call", e.callee)]
        return z3.BoolVal(bool(cons)) == m
    finish(oblig.check_paths(eng, vfp, "visit_file: consumer called iff the full path matches", file_table, fns(),
                             key="visit_file:table"), "file")

    # ---- visit_link ------------------------------------------------------------------
    vlp = eng.run(W("visit_link"))

    def link_table(p):
        rl = oblig.first(p.events, r"Walk::resolve_link$")
        vf, vp = called(p, r"Walk::visit_file$"), called(p, r"Walk::visit_path$")
        if rl is None:
            return z3.And(z3.Not(z3.Or(follow, report_l)), z3.BoolVal(not vf and not vp))
        nm = mirsym.sanitize(rl.ret.name)
        ok = z3.BitVec(nm + "#d", 64) == 0
        is_file = z3.BitVec(nm + "@Ok.0.1#d", 64) == 0
        sf = retbool(p, r"Walk::same_fs$", "free_same_fs")
        want_file = z3.And(ok, is_file, report_l)
        want_path = z3.And(ok, z3.Not(want_file), follow, z3.Or(z3.Not(one_fs), sf))
        conj = [z3.Or(follow, report_l), z3.BoolVal(bool(vf)) == want_file, z3.BoolVal(bool(vp)) == want_path,
                z3.BoolVal(len(vf) + len(vp) <= 1)]
        for e in vp:
            conj.append(arg_int(e, 4) == level)
        return z3.And(*conj)
    finish(oblig.check_paths(eng, vlp, "visit_link: report / follow decisions, same level", link_table, fns(),
                             key="visit_link:table"), "link")

    # ---- resolve_link: the target that is walked / recorded as visited is always brought to canonical absolute form -----------
    try:
        finish(resolve_link_obligation(prog), "link")
    except Inconclusive as e:
        from common import Obligation
        o = Obligation("resolve_link", "E2 mirsym/z3")
        o.verdict, o.detail = "inconclusive", str(e)
        rep.add(o)

    # ---- visit_path ------------------------------------------------------------------
    vpp = eng.run(W("visit_path"))

    def path_table(p):
        md = retbool(p, r"PathSelector::matches_dir$", "free_matches_dir")
        fp = called(p, r"Entry::from_path$")
        ve = called(p, r"Walk::visit_entry$")
        if not fp:
            return z3.And(z3.Not(md), z3.BoolVal(not ve))
        nm = mirsym.sanitize(fp[0].ret.name) if isinstance(fp[0].ret, Lazy) else None
        if nm is None or len(ve) > 1:
            return z3.BoolVal(False)
        ok = z3.BitVec(nm + "#d", 64) == 0
        conj = [md, z3.BoolVal(bool(ve)) == ok]
        for v in ve:
            conj.append(arg_int(v, 4) == level)
        return z3.And(*conj)
    finish(oblig.check_paths(eng, vpp, "visit_path: pruned only by matches_dir; entry visited at the same level", path_table,
                             fns(), key="visit_path:table"), "path")

    # ---- run: roots start at level 0; skipped only if dir && depth == 0 or stat fails --
    runf = W("run")
    rclos = prog.closures_of(runf)
    if not rclos:
        raise Inconclusive("closures of Walk::run not found")
    scope_clo = rclos[0]
    eng0 = oblig.engine(prog, unroll=0)
    rp = eng0.run(scope_clo)
    eng.encoded.update(eng0.encoded)
    root_seen = [0]

    def root_table(p):
        md = oblig.first(p.events, r"(^|::)metadata$")
        if md is None:
            return None
        sp = called(p, r"Scope::spawn$")
        nm = mirsym.sanitize(md.ret.name)
        ok = z3.BitVec(nm + "#d", 64) == 0
        isdir = retbool(p, r"Metadata::is_dir$", "free_is_dir")
        dvars = [v for c in p.pc for v in _vars(c) if str(v).endswith(".depth")]
        dsym = dvars[0] if dvars else z3.BitVec("free_depth", 64)
        want = z3.And(ok, z3.Not(z3.And(isdir, dsym == 0)))
        conj = [z3.BoolVal(bool(sp)) == want]
        for e in sp[:1]:
            clo = e.args[1]
            sub, qs = oblig.run_closure(prog, clo, p, eng=eng)
            for q in qs:
                v = called(q, r"Walk::visit_path$")
                if len(v) != 1:
                    return z3.BoolVal(False)
                root_seen[0] += 1
                conj.append(arg_int(v[0], 4) == 0)
        return z3.And(*conj)
    finish(oblig.check_paths(eng0, rp, "run: every stat-able root is visited at level 0 unless it is a directory and depth == 0",
                             root_table, fns(), key="run:roots", allow=("return", "panic", "diverge", "bound")), "root")

    # ---- size filter: scan_files -> consumer closure -> filter closure, composed -----------------
    try:
        sf = prog.find(r"^(group::)?scan_files$")
        e0 = oblig.engine(prog, unroll=0)
        sp = e0.run(sf)
        eng.encoded.update(e0.encoded)
        conj, nfilter = [], 0
        for p in sp:
            if p.status not in ("return", "bound"):
                raise Inconclusive("scan_files path ended with %s: %s" % (p.status, p.note))
            wr = called(p, r"Walk::run$")
            if len(wr) != 1:
                raise Inconclusive("scan_files: %d calls of Walk::run on a path" % len(wr))
            consumer = [a for a in wr[0].args if isinstance(a, Agg) and "closure" in a.ty]
            if len(consumer) != 1:
                raise Inconclusive("consumer closure of Walk::run not identified")
            # options as configured: min_size, max_size.unwrap_or(MAX)
            MN = U64("ctx*.config*.min_size.0")
            has_max = z3.BitVec("ctx*.config*.max_size#d", 64) == 1
            MX = z3.If(has_max, U64("ctx*.config*.max_size@Some.0.0"), z3.BitVecVal(2**64 - 1, 64))
            _, cps = oblig.run_closure(prog, consumer[0], p, eng=eng, unroll=0)
            for q in cps:
                fl = called(q, r"::filter$")
                if not fl:
                    continue
                fclo = [a for a in fl[0].args if isinstance(a, Agg) and "closure" in a.ty]
                if len(fclo) != 1:
                    raise Inconclusive("filter closure not identified")
                _, fps = oblig.run_closure(prog, fclo[0], q, eng=eng, unroll=0)
                for r in fps:
                    if not isinstance(r.result, Bool):
                        raise Inconclusive("size filter path without boolean result (%s %s)" % (r.status, r.note))
                    lens = [v for v in _vars(r.result.t) + [v for c in r.pc for v in _vars(c)] if str(v).endswith(".len.0")]
                    if not lens:
                        raise Inconclusive("file length symbol not found in the size filter")
                    L = lens[0]
                    nfilter += 1
                    conj.append(z3.Implies(z3.And(*r.pc) if r.pc else z3.BoolVal(True),
                                           r.result.t == z3.And(z3.UGE(L, MN), z3.ULE(L, MX))))
        if not nfilter:
            raise Inconclusive("no size filter reached from scan_files")
        o = oblig.valid(eng, "scan_files: a file is kept iff min <= len <= max.unwrap_or(MAX) (inclusive, unsigned)",
                        z3.And(*conj), fns(), key="scan_files:size-filter")
        o.stats["paths"] = nfilter
        o.witness = "%d filter paths composed from scan_files through the Walk::run consumer" % nfilter
        finish(o, "size")
    except Inconclusive as e:
        from common import Obligation
        o = Obligation("scan_files: size filter", "E2 mirsym/z3")
        o.verdict, o.detail = "inconclusive", str(e)
        rep.add(o)

    rep.extra["closures_composed"] = {"spawn_in_visit_dir": spawn_checked[0], "root_spawn": root_seen[0]}
    # overlapping or repeated roots do not duplicate files: same-path collapsing is unconditional (shared with C03)
    try:
        from obligations import dedup_wiring
        oblig.install_battery(rep, ctx, ["c03_battery"])
        dedup_wiring.add(rep, prog)
    except Inconclusive as e:
        from common import Obligation
        o = Obligation("same-path collapsing", "E2 mirsym/z3")
        o.verdict, o.detail = "inconclusive", str(e)
        rep.add(o)
    # the visited set (cycle / overlap protection) is keyed by Path::hash128: distinct paths must get distinct keys
    try:
        from obligations import path_kernels
        path_kernels.hash128_obligations(rep, prog, "C09")
    except Inconclusive as e:
        from common import Obligation
        o = Obligation("path hash", "E2 mirsym/z3")
        o.verdict, o.detail = "inconclusive", str(e)
        rep.add(o)
    # --name / --path / --exclude: pattern matching and the anchoring of relative patterns at the base directory (shared with C16)
    try:
        from obligations import C16_glob
        C16_glob.add(rep, ctx)
    except Inconclusive as e:
        from common import Obligation
        o = Obligation("patterns and selector", "z3 regex equivalence")
        o.verdict, o.detail = "inconclusive", str(e)
        rep.add(o)
    try:
        selector_base_obligation(rep, ctx)
    except Inconclusive as e:
        from common import Obligation
        o = Obligation("selector base", "E2 mirsym/z3")
        o.verdict, o.detail = "inconclusive", str(e)
        rep.add(o)
    # every selection option of `group` can be used: definition and access types of the clap options agree
    from obligations import cli_types
    cli_types.add(rep, ctx, ctx.lib, r"^GroupConfig$")
    return rep


def _vars(t):
    out, seen, stack = [], set(), [t]
    while stack:
        x = stack.pop()
        if x.get_id() in seen:
            continue
        seen.add(x.get_id())
        if z3.is_const(x) and x.decl().kind() == z3.Z3_OP_UNINTERPRETED:
            out.append(x)
        else:
            stack.extend(x.children())
    return out


# -------------------------------------------------------------------------- native replay

def mval(m, name, default=None):
    for d in m.decls():
        if d.name() == name:
            v = m[d]
            if z3.is_bv_value(v):
                return v.as_long()
            if z3.is_bool(v):
                return z3.is_true(v)
    return default


def replay_walk(o, ctx, scenario):
    """Native confirmation: the real CLI is run on a fixed rich tree for the option set of the model first and
    then for all other combinations (replay/walk_diff.py); the listing is compared with a reference walker
    written from the documentation.  No deviation => the counterexample is not reported (exit 2)."""
    m = getattr(o, "_model", None)
    pref = {}
    if m is not None:
        dep = None
        for d in m.decls():
            if d.name().endswith(".depth") and z3.is_bv_value(m[d]):
                dep = m[d].as_long()
        pref = {"depth": dep if dep is not None and 0 < dep < 4 else None,
                "hidden": bool(mvalsuffix(m, ".hidden")), "follow": bool(mvalsuffix(m, ".follow_links")),
                "report": bool(mvalsuffix(m, ".report_links")), "no_ignore": bool(mvalsuffix(m, ".no_ignore"))}
    try:
        binary = native.build_binary(ctx.src)
    except Inconclusive as e:
        o.verdict, o.detail = "inconclusive", "replay build failed: %s" % e
        return
    import sys
    from common import VERIF
    if scenario == "size":
        devs = size_replay(binary)
    else:
        r = subprocess.run([sys.executable, os.path.join(VERIF, "replay", "walk_diff.py"), binary, json.dumps([pref])],
                           stdout=subprocess.PIPE, stderr=subprocess.PIPE, timeout=900)
        try:
            devs = json.loads(r.stdout.decode())
        except Exception:
            o.verdict, o.detail = "inconclusive", "replay driver failed: " + r.stderr.decode(errors="replace")[-300:]
            return
    if scenario not in ("depth", "child-level", "root", "size"):
        # a deviation that only shows with --depth is not a confirmation of a depth-independent counterexample
        devs = [x for x in devs if x.get("options", {}).get("depth") is None]
    o.cex["native_replay"] = {"deviations": len(devs), "first": devs[:3]}
    if devs:
        o.stats["traces_validated"] = 1
        o.detail += "; replayed natively: `fclones %s` unexpected=%s missing=%s" % (
            devs[0].get("cmd"), devs[0].get("unexpected", [])[:3], devs[0].get("missing", [])[:3])
    else:
        o.verdict = "inconclusive"
        o.detail = "solver counterexample did not reproduce through the CLI on the replay tree (scenario %s)" % scenario


def mvalsuffix(m, suffix):
    for d in m.decls():
        if d.name().endswith(suffix):
            v = m[d]
            if z3.is_bool(v):
                return z3.is_true(v)
            if z3.is_bv_value(v):
                return v.as_long()
    return None


def size_replay(binary):
    d = tempfile.mkdtemp(prefix="c09size.")
    try:
        root = os.path.join(d, "root")
        os.makedirs(root)
        for n in (9, 10, 11, 20, 21):
            open(os.path.join(root, "s%d.bin" % n), "wb").write(bytes([n]) * n)
        env = dict(os.environ, HOME=d, XDG_CACHE_HOME=os.path.join(d, "cache"))
        r = subprocess.run([binary, "group", "--rf-over", "0", "-f", "json", "--min", "10", "--max", "20", root],
                           stdout=subprocess.PIPE, stderr=subprocess.PIPE, env=env, timeout=60)
        got = set()
        for g in json.loads(r.stdout.decode()).get("groups", []):
            got |= {os.path.basename(f) for f in g["files"]}
        want = {"s10.bin", "s11.bin", "s20.bin"}
        if got != want:
            return [{"cmd": "group --rf-over 0 --min 10 --max 20", "unexpected": sorted(got - want), "missing": sorted(want - got)}]
        return []
    finally:
        shutil.rmtree(d, ignore_errors=True)


def selector_base_obligation(rep, ctx):
    """GroupCtx::new: relative --path / --exclude patterns are anchored at the process's working directory - `--base-dir` is documented
    as the base "when resolving relative input paths" only.  E2: the directory handed to GroupConfig::path_selector derives from
    std::env::current_dir() (through Path::from / unwrap_or_default), not from the configuration.  Replay: the real binary run with
    --base-dir pointing elsewhere and a relative --path / --exclude pattern."""
    import optsum
    import summaries
    from common import Obligation, scratch_root
    prog = ctx.lib
    f = prog.method("GroupCtx", "new")
    eng = oblig.engine(prog, unroll=0, inline=None, extra=dict(optsum.SUMMARIES))
    ps = eng.run(f)

    def prop(p):
        sel = called(p, r"GroupConfig::path_selector$")
        if not sel:
            return None
        st = mirsym.State()
        st.mem, st.pc = p.mem, list(p.pc)
        v = sel[0].args[1]
        for _ in range(8):
            cn = summaries.canon(eng, st, v).strip().lstrip("&").rstrip("*")
            prod = [ev for ev in p.events if ev.kind == "call" and ev.ret is not None
                    and summaries.canon(eng, st, ev.ret).strip().lstrip("&").rstrip("*") in (cn, re.sub(r"@(Ok|Some)\.0$", "", cn))]
            if not prod:
                return z3.BoolVal(False)
            if re.search(r"(^|::)current_dir$", prod[0].callee):
                return z3.BoolVal(True)
            if not prod[0].args or not re.search(r"From(<.*>)?>::from$|Into(<.*>)?>::into$|unwrap_or_default$|unwrap$|clone$|[Dd]eref|as_ref$|to_path_buf$", prod[0].callee):
                return z3.BoolVal(False)
            v = prod[0].args[0]
        return z3.BoolVal(False)
    o = oblig.check_paths(eng, ps, "GroupCtx::new: relative --path / --exclude patterns are anchored at the working directory (current_dir), not at --base-dir",
                          prop, oblig.fnames(eng), key="selector:base-is-cwd", allow=("return", "panic", "diverge"))
    if o.verdict == "violated":
        try:
            binary = native.build_binary(ctx.src)
            d = tempfile.mkdtemp(prefix="c09sel.", dir=scratch_root())
            try:
                for top in ("work", "other"):
                    os.makedirs(os.path.join(d, top, "sub"))
                    for n in ("a", "b"):
                        with open(os.path.join(d, top, "sub", top + "_" + n), "wb") as fh:
                            fh.write(top.encode() * 40)
                env = dict(os.environ, HOME=d)
                devs = []
                for opt, want in ((["--path", "sub/*"], ["work_a", "work_b"]), (["--exclude", "sub/*"], ["other_a", "other_b"])):
                    r = subprocess.run([binary, "group", "-f", "json", "--base-dir", os.path.join(d, "other")] + opt + [os.path.join(d, "work"), os.path.join(d, "other")],
                                       cwd=os.path.join(d, "work"), stdout=subprocess.PIPE, stderr=subprocess.PIPE, env=env, timeout=60)
                    try:
                        got = sorted(os.path.basename(x) for g in json.loads(r.stdout.decode(errors="replace")).get("groups", []) for x in g["files"])
                    except Exception:   # noqa
                        got = ["<no report>"]
                    if got != want:
                        devs.append({"options": opt + ["--base-dir", "../other"], "cwd": "work", "reported": got, "documented": want})
                if devs:
                    o.stats["traces_validated"] = 1
                    o.cex = dict(o.cex or {}, native=devs)
                    o.detail += "; replayed natively: %s" % json.dumps(devs[0])
                else:
                    o.detail += "; native run with --base-dir elsewhere selects the documented files"
            finally:
                shutil.rmtree(d, ignore_errors=True)
        except Inconclusive as ex:
            o.detail += "; native build failed: %s" % str(ex)[:100]
    rep.add(o)
