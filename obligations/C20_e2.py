"""C20, E2 part: what 'asking for the lock' means.

maybe_lock(path, lock): lock => FileLock::new(path) is called on that very path and every error except Unsupported is returned;
FileLock::new: the file is opened for writing without creating it, then fcntl_lock is applied to the opened file; Ok only if
both succeeded; fcntl_lock: one non-blocking F_SETLK request for a write lock (F_WRLCK) from offset 0 (SEEK_SET) with length 0,
i.e. the whole file including everything beyond its current end; an error of fcntl is returned.
A counterexample is confirmed natively with replay/c20_lock.py (a helper process holds whole-file and byte-range locks)."""
import os
import re
import subprocess
import sys

import z3

import mirsym
import oblig
import optsum
import summaries
from common import Inconclusive, Obligation, VERIF, copy_repo, scratch_root
from mirsym import Agg, Bool, EnumV, Int, Lazy, Ref

F_WRLCK, SEEK_SET = 1, 0


def s_zeroed(e, st, callee, args, dty):
    if "flock" in (dty or ""):
        tys = ["i16", "i16", "i64", "i64", "i32"]
        return Agg("libc::flock", {i: Int(z3.BitVecVal(0, int(t[1:])), t) for i, t in enumerate(tys)})
    return NotImplemented


def called(p, pat):
    return [ev for ev in p.events if ev.kind == "call" and re.search(pat, ev.callee)]


def add(rep, ctx=None):
    ctx = ctx or oblig.Ctx()
    prog = ctx.lib
    ex = dict(optsum.SUMMARIES)
    ex[r"^(std::mem::|core::mem::)?zeroed$"] = s_zeroed
    inl = oblig.module_inliner(prog, "lock.rs", r"^$")

    # ---- the function of lock.rs that issues the fcntl request (found by what it does, not by its name)
    cands = [g for n, g in prog.fns.items() if "lock.rs" in (getattr(g, "span", "") or n) or re.search(r"(^|::)lock::|FileLock", n)]
    cands = [g for g in cands if re.search(r"fcntl::fcntl", g.text) and re.search(r"F_WRLCK|F_SETLK", g.text) and not re.search(r"F_UNLCK", g.text) and len(g.args) == 1]
    if len(cands) != 1:
        o = Obligation("lock request: one non-blocking F_SETLK write-lock request on the given file covering [0, infinity)", "E2 mirsym/z3")
        o.key = "lock:fcntl_lock"
        if not cands:
            # nothing in lock.rs issues an fcntl write-lock request: fcntl locks of other processes are not honoured (flock(2) locks
            # and fcntl locks do not see each other on Linux)
            o.verdict, o.detail = "violated", "no function of lock.rs issues fcntl(F_SETLK) with F_WRLCK"
            o.cex = {"reason": o.detail}
            confirm(o, ctx)
        else:
            o.verdict, o.detail = "inconclusive", "%d functions of lock.rs issue fcntl write-lock requests" % len(cands)
        rep.add(o)
        return
    f = cands[0]
    lock_fn = re.escape(f.name.split("::")[-1])
    eng = oblig.engine(prog, inline=inl, extra=ex)
    fv = Lazy("file", f.args[0][1])
    ps = eng.run(f, args=[fv])

    def lock_prop(p):
        if p.status != "return":
            return z3.BoolVal(False)
        fc = called(p, r"fcntl::fcntl$")
        if len(fc) != 1:
            return z3.BoolVal(False)
        arg = fc[0].args[1]
        if not (isinstance(arg, Agg) and arg.ty.endswith("F_SETLK")):
            return z3.BoolVal(False)
        st = mirsym.State()
        st.mem, st.pc = p.mem, list(p.pc)
        fl = summaries.deref_val(eng, st, arg.fields[0])
        if not (isinstance(fl, Agg) and len(fl.fields) >= 4 and all(isinstance(fl.fields[i], Int) for i in (2, 3))):
            return z3.BoolVal(False)

        def const_is(v, name, value):
            # the field holds the named libc constant (printed symbolically in the MIR) or its numeric value
            if isinstance(v, Int):
                return v.t == value
            return z3.BoolVal(repr(v).endswith("::%s)" % name) or repr(v).endswith(":%s)" % name))
        fd_ok = any(ev.args and ev.args[0] is fv for ev in called(p, r"as_raw_fd$"))
        err = z3.BitVec(mirsym.sanitize(fc[0].ret.name + "#d"), 64) == 1
        res_err = z3.BoolVal(isinstance(p.result, EnumV) and p.result.variant == "Err")
        return z3.And(const_is(fl.fields[0], "F_WRLCK", F_WRLCK), const_is(fl.fields[1], "SEEK_SET", SEEK_SET), fl.fields[2].t == 0, fl.fields[3].t == 0,
                      z3.BoolVal(fd_ok), res_err == err)
    o1 = oblig.check_paths(eng, ps, "fcntl_lock: one non-blocking F_SETLK write-lock request on the given file covering [0, infinity); an fcntl error is returned",
                           lock_prop, oblig.fnames(eng), key="lock:fcntl_lock")

    # ---- FileLock::new
    f = prog.method("FileLock", "new")
    eng2 = oblig.engine(prog, inline=None, extra=ex)
    pv = Lazy("path", f.args[0][1])
    ps = eng2.run(f, args=[pv])

    def new_prop(p):
        if p.status != "return" or not isinstance(p.result, EnumV):
            return z3.BoolVal(False)
        op = called(p, r"OpenOptions::open$")
        wr = [ev for ev in called(p, r"OpenOptions::write$") if isinstance(ev.args[1], Bool) and z3.is_true(z3.simplify(ev.args[1].t))]
        cr = [ev for ev in called(p, r"OpenOptions::(create|create_new|truncate|append)$") if not (isinstance(ev.args[1], Bool) and z3.is_false(z3.simplify(ev.args[1].t)))]
        lk = called(p, r"FileLock::%s$" % lock_fn)
        tp = called(p, r"Path::to_path_buf$")
        if len(op) != 1 or not wr or cr or not tp or tp[0].args[0] is not pv:
            return z3.BoolVal(False)
        open_ok = z3.BitVec(mirsym.sanitize(op[0].ret.name + "#d"), 64) == 0
        if not lk:
            return z3.And(z3.Not(open_ok), z3.BoolVal(p.result.variant == "Err"))
        if len(lk) != 1 or not isinstance(lk[0].ret, Lazy):
            return z3.BoolVal(False)
        st = mirsym.State()
        st.mem, st.pc = p.mem, list(p.pc)
        on_opened = op[0].ret.name + "@Ok.0" in summaries.canon(eng2, st, lk[0].args[0])
        lock_ok = z3.BitVec(mirsym.sanitize(lk[0].ret.name + "#d"), 64) == 0
        return z3.And(open_ok, z3.BoolVal(on_opened), z3.BoolVal(p.result.variant == "Ok") == lock_ok)
    o2 = oblig.check_paths(eng2, ps, "FileLock::new: the file is opened for writing (never created), the lock is requested on the opened file, Ok iff both succeeded",
                           new_prop, oblig.fnames(eng2), key="lock:new")

    # ---- maybe_lock
    f = prog.method("FsCommand", "maybe_lock")
    eng3 = oblig.engine(prog, inline=None, extra=ex)
    pv3 = Lazy("path", f.args[0][1])
    lockb = Bool(z3.Bool("lock"))
    ps = eng3.run(f, args=[pv3, lockb])

    def ml_prop(p):
        if p.status != "return" or not isinstance(p.result, EnumV):
            return z3.BoolVal(False)
        nw = called(p, r"FileLock::new$")
        if not nw:
            return z3.And(z3.Not(lockb.t), z3.BoolVal(p.result.variant == "Ok"))
        if len(nw) != 1 or nw[0].args[0] is not pv3:
            return z3.BoolVal(False)
        failed = z3.BitVec(mirsym.sanitize(nw[0].ret.name + "#d"), 64) == 1
        kinds = [ev for ev in p.events if ev.kind == "call" and re.search(r"ErrorKind as (std::cmp::)?PartialEq>::eq$", ev.callee) and isinstance(ev.ret, Bool)]
        swallowed = z3.Or(*[ev.ret.t for ev in kinds]) if kinds else z3.BoolVal(False)
        unsupported_only = True
        st = mirsym.State()
        st.mem, st.pc = p.mem, list(p.pc)
        for ev in kinds:
            other = summaries.deref_val(eng3, st, ev.args[1])
            unsupported_only = unsupported_only and ("Unsupported" in repr(other))
        res_err = z3.BoolVal(p.result.variant == "Err")
        return z3.And(lockb.t, z3.BoolVal(bool(unsupported_only)), res_err == z3.And(failed, z3.Not(swallowed)))
    o3 = oblig.check_paths(eng3, ps, "maybe_lock: lock requested => FileLock::new on that path; every error except Unsupported is returned; no lock requested => Ok(None)",
                           ml_prop, oblig.fnames(eng3), key="lock:maybe_lock")
    for o in (o1, o2, o3):
        if o.verdict == "violated":
            confirm(o, ctx)
        rep.add(o)


def confirm(o, ctx):
    """native: replay/c20_lock.py with whole-file and byte-range foreign locks"""
    import json
    try:
        src = copy_repo("lock-replay-src")
        r = subprocess.run([sys.executable, os.path.join(VERIF, "replay", "c20_ranges.py"), src, scratch_root()],
                           stdout=subprocess.PIPE, stderr=subprocess.PIPE, timeout=1800)
        j = json.loads(r.stdout.decode(errors="replace").strip().splitlines()[-1])
    except Exception as ex:   # noqa
        o.verdict, o.detail = "inconclusive", o.detail + "; native lock replay failed: %s" % str(ex)[-200:]
        return
    if j.get("violations"):
        o.stats["traces_validated"] = 1
        o.cex = dict(o.cex or {}, native=j["violations"][:3])
        o.detail += "; replayed natively: %s" % json.dumps(j["violations"][0])[:300]
    else:
        # left unconfirmed: the report's lock battery (exclusive, shared and range locks on a group of five) may still confirm it
        o.detail += "; the native range-lock scenarios (%d) show no processed locked file" % j.get("runs", 0)


def execute_lock_first(rep, ctx):
    """FsCommand::execute, all five variants (also RefLink, which the Kani harnesses do not cover): the lock on the file that is about to
    be changed is requested before any other file-system relevant call, with the caller's should_lock flag, and a refusal is returned as
    Err before anything else happens"""
    prog = ctx.lib
    f = prog.method("FsCommand", "execute")
    variants = prog.src.enums.get("FsCommand") or []
    changed = {"Remove": "file", "SoftLink": "link", "HardLink": "link", "RefLink": "link", "Move": "source"}
    FS = r"FsCommand::(remove|safe_remove|symlink|hardlink|unsafe_rename|unsafe_copy|move_rename|move_copy|mkdirs|check_can_rename)$|(^|::)reflink$|fs::\w+$"
    eng = oblig.engine(prog, inline=None, extra=dict(optsum.SUMMARIES))
    lockb = Bool(z3.Bool("should_lock"))
    verdict, detail, n, nq = "holds", "", 0, 0
    o = Obligation("execute (Remove, SoftLink, HardLink, RefLink, Move): the lock on the changed file is requested first; a refusal ends the command with Err and nothing else is called",
                   "E2 mirsym/z3", [], "5 command variants; wrappers and reflink are leaves")
    o.key = "lock:execute-lock-first"
    for vi, vn in enumerate(variants):
        if vn not in changed:
            verdict, detail = "inconclusive", "unknown FsCommand variant %s" % vn
            break
        cmd = EnumV("FsCommand", vn, vi, {})
        ps = eng.run(f, args=[Ref("CMD", (), False), lockb, Lazy("log", f.args[2][1])], mem={"CMD": Lazy("cmd", "dedupe::FsCommand")}, pre=[z3.BitVec("cmd#d", 64) == vi])
        seen = 0
        for p in ps:
            if p.status in ("abort", "bound"):
                verdict, detail = "inconclusive", "%s: path %s %s" % (vn, p.status, p.note[:100])
                continue
            calls = [ev for ev in p.events if ev.kind == "call"]
            rel = [ev for ev in calls if re.search(FS, ev.callee) or re.search(r"FsCommand::maybe_lock$", ev.callee)]
            if not rel:
                continue
            seen += 1
            n += 1
            st = mirsym.State()
            st.mem, st.pc = p.mem, list(p.pc)
            first = rel[0]
            ok = bool(re.search(r"maybe_lock$", first.callee))
            if ok:
                cn = summaries.canon(eng, st, first.args[0])
                # index of the changed file's field inside the variant, from the enum definition in the source
                src = prog.src.files.get("fclones/src/dedupe.rs", "")
                m = re.search(r"pub enum FsCommand\s*\{(.*?)\n\}", src, re.S)
                idx = None
                if m:
                    vm = re.search(r"\b%s\s*\{(.*?)\}" % vn, m.group(1), re.S)
                    if vm:
                        names = re.findall(r"(\w+)\s*:", re.sub(r"//[^\n]*", "", vm.group(1)))
                        idx = names.index(changed[vn]) if changed[vn] in names else None
                ok = idx is not None and cn.lstrip("&").startswith("cmd@%s.%d.path" % (vn, idx))
                flag_ok = isinstance(first.args[1], Bool) and z3.eq(z3.simplify(first.args[1].t), lockb.t)
                ok = ok and flag_ok
                refused = z3.BitVec(mirsym.sanitize(first.ret.name + "#d"), 64) == 1 if isinstance(first.ret, Lazy) else None
                if refused is not None:
                    nq += 1
                    # on a refused lock nothing else is called and Err is returned
                    if eng.check(*(list(p.pc) + [refused])) == z3.sat and (len(rel) > 1 or not (isinstance(p.result, EnumV) and p.result.variant == "Err")):
                        ok = False
            if not ok:
                nq += 1
                if eng.check(*p.pc) == z3.sat:
                    verdict = "violated"
                    detail = "%s: the first file-system relevant call is %s(%s)" % (vn, first.callee[-30:], [summaries.canon(eng, st, a)[:40] for a in first.args][:2])
                    o.cex = {"variant": vn, "calls": [ev.callee[-40:] for ev in rel][:6]}
                    break
        if verdict == "violated":
            break
        if seen == 0 and verdict == "holds":
            verdict, detail = "inconclusive", "%s: no path with file-system calls explored" % vn
    o.functions = oblig.fnames(eng)
    o.queries = nq
    o.stats = {"paths": n, "states": n, "transitions": eng.stats.get("blocks", 0)}
    o.verdict, o.detail = verdict, detail
    if verdict == "violated":
        confirm(o, ctx)
    rep.add(o)
