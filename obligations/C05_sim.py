"""C05 / C02 / C18 on the MIR: crash- and fault-atomicity of FsCommand::execute by path enumeration + model file system.

The Kani harnesses (E1) decide the same statement on the compiled code, but two kinds of change escape them: a file-system call
that does not go through one of the stubbed wrappers (std::fs called directly - Kani then runs into std's internals and the harness
is inconclusive), and a branch on the metadata captured when the command was built (the harness constructs an all-zero stat buffer).
Here execute is run on the MIR engine with safe_remove / move_rename / move_copy and their closures inlined; the wrappers and every
std::fs function are leaves whose Result is symbolic (so every `?` forks on success / failure), metadata accessors are free
symbols (so both sides of a branch on nlink / len / mode are explored).  Every complete path is a sequence of file-system
operations with their outcomes; it is replayed on a five-slot model file system (L original path, T temporary sibling, K retained
file, B bystander, D move target - absent or pre-existing) with POSIX semantics, and after every operation (= every possible kill
point) the statement of C05 is asserted:
  K, B and a pre-existing D are untouched; the original bytes are at L, or under T, or L is completely replaced by a link to K
  (Move: the bytes are at L or complete at D);
and at the end of a path without a crash: Err with exactly one failed call => L holds the original again and T is gone
(Move: nothing at D that was not there); Ok => L replaced / moved, T gone.
A path whose outcomes contradict the model (e.g. hard_link succeeding onto an existing name) is infeasible and skipped.
Counterexample = command variant, operation sequence with outcomes, kill point; replay = the native fault plans
(replay/fsops_replay.py: LD_PRELOAD fault injection and kills around the real execute, also with a file that has two names)."""
import re

import z3

import mirsym
import oblig
import optsum
import summaries
from common import Inconclusive, Obligation
from mirsym import Agg, Bool, EnumV, Int, Lazy, Ref

ABSENT, ORIG, RET, BY, PRE, LINK_K, SYM_K, PARTIAL = "absent", "orig", "retained", "bystander", "pre-existing", "hardlink->K", "symlink->K", "partial"

INL = (r"dedupe::<impl[^>]*>::(safe_remove|move_rename|move_copy)$|safe_remove::|dedupe::<impl[^>]*>::execute::\{closure"
       r"|dedupe::<impl[^>]*>::(move_rename|move_copy|safe_remove)::\{closure")
WRAP = {"remove": "remove", "unsafe_rename": "rename", "hardlink": "hardlink", "symlink": "symlink", "unsafe_copy": "copy",
        "mkdirs": "mkdirs", "check_can_rename": "check", "remove_file": "remove", "rename": "rename", "hard_link": "hardlink",
        "copy": "copy", "create_dir_all": "mkdirs", "create_dir": "mkdirs", "symlink_file": "symlink", "remove_dir_all": "remove",
        "write": "write", "set_permissions": "noop", "set_len": "write"}
FSCALL = re.compile(r"FsCommand::(remove|unsafe_rename|hardlink|symlink|unsafe_copy|mkdirs|check_can_rename)$"
                    r"|(?:^|::fs::)(remove_file|rename|hard_link|copy|create_dir_all|create_dir|remove_dir_all|write|set_permissions)$"
                    r"|(?:^|::)(symlink|symlink_file)$|File::(create|set_len)$")


def make_cmd(prog, variant, use_rename=None):
    fi = prog.src.variant_index("FsCommand", variant)
    pm = lambda n: Lazy(n, "dedupe::PathAndMetadata")
    if variant == "Remove":
        return EnumV("FsCommand", variant, fi, {0: pm("L")})
    if variant == "Move":
        return EnumV("FsCommand", variant, fi, {0: pm("L"), 1: Lazy("D", "path::Path"), 2: Bool(z3.BoolVal(use_rename))})
    return EnumV("FsCommand", variant, fi, {0: Agg("Arc", {0: pm("K")}), 1: pm("L")})


def slot_of(eng, p, st, v):
    """which model slot a path argument denotes: L / K / D by provenance, T = temp_file(L), P = parent(D)"""
    for _ in range(10):
        cn = summaries.canon(eng, st, v).strip().lstrip("&").rstrip("*")
        m = re.match(r"^(L|K)\b.*path", cn) or re.match(r"^(L|K)$", cn)
        if m:
            return m.group(1)
        if re.match(r"^D\b", cn):
            return "D"
        prod = [ev for ev in p.events if ev.kind == "call" and ev.ret is not None and summaries.canon(eng, st, ev.ret).strip().lstrip("&").rstrip("*") == cn]
        ok = re.fullmatch(r"(.+)@(Ok|Some)\.0", cn)
        if not prod and ok:
            prod = [ev for ev in p.events if ev.kind == "call" and ev.ret is not None and summaries.canon(eng, st, ev.ret).strip() == ok.group(1)]
        if not prod or not prod[0].args:
            return None
        c = prod[0].callee
        if re.search(r"temp_file$", c):
            inner = slot_of(eng, p, st, prod[0].args[0])
            return "T" if inner == "L" else None
        if re.search(r"Path::parent$", c):
            inner = slot_of(eng, p, st, prod[0].args[0])
            return "P" if inner == "D" else None
        if not re.search(r"to_path_buf$|as_ref$|[Dd]eref|borrow$|as_path$|into$|from$|clone$|canonicalize$|unwrap$|as_os_str$", c):
            return None
        v = prod[0].args[0]
    return None


def outcome(eng, p, ev):
    """'ok' / 'err' / 'any' for a call whose Result is symbolic"""
    if not isinstance(ev.ret, Lazy):
        return "any"
    d = z3.BitVec(mirsym.sanitize(ev.ret.name + "#d"), 64)
    can_ok = eng.check(*(list(p.pc) + [d == 0])) == z3.sat
    can_err = eng.check(*(list(p.pc) + [d == 1])) == z3.sat
    if can_ok and can_err:
        return "any"
    return "ok" if can_ok else "err"


def apply(fs, op, slots, out):
    """effect of one operation on the model; returns list of successor states (None = outcome infeasible in the model)"""
    fs = dict(fs)
    a = slots[0] if slots else None
    b = slots[1] if len(slots) > 1 else None
    if op == "check":
        exists = fs.get(b) != ABSENT
        return [fs] if (out == "err") == exists else None
    if op in ("mkdirs", "noop"):
        return [fs]
    if out == "err":
        if op == "copy" and b is not None:
            # a failed copy may leave a partially written target (and has truncated an existing one)
            g = dict(fs)
            g[b] = PARTIAL
            return [fs, g] if fs.get(b) == ABSENT else [g, fs]
        return [fs]
    if op == "remove":
        if fs.get(a) == ABSENT:
            return None
        fs[a] = ABSENT
        return [fs]
    if op == "rename":
        if fs.get(a) == ABSENT:
            return None
        fs[b] = fs[a]
        fs[a] = ABSENT
        return [fs]
    if op == "hardlink":
        if fs.get(b) != ABSENT or fs.get(a) == ABSENT:
            return None
        fs[b] = LINK_K if a == "K" else fs[a]
        return [fs]
    if op == "symlink":
        if fs.get(b) != ABSENT:
            return None
        fs[b] = SYM_K if a == "K" else "symlink->" + str(a)
        return [fs]
    if op == "copy":
        if fs.get(a) == ABSENT:
            return None
        fs[b] = fs[a]
        return [fs]
    if op == "write":
        fs[a] = PARTIAL
        return [fs]
    return [fs]


def invariant(fs, variant, dpre):
    if fs["K"] != RET:
        return "the retained file was touched (%s)" % fs["K"]
    if fs["B"] != BY:
        return "a bystander was touched"
    if dpre and fs["D"] != PRE:
        return "the pre-existing move target was altered (%s)" % fs["D"]
    if variant == "Remove":
        return None
    if variant == "Move":
        if fs["L"] == ORIG or fs["D"] == ORIG:
            return None
        return "the moved bytes are neither at the source path nor complete at the target (L=%s, D=%s)" % (fs["L"], fs["D"])
    good = {"HardLink": LINK_K, "SoftLink": SYM_K, "RefLink": LINK_K}[variant]
    if fs["L"] == ORIG or fs["T"] == ORIG or fs["L"] == good:
        return None
    return "the original bytes are neither at the original path, nor under the temporary name, nor completely replaced (L=%s, T=%s)" % (fs["L"], fs["T"])


def final(fs, variant, dpre, result_ok, nfailed):
    if result_ok:
        if variant == "Remove":
            return None if fs["L"] == ABSENT else "Ok returned but the file is still there"
        if variant == "Move":
            return None if fs["L"] == ABSENT and fs["D"] == ORIG else "Ok returned but L=%s, D=%s" % (fs["L"], fs["D"])
        good = {"HardLink": LINK_K, "SoftLink": SYM_K}[variant]
        if fs["L"] != good:
            return "Ok returned but the path is not the link (L=%s)" % fs["L"]
        # a failing removal of the temporary sibling is only warned about (the replacement is complete)
        return None if fs["T"] == ABSENT or nfailed > 0 else "Ok returned but the temporary sibling is left behind"
    if nfailed == 1:
        if fs["L"] != ORIG:
            return "one call failed (no crash) and the original path was not restored (L=%s, T=%s)" % (fs["L"], fs["T"])
        if fs["T"] != ABSENT:
            return "one call failed (no crash) and the temporary sibling is left behind"
        if variant == "Move" and not dpre and fs["D"] == ORIG:
            return None
    return None


def simulate(eng, p, variant, dpre):
    """-> (problem | None, trace)"""
    st = mirsym.State()
    st.mem, st.pc = p.mem, list(p.pc)
    steps = []
    for ev in p.events:
        if ev.kind != "call":
            continue
        m = FSCALL.search(ev.callee)
        if not m:
            continue
        name = [g for g in m.groups() if g][0]
        op = WRAP.get(name, "noop")
        nargs = 2 if op in ("rename", "hardlink", "symlink", "copy", "check") else 1
        slots = [slot_of(eng, p, st, a) for a in ev.args[:nargs]]
        steps.append((op, slots, outcome(eng, p, ev), ev.callee.split("::")[-1]))
    init = {"L": ORIG, "T": ABSENT, "K": RET, "B": BY, "D": PRE if dpre else ABSENT, "P": "dir"}
    result_ok = isinstance(p.result, EnumV) and p.result.variant == "Ok"
    frontier = [(init, [], 0)]
    for op, slots, out, nm in steps:
        if op not in ("mkdirs", "noop") and any(s is None for s in slots):
            return "a file-system operation on a path the model cannot identify: %s(%s)" % (nm, slots), [(nm, slots, out)]
        nxt = []
        for fs, trace, nf in frontier:
            for o in (("ok", "err") if out == "any" else (out,)):
                succ = apply(fs, op, slots, o)
                if succ is None:
                    continue
                for g in succ:
                    tr = trace + [(nm, slots, o)]
                    bad = invariant(g, variant, dpre)
                    if bad:
                        return "after %s: %s" % (" ; ".join("%s(%s)=%s" % (n, ",".join(map(str, s)), r) for n, s, r in tr), bad), tr
                    nxt.append((g, tr, nf + (1 if o == "err" and op != "check" else 0)))
        frontier = nxt
        if not frontier:
            return None, []          # infeasible in the model
    for fs, trace, nf in frontier:
        bad = final(fs, variant, dpre, result_ok, nf)
        if bad:
            return "%s: %s" % (" ; ".join("%s(%s)=%s" % (n, ",".join(map(str, s)), r) for n, s, r in trace), bad), trace
    return None, steps


def add(rep, ctx, replayer=None, variants=None):
    prog = ctx.lib
    f = prog.method("FsCommand", "execute")
    shapes = [("Remove", None), ("SoftLink", None), ("HardLink", None), ("Move", True), ("Move", False)]
    if variants:
        shapes = [s for s in shapes if s[0] in variants]
    for variant, ur in shapes:
        name = variant + ("" if ur is None else ("(rename)" if ur else "(copy)"))
        o = Obligation("execute(%s): on every path of the MIR, replayed on the model file system, every kill point and every single failure leaves the state C05 allows" % name,
                       "E2 mirsym/z3 + model file system", [], "one command; every success/failure outcome of every file-system call; metadata accessors free; target absent and pre-existing")
        o.key = "sim:%s" % name
        try:
            extra = dict(optsum.SUMMARIES)
            extra[r"FsCommand::maybe_lock$"] = lambda e, st, c, a, d: EnumV("Result", "Ok", 0, {0: EnumV("Option", "None", 0, {})})
            extra[r"Option::unwrap$"] = lambda e, st, c, a, d: NotImplemented
            eng = oblig.engine(prog, unroll=2, inline=INL, extra=extra)
            mem = {"cmd": make_cmd(prog, variant, ur)}
            ps = eng.run(f, args=[Ref("cmd", (), False), Bool(z3.BoolVal(False)), None], mem=mem)
        except Inconclusive as ex:
            o.verdict, o.detail = "inconclusive", str(ex)[:300]
            rep.add(o)
            continue
        bad, npaths, nfs, inconc = None, 0, 0, None
        for p in ps:
            if p.status in ("abort", "bound"):
                inconc = "path %s: %s" % (p.status, p.note[:160])
                continue
            if p.status != "return":
                continue
            npaths += 1
            for dpre in ((False, True) if variant == "Move" else (False,)):
                prob, trace = simulate(eng, p, variant, dpre)
                nfs += len(trace)
                if prob:
                    bad = {"command": name, "target_pre_existing": dpre, "problem": prob}
                    break
            if bad:
                break
        o.functions = oblig.fnames(eng)
        o.queries = eng.queries
        o.stats = {"paths": npaths, "states": nfs, "transitions": nfs}
        if bad:
            o.verdict = "violated"
            o.cex = bad
            o.detail = bad["problem"][:400]
            if replayer:
                replayer(o, variant)
        elif inconc:
            o.verdict, o.detail = "inconclusive", inconc
        elif npaths == 0 or nfs == 0:
            o.verdict, o.detail = "inconclusive", "vacuous: %d paths, %d file-system operations" % (npaths, nfs)
        else:
            o.verdict = "holds"
            o.witness = "%d paths, %d file-system operations replayed on the model" % (npaths, nfs)
        rep.add(o)
