"""C02 - deduplication never destroys the last copy of any content (kernel level).

E2: dedupe::partition (list model, shared with C04/C08): max(1, n) sub-groups retained, nothing lost or duplicated,
sub-groups atomic, protected sub-groups never dropped; PartitionedFileGroup::dedupe_script (list model): every command
removes / replaces a dropped path only, every link points at the first retained file, no retained file => panic, nothing
to drop => no command.  E1 (Kani): executing one command touches only the dropped path, its temp sibling and - for move -
a target that did not exist (model file system, shared with C05/C18).  Report round trip: C10."""
import re

import z3

import listsum
import mirsym
import oblig
import summaries
from common import Inconclusive, Obligation, Report, tier
from mirsym import Agg, Bool, EnumV, Int, Lazy, ListV, Ref
from obligations import part_common

OPS = ["Remove", "SymbolicLink", "HardLink", "RefLink", "Move"]


def script_obligation(rep, prog):
    import optsum
    from obligations import dedupe_part
    extra = dict(optsum.SUMMARIES)
    extra.update(listsum.LIST)
    extra[r"are_on_same_mount$"] = summaries.pure("same_mount")
    extra[r"move_target$"] = summaries.pure("move_target")
    extra[r"^(std::path::)?Path::is_symlink$"] = summaries.pure("is_symlink")
    extra[r"^(path::)?Path::to_path_buf$"] = summaries.pure("pathbuf")
    eng = oblig.engine(prog, unroll=4, extra=extra, inline=dedupe_part.dedupe_inliner(prog))
    ds = prog.method("PartitionedFileGroup", "dedupe_script")
    fi = prog.src.field_index
    bad, seen = [], 0
    for op in OPS:
        idx = prog.src.variant_index("DedupeOp", op)
        for nk in (0, 1, 2):
            for nd in (0, 1, 2):
                keep = [Lazy("k%d" % i, "dedupe::PathAndMetadata") for i in range(nk)]
                drop = [Lazy("d%d" % i, "dedupe::PathAndMetadata") for i in range(nd)]
                pg = Agg("PartitionedFileGroup", {fi("PartitionedFileGroup", "to_keep"): ListV(keep, "Vec"), fi("PartitionedFileGroup", "to_drop"): ListV(drop, "Vec")})
                strat = EnumV("DedupeOp", op, idx, {0: Lazy("target_dir", "Arc<Path>")} if op == "Move" else {})
                mem = {"strat": strat}
                ps = eng.run(ds, args=[pg, Ref("strat", (), False), None], mem=mem)
                for p in ps:
                    seen += 1
                    if p.status in ("abort", "bound"):
                        raise Inconclusive("dedupe_script path %s: %s" % (p.status, p.note[:160]))
                    case = "%s keep=%d drop=%d" % (op, nk, nd)
                    if nd == 0:
                        ok = p.status == "return" and isinstance(p.result, ListV) and not p.result.items
                    elif nk == 0:
                        ok = p.status in ("panic", "diverge")
                    else:
                        ok = p.status == "return" and isinstance(p.result, ListV) and len(p.result.items) == nd
                        if ok:
                            removed = []
                            for c in p.result.items:
                                if not isinstance(c, EnumV):
                                    ok = False
                                    break
                                want_variant = {"Remove": "Remove", "SymbolicLink": "SoftLink", "HardLink": "HardLink", "RefLink": "RefLink", "Move": "Move"}[op]
                                if c.variant != want_variant:
                                    ok = False
                                    break
                                vals = list(c.fields.values())
                                names = [summaries.canon(eng, _st(p), v) for v in vals]
                                st_fields = prog.src.structs  # not used
                                if op == "Remove":
                                    removed.append(names[0])
                                elif op == "Move":
                                    removed.append(names[0])
                                    ok = ok and "move_target" in names[1] and names[0] + ".path" in names[1]
                                else:
                                    # target (first field) is a retained file - the first one that is not a symbolic link (a retained
                                    # link may point to the very file being replaced: `link --soft` would build a cycle) - and link
                                    # is a dropped file
                                    chosen = [j for j in range(nk) if ("k%d" % j) in names[0]]
                                    ok = ok and len(chosen) == 1 and not any(("d%d" % i) in names[0] for i in range(nd))
                                    if ok:
                                        sym = lambda j: z3.Bool(mirsym.sanitize("is_symlink(pathbuf(k%d.path))" % j))
                                        j = chosen[0]
                                        # (the lstat results are free per-path predicates; code that does not look cannot know)
                                        want = z3.And(z3.Or(z3.Not(sym(j)), z3.And(*[sym(t) for t in range(nk)])), *[sym(t) for t in range(j)])
                                        ok = eng.check(*(list(p.pc) + [z3.Not(want)])) == z3.unsat
                                    removed.append(names[1])
                            ok = ok and sorted(removed) == sorted("d%d" % i for i in range(nd))
                    if not ok:
                        bad.append(case + " -> " + (repr(p.result)[:120] if p.result is not None else p.status))
    o = Obligation("dedupe_script: commands act on dropped paths only, links point at the first retained file that is not a symbolic link, no command without a retained file",
                   "E2 mirsym/z3 (list model)", oblig.fnames(eng), "5 operations x |to_keep| 0..2 x |to_drop| 0..2")
    o.key = "dedupe_script"
    o.queries = eng.queries
    o.stats = {"paths": seen, "states": seen, "transitions": seen}
    if bad:
        o.verdict, o.detail = "violated", "; ".join(bad[:3])
        o.cex = {"cases": bad[:8], "native_replay": "term-level obligation (not replayed natively)"}
    else:
        o.verdict = "holds"
        o.witness = "%d paths over 45 configurations" % seen
    rep.add(o)


def run():
    rep = Report(
        "C02", "other",
        "Bounded symbolic execution (mirsym/z3, list model) of dedupe::partition (2-3 files, every sub-group distribution) and of "
        "PartitionedFileGroup::dedupe_script (5 operations, 0-2 retained and 0-2 dropped files): z3 decides that at least "
        "max(1, n) sub-groups (all if fewer) stay out of the drop list, that nothing matching a keep pattern is dropped, that every "
        "generated command removes/replaces a dropped path only and links to the first retained file; Kani/CBMC on "
        "FsCommand::execute over the model file system shows that executing a command never touches the retained file, an "
        "unrelated file or an existing move target.  Report round trip is C10; staleness is C04.",
        assumptions=["stubs of the Kani model file system as in C05 (their bodies are checked on the MIR)"],
        outside=["whole-tree inventory", "rayon scheduling of run_script", "--match-links --symbolic-links (excluded by the property)", "real file systems"])
    ctx = oblig.Ctx()
    prog = ctx.lib
    oblig.install_battery(rep, ctx, ["c02_battery", "c08_battery", "c04_battery", "c06_battery"])
    part_common.add(rep, prog, ["retention-count", "no-loss-no-dup", "atomic-subgroups", "patterns", "stale-filter", "mtime-check", "subgroup-args", "data-retained"], "C02", part_common.make_replayer(ctx))
    # the staleness check itself (what partition's "mtime-check" relies on): result semantics and the instants compared
    try:
        from obligations import C04
        C04.was_modified_obligations(rep, prog)
    except Inconclusive as ex:
        o = Obligation("was_modified", "E2 mirsym/z3")
        o.verdict, o.detail = "inconclusive", str(ex)
        rep.add(o)
    try:
        script_obligation(rep, prog)
    except Inconclusive as ex:
        o = Obligation("dedupe_script", "E2 mirsym/z3")
        o.verdict, o.detail = "inconclusive", str(ex)
        rep.add(o)
    # E1: execution touches only the dropped path / its temp sibling / a fresh move target
    from obligations import e1
    from obligations.C05 import FUNCS, OPS as FSOPS
    src, _ = e1.prepare()
    fn = e1.source_of(src, "dedupe.rs", FUNCS)
    specs = [dict(harness=h, name="execute(%s): retained, unrelated and pre-existing target files are never touched" % op, functions=fn,
                  bounds="one command, every subset of FS calls failing, unwind 2", key="execute:%s:C02" % op) for h, op in FSOPS.items()]
    if tier() == "quick":
        specs = [s for s in specs if s["harness"] in ("fs_move", "fs_hardlink")]
    e1.run_harnesses(rep, "C02", src, specs, jobs=8, timeout=1500 if tier() == "quick" else 3600,
                     replayer=e1.fs_replayer("faults", FSOPS))
    from obligations import C05, C06
    C05.wrappers(rep)
    # "max(1, n) replicas": n and the isolate roots come from the report header - resolved against the header's base directory
    try:
        from obligations import C08
        C08.command_config_obligation(rep, ctx)
    except Inconclusive as ex:
        o = Obligation("get_command_config", "E2 mirsym/z3")
        o.verdict, o.detail = "inconclusive", str(ex)
        rep.add(o)
    # the retained path may be a symbolic link: what a hard link to it refers to
    try:
        from obligations import C05_e2
        C05_e2.hardlink_source(rep, ctx)
    except Inconclusive as ex:
        o = Obligation("hard-link source", "E2 mirsym/z3")
        o.verdict, o.detail = "inconclusive", str(ex)
        rep.add(o)
    # "max(1, n) replicas": a replica is a sub-group - the sub-grouping itself (hard-link sets, isolate roots) is part of the claim
    try:
        C06.sub_group_obligations(rep, ctx)
    except Inconclusive as ex:
        o = Obligation("sub-grouping", "E2 mirsym/z3")
        o.verdict, o.detail = "inconclusive", str(ex)
        rep.add(o)
    return rep


def _st(p):
    st = mirsym.State()
    st.mem = p.mem
    st.pc = list(p.pc)
    return st
