"""C01 - reported groups contain only byte-identical files (kernel level).

O1 (E1, Kani): hasher::scan / stream_hash feed every byte of min(len, stream) to the hasher, once, in order.
O2 (E2): stage coverage arithmetic - prefix stage hashes whole files when len <= prefix_len, the content stage
         hashes [0, len) for every group it admits, both use the same prefix_len term, skip_content_hash is the
         only bypass; the suffix hash is XOR-combined.
O3 (E2): hash_transformed hashes the complete transform output (len argument of stream_hash).
O5 (E2): regrouping key = (file length, new hash); one hash per id-group; all members of an id-group get the same key
         (hash closure of every stage composed into rehash's task closure)."""
import os
import re
import shutil
import subprocess
import tempfile

import z3

import mirsym
import native
import oblig
from common import Inconclusive, Obligation, Report, say, tier
from mirsym import Agg, Bool, EnumV, Int, Lazy, ListV, Ref

INL = r"FileChunk|min_prefix_len|max_prefix_len|::suffix_len$|suffix_threshold|get_device_index|::as_pos$|<impl at fclones/src/file\.rs:\d+:\d+: \d+:\d+>::(sub|add|clone|from)$"


def called(p, pattern):
    return [e for e in p.events if e.kind == "call" and re.search(pattern, e.callee)]


def u64_of(e, st_or_none, v):
    """u64 term of a FileLen / FilePos / integer value"""
    if isinstance(v, Int):
        return v.t
    if isinstance(v, Agg) and 0 in v.fields and isinstance(v.fields[0], Int):
        return v.fields[0].t
    if isinstance(v, Lazy):
        return z3.BitVec(mirsym.sanitize(v.name + ".0"), 64)
    if isinstance(v, Agg) and v.base:
        return z3.BitVec(mirsym.sanitize(v.base + ".0"), 64)
    raise Inconclusive("no u64 in %r" % (v,))


def stage(prog, name, eng_holder):
    """run a stage function, return (path, rehash event, engine)"""
    eng = oblig.engine(prog, unroll=0, inline=INL)
    f = prog.find(r"^(group::)?%s$" % name)
    ps = [p for p in eng.run(f) if called(p, r"(^|::)rehash$")]
    if not ps:
        raise Inconclusive("%s: no path calls rehash" % name)
    eng_holder.append(eng)
    return ps, eng


def run_clo(prog, clo, p, eng, args=(), unroll=0, extra=None):
    cf = prog.closure_by_span(clo.ty)
    if cf is None:
        raise Inconclusive("closure %s not in the MIR dump" % clo.ty)
    sub = oblig.engine(prog, unroll=unroll, inline=INL, extra=extra)
    mem = dict(p.mem)
    a0 = clo
    if cf.args and mirsym.is_ref_type(cf.args[0][1]):
        mem["clo:cell"] = clo
        a0 = Ref("clo:cell", (), True)
    qs = sub.run(cf, args=[a0] + list(args) + [None] * 3, pre=list(p.pc), mem=mem)
    eng.encoded.update(sub.encoded)
    eng.queries += sub.queries
    eng.solver_s += sub.solver_s
    return qs


def hash_closure_arg():
    """(&mut FileInfo, FileHash) argument with named symbols"""
    cellv = Lazy("fi", "file::FileInfo")
    return cellv


def prefix_stage_paths(prog, engs):
    """paths of the hash closure of group_by_prefix with a symbolic FileInfo (length fi.len.0, prefix size prefix_len.0)"""
    ps, eng = stage(prog, "group_by_prefix", engs)
    p = ps[0]
    rh = called(p, r"(^|::)rehash$")[0]
    hclo = oblig.closure_value(rh.args[5])
    if hclo is None:
        raise Inconclusive("hash closure of group_by_prefix not identified")
    fi_cell = "argfi"
    mem_p = mirsym.Path.__new__(mirsym.Path)
    mem_p.__dict__.update(p.__dict__)
    mem_p.mem = dict(p.mem)
    mem_p.mem[fi_cell] = Lazy("fi", "file::FileInfo")
    arg = Agg("tuple", {0: Ref(fi_cell, (), True), 1: Lazy("old_hash", "file::FileHash")})
    return eng, run_clo(prog, hclo, mem_p, eng, args=[arg])


def prefix_coverage_obligation(prog, engs, fn):
    eng, qs = prefix_stage_paths(prog, engs)
    P = u64_of(eng, None, Lazy("prefix_len", "FileLen"))
    L = z3.BitVec("fi.len.0", 64)

    def prop(q):
        fc = called(q, r"FileChunk::new$")
        hf = called(q, r"hash_file_or_log_err$")
        if len(fc) != 1 or len(hf) != 1:
            return z3.BoolVal(False)
        pos, ln = u64_of(eng, None, fc[0].args[1]), u64_of(eng, None, fc[0].args[2])
        res_ok = z3.BoolVal(isinstance(q.result, Lazy) and isinstance(hf[0].ret, Lazy) and q.result.name == hf[0].ret.name)
        return z3.And(pos == 0, z3.Implies(z3.ULE(L, P), z3.UGE(ln, L)), res_ok)
    return oblig.check_paths(eng, qs, "prefix stage: chunk starts at 0 and covers the whole file when len <= prefix_len",
                             prop, fn(), key="prefix:coverage")


def prefix_consistency_obligation(prog, engs, fn):
    """two files of the same length are hashed over the same byte range in the prefix stage whatever devices they are on (otherwise
    identical files on an SSD and on an HDD get different prefix hashes and their class is split): the closure's paths are paired,
    every symbol of the second copy except the length and the stage's prefix size is renamed, z3 decides equality of the ranges"""
    eng, qs = prefix_stage_paths(prog, engs)
    L = z3.BitVec("fi.len.0", 64)
    P = z3.BitVec("prefix_len.0", 64)
    items = []
    for q in qs:
        fc = called(q, r"FileChunk::new$")
        if q.status != "return" or len(fc) != 1:
            continue
        items.append((list(q.pc), u64_of(eng, None, fc[0].args[1]), u64_of(eng, None, fc[0].args[2])))
    o = Obligation("prefix stage: files of equal length are hashed over the same byte range, whatever device each is on",
                   "E2 mirsym/z3 (two copies of the hash closure)", fn(), "all 64-bit lengths and prefix sizes, every pair of disk kinds")
    o.key = "prefix:device-independent-range"

    def vars_of(t, acc):
        if z3.is_const(t) and t.decl().kind() == z3.Z3_OP_UNINTERPRETED:
            acc[str(t)] = t
        for c in t.children():
            vars_of(c, acc)
    bad = None
    for i, (pc1, pos1, len1) in enumerate(items):
        for pc2, pos2, len2 in items:
            acc = {}
            for t in pc2 + [pos2, len2]:
                vars_of(t, acc)
            sub = [(v, z3.Const(n + "__2", v.sort())) for n, v in acc.items() if n not in ("fi.len.0", "prefix_len.0")]
            r = lambda t: z3.substitute(t, *sub) if sub else t
            s = z3.Solver()
            s.add(*pc1)
            s.add(*[r(c) for c in pc2])
            s.add(z3.Or(pos1 != r(pos2), len1 != r(len2)))
            o.queries += 1
            if s.check() == z3.sat:
                m = s.model()
                bad = {"len": m.eval(L, model_completion=True).as_long(), "prefix_len": m.eval(P, model_completion=True).as_long(),
                       "range_1": [m.eval(pos1, model_completion=True).as_long(), m.eval(len1, model_completion=True).as_long()],
                       "range_2": [m.eval(r(pos2), model_completion=True).as_long(), m.eval(r(len2), model_completion=True).as_long()],
                       "other_symbols": {str(d): str(m[d]) for d in m.decls() if "disk_kind" in str(d)}}
                break
        if bad:
            break
    o.stats = {"paths": len(items), "states": len(items), "transitions": o.queries}
    if not items:
        o.verdict, o.detail = "inconclusive", "vacuous: no path of the hash closure builds a chunk"
    elif bad:
        o.verdict = "violated"
        o.cex = bad
        o.detail = "two files of %d bytes (prefix size %d) are hashed over [%d, +%d) and [%d, +%d): %s" % (
            bad["len"], bad["prefix_len"], bad["range_1"][0], bad["range_1"][1], bad["range_2"][0], bad["range_2"][1], bad["other_symbols"])
    else:
        o.verdict = "holds"
        o.witness = "%d x %d path pairs" % (len(items), len(items))
    return o


def run():
    rep = Report(
        "C01", "other",
        "Kernel-level decision of C01: (E1) Kani/CBMC on hasher::scan+stream_hash with a model reader (every byte of "
        "min(len, stream) is hashed once, in order; read errors give no hash); (E2) bounded symbolic execution of the MIR of "
        "the stage functions, their rehash closures (composed by role: pre-filter, post-filter, hash function), "
        "rehash's key and task closures, group_files' wiring and FileHasher::hash_transformed; z3 decides for all 64-bit "
        "lengths / prefix sizes / disk kinds that every file of an admitted group is hashed over all of its bytes "
        "(or of its transform output) in the stage that produces the final key, that the key contains the length, and "
        "that all paths of one inode get the same key.  Composition to the end-to-end statement is argued in DESIGN.md.",
        assumptions=["hash functions are injective on the data hashed (collision freedom of 128-bit+ hashes)",
                     "members of one id-group (same device+inode) have the same length before the stage",
                     "environment calls (hash_file_or_log_err, hash_transformed_or_log_err, DiskDevices index, progress) are free symbols"],
        outside=["thread-pool / channel plumbing of rehash", "DiskDevices detection", "Transform::run (child process)",
                 "the walk (C09)", "cache (C12)"])
    _CTX["rep"] = rep
    ctx = oblig.Ctx()
    _CTX["src"] = ctx.src
    prog = ctx.lib
    engs = []
    fn = lambda: sorted({x for e in engs for x in oblig.fnames(e)})

    def guarded(name, body):
        try:
            body()
        except Inconclusive as e:
            o = Obligation(name, "E2 mirsym/z3")
            o.verdict, o.detail = "inconclusive", str(e)
            rep.add(o)

    # ------------------------------------------------------------------ O2a prefix stage
    def o2a():
        finish(prefix_coverage_obligation(prog, engs, fn), "prefix")
        # post filter is the permissive filter (C03) - recorded as wiring fact
    guarded("prefix stage", o2a)

    # ------------------------------------------------------------------ O2b content stage
    content_info = {}

    def o2b():
        ps, eng = stage(prog, "group_by_contents", engs)
        p = ps[0]
        rh = called(p, r"(^|::)rehash$")[0]
        pre, post, hclo = oblig.closure_value(rh.args[1]), oblig.closure_value(rh.args[2]), oblig.closure_value(rh.args[5])
        if pre is None or hclo is None or post is None:
            raise Inconclusive("closures of group_by_contents not identified")
        M = z3.BitVec("min_file_len.0", 64)
        # pre-filter: admits every group with >1 distinct inode and file_len >= min_file_len
        qs = run_clo(prog, pre, p, eng)
        GL = z3.BitVec("g*.file_len.0", 64)

        def pre_prop(q):
            if not isinstance(q.result, Bool):
                return z3.BoolVal(False)
            uc = called(q, r"unique_count$")
            multi = z3.UGT(uc[0].ret.t, 1) if uc and isinstance(uc[0].ret, Int) else z3.Bool("free_unique_gt1")
            return q.result.t == z3.And(multi, z3.UGE(GL, M))
        finish(oblig.check_paths(eng, qs, "content stage pre-filter == (distinct inodes > 1 && file_len >= prefix_len)",
                                 pre_prop, fn(), key="contents:pre-filter"), "contents")
        # hash closure: exactly [0, fi.len)
        mem_p = mirsym.Path.__new__(mirsym.Path)
        mem_p.__dict__.update(p.__dict__)
        mem_p.mem = dict(p.mem)
        mem_p.mem["argfi"] = Lazy("fi", "file::FileInfo")
        arg = Agg("tuple", {0: Ref("argfi", (), True), 1: Lazy("old_hash", "file::FileHash")})
        qs = run_clo(prog, hclo, mem_p, eng, args=[arg])
        L = z3.BitVec("fi.len.0", 64)

        def prop(q):
            fc = called(q, r"FileChunk::new$")
            hf = called(q, r"hash_file_or_log_err$")
            if len(fc) != 1 or len(hf) != 1:
                return z3.BoolVal(False)
            pos, ln = u64_of(eng, None, fc[0].args[1]), u64_of(eng, None, fc[0].args[2])
            res_ok = z3.BoolVal(isinstance(q.result, Lazy) and isinstance(hf[0].ret, Lazy) and q.result.name == hf[0].ret.name)
            return z3.And(pos == 0, ln == L, res_ok)
        finish(oblig.check_paths(eng, qs, "content stage hashes exactly [0, len) and its hash is the result", prop, fn(),
                                 key="contents:coverage"), "contents")
        # post filter = strict filter
        qs = run_clo(prog, post, p, eng)

        def post_prop(q):
            ms = called(q, r"FileGroup::matches_strictly$")
            return z3.BoolVal(len(ms) == 1 and isinstance(q.result, Bool) and isinstance(ms[0].ret, Bool)
                              and q.result.t.eq(ms[0].ret.t))
        finish(oblig.check_paths(eng, qs, "content stage post-filter is the strict replication filter", post_prop, fn(),
                                 key="contents:post-filter"), "contents")
    guarded("content stage", o2b)

    # ------------------------------------------------------------------ O2c suffix stage
    def o2c():
        ps, eng = stage(prog, "group_by_suffix", engs)
        nchk = 0
        for p in ps[:2]:
            rh = called(p, r"(^|::)rehash$")[0]
            hclo = oblig.closure_value(rh.args[5])
            mem_p = mirsym.Path.__new__(mirsym.Path)
            mem_p.__dict__.update(p.__dict__)
            mem_p.mem = dict(p.mem)
            mem_p.mem["argfi"] = Lazy("fi", "file::FileInfo")
            arg = Agg("tuple", {0: Ref("argfi", (), True), 1: Lazy("old_hash", "file::FileHash")})
            qs = run_clo(prog, hclo, mem_p, eng, args=[arg])
            L = z3.BitVec("fi.len.0", 64)

            def prop(q):
                fc = called(q, r"FileChunk::new$")
                if len(fc) != 1:
                    return None if q.status == "panic" else z3.BoolVal(False)
                pos, ln = u64_of(eng, None, fc[0].args[1]), u64_of(eng, None, fc[0].args[2])
                mp = called(q, r"Option::map$")
                # the new hash is combined with the old one by the map closure (XOR), never used alone
                comb = z3.BoolVal(False)
                if mp:
                    mclo = [a for a in mp[0].args if isinstance(a, Agg) and "closure" in a.ty]
                    if mclo:
                        sub = run_clo(prog, mclo[0], q, eng, args=[Lazy("new_hash", "file::FileHash")])
                        x = [e for s_ in sub for e in s_.events if e.kind == "call" and re.search(r"BitXor.*::bitxor$", e.callee)]
                        names = {getattr(a, "name", None) for e in x for a in e.args}
                        comb = z3.BoolVal(bool(x) and "old_hash" in names and "new_hash" in names)
                return z3.And(pos + ln == L, comb)
            o = oblig.check_paths(eng, qs, "suffix stage: chunk ends at the file end; new hash is XOR-combined with the old one",
                                  prop, fn(), key="suffix:chunk", allow=("return", "panic", "diverge"))
            finish(o, "suffix")
            nchk += 1
            break
    guarded("suffix stage", o2c)

    # ------------------------------------------------------------------ O2d wiring in group_files
    def o2d():
        eng = oblig.engine(prog, unroll=0)
        engs.append(eng)
        gf = prog.find(r"^(group::)?group_files$")
        ps = eng.run(gf)

        def prop(p):
            gp = called(p, r"(^|::)group_by_prefix$")
            if not gp:
                return None
            gc = called(p, r"(^|::)group_by_contents$")
            sk = [v for c in p.pc for v in _vars(c) if str(v).endswith(".skip_content_hash")]
            skip = sk[0] if sk else z3.Bool("free_skip_content_hash")
            if not gc:
                return skip
            same = oblig.same_value(gp[0].args[1], gc[0].args[1])
            # the content stage consumes the suffix stage's output
            gs = called(p, r"(^|::)group_by_suffix$")
            chain = z3.BoolVal(bool(gs) and oblig.same_value(gc[0].args[2], gs[0].ret) is not None and
                               isinstance(gs[0].ret, Lazy) and isinstance(gc[0].args[2], Lazy) and gs[0].ret.name == gc[0].args[2].name)
            return z3.And(z3.Not(skip), same, chain)
        finish(oblig.check_paths(eng, ps, "group_files: prefix and content stage share prefix_len; --skip-content-hash is the only bypass",
                                 prop, fn(), key="group_files:wiring", allow=("return", "panic", "diverge", "bound")), "wiring")
    guarded("group_files wiring", o2d)

    # ------------------------------------------------------------------ O3 transform output hashed completely
    def o3():
        # helpers of hasher.rs are inlined down to the leaves, so a refactoring into helper functions does not hide the call
        LEAF = r"(^|::)(open|stream_hash|evict_page_cache_if_low_mem|format_output_stream)$|HashCache::|FileMetadata::new$|Transform::run$|::warn$"
        import optsum
        eng = oblig.engine(prog, unroll=0, extra=optsum.SUMMARIES,
                           inline=lambda c, t: oblig.defined_in(prog, t, "hasher.rs") and not re.search(LEAF, c) and not re.search(LEAF, t.name))
        engs.append(eng)
        ht = prog.method("FileHasher", "hash_transformed")
        ps = eng.run(ht)

        def prop(p):
            sh = called(p, r"(^|::)stream_hash$")
            if not sh:
                return None
            ln = u64_of(eng, None, sh[0].args[1])
            # hashed = min(len_arg, T) must equal T for every output length T
            return ln == z3.BitVecVal(2 ** 64 - 1, 64)
        o = oblig.check_paths(eng, ps, "hash_transformed: the whole transform output is hashed (no length cap below u64::MAX)",
                              prop, fn(), key="hash_transformed:len-cap", allow=("return", "panic", "diverge", "bound"))
        finish(o, "transform-expand")
    guarded("transform", o3)

    # ------------------------------------------------------------------ O5 regrouping key and per-inode sharing
    def o5():
        eng = oblig.engine(prog, unroll=0)
        engs.append(eng)
        rh = prog.find(r"^(group::)?rehash$")
        kcl = [g for g in prog.closures_of(rh) if "HashedFileInfo" in (g.args[1][1] if len(g.args) > 1 else "") and "FileLen" in g.ret]
        if len(kcl) != 1:
            raise Inconclusive("rehash key closure: %d candidates" % len(kcl))
        ps = eng.run(kcl[0], args=[None, Lazy("f", "HashedFileInfo")])

        def kprop(p):
            r = p.result
            if not isinstance(r, Agg):
                return z3.BoolVal(False)
            key, val = r.fields.get(0), r.fields.get(1)
            if not isinstance(key, Agg):
                return z3.BoolVal(False)
            klen, khash = key.fields.get(0), key.fields.get(1)
            ok = (isinstance(klen, Lazy) and klen.name == "f.file_info.len" and isinstance(khash, Lazy) and khash.name == "f.file_hash"
                  and isinstance(val, Lazy) and val.name == "f.file_info")
            return z3.BoolVal(ok)
        finish(oblig.check_paths(eng, ps, "rehash: regrouping key is (file length, new hash), value is the file", kprop, fn(),
                                 key="rehash:key"), "key")

        # task closure (the closure handed to the thread pool; helpers of group.rs inlined) composed with the hash closure of every stage
        from obligations.C03 import TASK_LEAVES
        task, span, caps = oblig.spawned_task(prog, rh)
        lists = [i for i, (nme, ty) in enumerate(caps) if "Vec<" in ty and "HashedFileInfo" in ty]
        if len(lists) != 1:
            raise Inconclusive("captures of the rehash task closure not identified: %s" % caps)
        names = [("fg" if i == lists[0] else nme) for i, (nme, ty) in enumerate(caps)]
        tinl = oblig.module_inliner(prog, "group.rs", TASK_LEAVES)
        for stg in ("group_by_prefix", "group_by_suffix", "group_by_contents", "group_transformed"):
            sps, seng = stage(prog, stg, engs)
            p = sps[0]
            hclo = oblig.closure_value(called(p, r"(^|::)rehash$")[0].args[5])
            if hclo is None:
                raise Inconclusive("%s: hash closure not identified" % stg)
            items = [Lazy("m0", "HashedFileInfo"), Lazy("m1", "HashedFileInfo")]
            fields = {}
            for i, nme in enumerate(names):
                fields[i] = ListV(items) if nme == "fg" else Lazy("cap_" + nme, "?")
            clo = Agg(span, fields)
            same_len = z3.BitVec("m0.file_info.len.0", 64) == z3.BitVec("m1.file_info.len.0", 64)
            import listsum as _ls
            extra = {r"^<dyn .*Fn.* as (std::ops::)?Fn(Mut|Once)?<.*>>::call(_mut|_once)?$|^<dyn .*Fn.*>::call$": oblig.invoke_closure_summary(prog, hclo),
                     r"^<.* as (std::iter::)?Iterator>::(skip|take)$": _ls.s_iter_skip_take}
            sub = oblig.engine(prog, unroll=6, inline=lambda c, t: bool(re.search(INL, t.name)) or tinl(c, t), extra=extra)
            mem = dict(p.mem)
            qs = sub.run(task, args=[clo], pre=list(p.pc) + [same_len], mem=mem)
            seng.encoded.update(sub.encoded)
            seng.queries += sub.queries

            def tprop(q):
                snd = called(q, r"Sender::send$")
                hc = called(q, r"hash_(file|transformed)_or_log_err$")
                if not snd:
                    return None
                vals = [e.args[1] for e in snd]
                lens, hashes = [], []
                for v in vals:
                    fi = sub.read_proj(None, v, ("field", 1, "file::FileInfo")) if isinstance(v, (Agg, Lazy)) else None
                    hs = sub.read_proj(None, v, ("field", 0, "file::FileHash")) if isinstance(v, (Agg, Lazy)) else None
                    if fi is None:
                        return z3.BoolVal(False)
                    ln = sub.read_proj(None, fi, ("field", prog.src.field_index("FileInfo", "len"), "file::FileLen"))
                    lens.append(u64_of(sub, None, ln))
                    hashes.append(hs)
                conj = []
                for i in range(1, len(vals)):
                    conj.append(lens[i] == lens[0])
                    conj.append(oblig.same_value(hashes[i], hashes[0]))
                return z3.And(*conj) if conj else z3.BoolVal(True)
            o = oblig.check_paths(sub, qs, "%s: all paths of one inode are sent with the same (length, hash) key" % stg, tprop,
                                  fn(), bounds="id-groups of 2 paths, loop unrolled 3", key="rehash:id-group-key:%s" % stg,
                                  allow=("return", "panic", "diverge"))
            finish(o, "hardlink-transform" if stg == "group_transformed" else None)
    guarded("rehash key / id-groups", o5)

    # ------------------------------------------------------------------ O4 cache (the statement holds "with or without the hash cache")
    def o4():
        from obligations import C12
        C12.add_obligations(rep, ctx)
    guarded("hash cache", o4)

    # ------------------------------------------------------------------ O6 transform temp files ($IN copies of different files must not collide)
    def o6():
        from obligations import C07
        C07.add_transform_obligations(rep, ctx)
    guarded("transform temp files", o6)

    # ------------------------------------------------------------------ O1 Kani (stream consumption)
    try:
        from obligations import C01_kani
        C01_kani.add(rep)
    except ImportError:
        pass
    return rep


# ------------------------------------------------------------------------------ replay

_CTX = {}


def finish(o, scenario):
    rep = _CTX["rep"]
    if o.verdict == "violated":
        replay(o, scenario)
    rep.add(o)


def replay(o, scenario):
    """Native confirmation through the CLI."""
    if o.cex is None:
        o.cex = {}
    try:
        binary = native.build_binary(_CTX["src"])
    except Inconclusive as e:
        o.verdict, o.detail = "inconclusive", "replay build failed: %s" % e
        return
    d = tempfile.mkdtemp(prefix="c01replay.")
    try:
        root = os.path.join(d, "root")
        os.makedirs(root)
        env = dict(os.environ, HOME=d, XDG_CACHE_HOME=os.path.join(d, "cache"))
        import json
        if scenario == "transform-expand":
            open(os.path.join(root, "a.txt"), "w").write("x1")
            open(os.path.join(root, "b.txt"), "w").write("x2")
            cmd = [binary, "group", "-f", "json", "--transform", "sed -e s/^/AAAAAAAA/", root]
            r = subprocess.run(cmd, stdout=subprocess.PIPE, stderr=subprocess.PIPE, env=env, timeout=120)
            groups = json.loads(r.stdout.decode()).get("groups", [])
            bad = [g for g in groups if len(g["files"]) > 1]
            o.cex["native_replay"] = {"cmd": "group --transform 'sed -e s/^/AAAAAAAA/' on files 'x1','x2'",
                                      "groups": [[os.path.basename(f) for f in g["files"]] for g in groups]}
            if bad:
                o.stats["traces_validated"] = 1
                o.detail += "; replayed natively: files with different transform output (AAAAAAAAx1 / AAAAAAAAx2) reported as identical"
            else:
                battery_fallback(o, binary)
        elif scenario == "hardlink-transform":
            open(os.path.join(root, "a.txt"), "w").write("hello world")
            os.link(os.path.join(root, "a.txt"), os.path.join(root, "a_link.txt"))
            open(os.path.join(root, "b.txt"), "w").write("hello world")
            cmd = [binary, "group", "-f", "json", "--rf-over", "0", "--transform", "head -c 5", root]
            r = subprocess.run(cmd, stdout=subprocess.PIPE, stderr=subprocess.PIPE, env=env, timeout=120)
            groups = json.loads(r.stdout.decode()).get("groups", [])
            o.cex["native_replay"] = {"cmd": "group --rf-over 0 --transform 'head -c 5' on a.txt, a_link.txt (hard link), b.txt",
                                      "groups": [(g["file_len"], [os.path.basename(f) for f in g["files"]]) for g in groups]}
            if len(groups) != 1:
                o.stats["traces_validated"] = 1
                o.detail += "; replayed natively: one content class split into %d groups %s" % (
                    len(groups), [(g["file_len"], [os.path.basename(f) for f in g["files"]]) for g in groups])
            else:
                battery_fallback(o, binary)
        else:
            import sys
            sys.path.insert(0, os.path.join(os.path.dirname(os.path.dirname(os.path.abspath(__file__))), "replay"))
            import batteries
            devs = batteries.c01_battery(binary)
            o.cex["native_replay"] = devs[:5]
            if devs:
                o.stats["traces_validated"] = 1
                o.detail += "; replayed natively (content battery: byte comparison of every reported group): %s" % devs[:2]
            else:
                o.verdict, o.detail = "inconclusive", "counterexample did not reproduce through the CLI (content battery: sizes around every threshold x configurations, transforms, hard links)"
    finally:
        shutil.rmtree(d, ignore_errors=True)


def battery_fallback(o, binary):
    import sys
    sys.path.insert(0, os.path.join(os.path.dirname(os.path.dirname(os.path.abspath(__file__))), "replay"))
    import batteries
    devs = batteries.c01_battery(binary)
    o.cex["native_battery"] = devs[:5]
    if devs:
        o.stats["traces_validated"] = 1
        o.detail += "; replayed natively (content battery: byte comparison of every reported group): %s" % devs[:2]
    else:
        o.verdict, o.detail = "inconclusive", "counterexample did not reproduce through the CLI (scenario and content battery)"


def size_straddle_replay(binary, root, env):
    """pairs of files differing in one byte at the start / middle / end, sizes straddling 4 KiB, 16 KiB, 64 KiB"""
    import json
    n = 0
    for size in (1, 4095, 4096, 4097, 8192, 16383, 16384, 16385, 65535, 65536, 65537, 70000, 140000):
        for off in sorted({0, size // 2, size - 1, min(4096, size - 1), min(16384, size - 1), max(size - 4097, 0)}):
            base = bytearray(b"\x11" * size)
            a = os.path.join(root, "s%d_o%d_a.bin" % (size, off))
            b = os.path.join(root, "s%d_o%d_b.bin" % (size, off))
            open(a, "wb").write(bytes(base))
            base[off] ^= 0xFF
            open(b, "wb").write(bytes(base))
            n += 1
    bad = []
    for extra in ([], ["--max-prefix-size", "1"], ["--max-suffix-size", "1"], ["--hash-fn", "blake3"]):
        r = subprocess.run([binary, "group", "-f", "json"] + extra + [root], stdout=subprocess.PIPE, stderr=subprocess.PIPE, env=env, timeout=300)
        for g in json.loads(r.stdout.decode()).get("groups", []):
            contents = {open(f, "rb").read() for f in g["files"]}
            if len(contents) > 1:
                bad.append({"options": extra, "files": [os.path.basename(f) for f in g["files"]][:4]})
    return {"pairs": n, "bad": bad}


def _vars(t):
    out, seen, stack = [], set(), [t]
    while stack:
        x = stack.pop()
        if x.get_id() in seen:
            continue
        seen.add(x.get_id())
        if z3.is_const(x) and x.decl().kind() == z3.Z3_OP_UNINTERPRETED:
            out.append(x)
        else:
            stack.extend(x.children())
    return out


def oblig_ctx_src():
    from common import copy_repo
    return copy_repo("native-src")
