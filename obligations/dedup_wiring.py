"""Same-path collapsing is applied to every candidate group, whatever the configuration (C03: no path listed twice; C09: overlapping or
repeated roots do not duplicate files).

E2: group_files calls remove_same_files (resp. deduplicate on the transform branch) on every path that reaches a hashing stage;
remove_same_files applies deduplicate to the files of every group unconditionally - the closure handed to the `update` adapter
calls deduplicate on every path - and filters with the replication filter only.  Replay: c03_battery (repeated / overlapping roots,
also given with --stdin, hard-link sets)."""
import re

import z3

import mirsym
import oblig
import optsum
from common import Inconclusive, Obligation
from mirsym import Agg, Bool, Lazy


def called(p, pat):
    return [ev for ev in p.events if ev.kind == "call" and re.search(pat, ev.callee)]


def add(rep, prog):
    # ---- group_files
    gf = prog.find(r"^(group::)?group_files$")
    eng = oblig.engine(prog, unroll=0, inline=None, extra=dict(optsum.SUMMARIES))
    ps = eng.run(gf)

    def gprop(p):
        st1 = called(p, r"(^|::)group_by_prefix$")
        tr = called(p, r"(^|::)group_transformed$")
        if not st1 and not tr:
            return None
        if st1:
            return z3.BoolVal(len(called(p, r"(^|::)remove_same_files$")) == 1)
        return z3.BoolVal(len(called(p, r"(^|::)deduplicate$")) == 1)
    rep.add(oblig.check_paths(eng, ps, "group_files: repeated path entries are collapsed before any hashing stage, on every path through the pipeline",
                              gprop, oblig.fnames(eng), key="group_files:dedup-always", allow=("return", "panic", "diverge", "bound")))
    # ---- remove_same_files and its closures
    rsf = prog.find(r"^(group::)?remove_same_files$")
    eng2 = oblig.engine(prog, unroll=0, inline=None, extra=dict(optsum.SUMMARIES))
    o = Obligation("remove_same_files: deduplicate is applied to the files of every group, unconditionally", "E2 mirsym/z3", [], "loop-free closures")
    o.key = "remove_same_files:unconditional"
    verdict, detail, n, sites = "holds", "", 0, 0
    ps = eng2.run(rsf)
    upd = [ev for p in ps for ev in called(p, r"ParallelIterator>::update$|Iterator>::(map|for_each|inspect)$|::iter_mut$|::par_iter_mut$")]
    for f in prog.closures_of(rsf):
        args = [Lazy("c%d" % i, t) for i, (nm, t) in enumerate(f.args)]
        qs = eng2.run(f, args=args)
        has = [q for q in qs if called(q, r"(^|::)deduplicate$")]
        if not has:
            continue
        sites += 1
        for q in qs:
            n += 1
            if q.status in ("abort", "bound"):
                verdict, detail = "inconclusive", "closure path %s" % q.status
                continue
            if q.status == "return" and not called(q, r"(^|::)deduplicate$"):
                o.queries += 1
                if eng2.check(*q.pc) == z3.sat:
                    verdict = "violated"
                    detail = "the per-group closure returns without calling deduplicate under %s" % [str(z3.simplify(c))[:80] for c in q.pc][:3]
                    o.cex = {"path_condition": [str(c)[:120] for c in q.pc][:6]}
    direct = [p for p in ps if called(p, r"(^|::)deduplicate$")]
    if verdict == "holds" and sites == 0 and not direct:
        verdict, detail = "violated", "remove_same_files never reaches deduplicate"
    o.functions = oblig.fnames(eng2)
    o.verdict, o.detail = verdict, detail
    o.witness = "%d closure(s) calling deduplicate, %d closure paths" % (sites, n)
    o.stats = {"paths": n + len(ps), "states": n + len(ps), "transitions": eng2.stats.get("blocks", 0)}
    rep.add(o)
