"""C10 - reports round-trip losslessly (text format's own code; command line via C17).

E2 with byte-list strings: ReportWriter::write_as_text is executed symbolically for one group holding a path of symbolic
bytes (token-class shapes as in C17 plus Unicode white space); the bytes of the path line / base-dir line it emits are
fed to the symbolic execution of TextReportIterator::read_paths resp. to the base-dir extraction of
TextReportReader::read_header.  Obligations: the path read back equals the path written; the base dir read back equals
the base dir written; a report cut inside a path line is rejected.  Counterexamples are replayed natively through the
public writer / reader (replay/report_test.rs)."""
import itertools
import json
import multiprocessing
import os
import re
import sys
import time

import z3

import mirsym
import oblig
import strsum
import summaries
from common import Inconclusive, Obligation, Report, VERIF, copy_repo, say, scratch_root, seed, tier
from mirsym import Agg, Bool, EnumV, Int, Lazy, ListV, Ref, Str, Unit
from obligations import C17
from obligations.C17 import B8, build, eq_bytes, model_bytes

INL = (r"^(arg::)?(to_stfu8|from_stfu8|append)$|path::<impl[^>]*>::(to_escaped_string|from_escaped_string)$")
CLASSES = ["INERT", "SP", "TAB", "NL", "CR", "BS", "SQ", "CTRL", "U2", "U3", "HIGH", "SLASH"]
WS2 = [(0xC2, 0x85), (0xC2, 0xA0)]
WS3 = [(0xE1, 0x9A, 0x80), (0xE2, 0x80, 0x80), (0xE2, 0x80, 0xA8), (0xE2, 0x80, 0xAF), (0xE3, 0x80, 0x80)]

_W = {}


def s_to_path_buf(e, st, callee, args, dty):
    v = summaries.deref_val(e, st, args[0])
    if isinstance(v, Agg) and v.ty == "Path":
        return v.fields[0]
    return NotImplemented


def s_path_from(e, st, callee, args, dty):
    s = strsum.as_str(e, st, args[0])
    if s is None:
        return NotImplemented
    return Agg("Path", {0: Str(s.items, "OsString")})


def s_asref(e, st, callee, args, dty):
    return args[0]


def is_ws_alts(al, items, i, conds, reverse=False):
    """Unicode White_Space test for the scalar starting (or ending, if reverse) at position i.
    -> [(conds, nbytes, is_ws python bool)]"""
    out = []
    n = len(items)
    if not reverse:
        for cs, kind, k, cp in strsum.first_char_alts(al, items, i, conds):
            if kind != "char":
                continue
            ws = z3.Or(strsum.inr(z3.Extract(7, 0, cp), 0x09, 0x0D) if k == 1 else z3.BoolVal(False),
                       cp == 0x20, cp == 0x85, cp == 0xA0, cp == 0x1680, z3.And(z3.UGE(cp, 0x2000), z3.ULE(cp, 0x200A)),
                       cp == 0x2028, cp == 0x2029, cp == 0x202F, cp == 0x205F, cp == 0x3000)
            if k == 1:
                ws = z3.Or(strsum.inr(items[i], 0x09, 0x0D), items[i] == B8(0x20))
            for val in (True, False):
                c = ws if val else z3.Not(ws)
                if al.feasible(cs + [c]):
                    out.append((cs + [c], k, val))
        return out
    # reverse: find the start of the last scalar (strings are valid UTF-8)
    for k in (1, 2, 3, 4):
        j = i - k + 1
        if j < 0:
            break
        start_ok = z3.Not(strsum.inr(items[j], 0x80, 0xBF))
        conts = [strsum.inr(items[t], 0x80, 0xBF) for t in range(j + 1, i + 1)]
        cs0 = conds + [start_ok] + conts
        if not al.feasible(cs0):
            continue
        for cs, kind, kk, cp in strsum.first_char_alts(al, items[:i + 1], j, cs0):
            if kind != "char" or kk != k:
                continue
            if k == 1:
                ws = z3.Or(strsum.inr(items[j], 0x09, 0x0D), items[j] == B8(0x20))
            else:
                ws = z3.Or(cp == 0x85, cp == 0xA0, cp == 0x1680, z3.And(z3.UGE(cp, 0x2000), z3.ULE(cp, 0x200A)),
                           cp == 0x2028, cp == 0x2029, cp == 0x202F, cp == 0x205F, cp == 0x3000)
            for val in (True, False):
                c = ws if val else z3.Not(ws)
                if al.feasible(cs + [c]):
                    out.append((cs + [c], k, val))
    return out


def trim_alts(e, st, items, start=True, end=True):
    """str::trim / trim_start / trim_end -> [(cond, items)]"""
    al = strsum.Alts(e, st)
    res = []
    work = [([], 0, len(items), not start, not end)]
    while work:
        conds, a, b, sdone, edone = work.pop()
        if a >= b or (sdone and edone):
            res.append((strsum.and_or_none(conds), list(items[a:b])))
            continue
        if not sdone:
            for cs, k, ws in is_ws_alts(al, items[:b], a, conds):
                if ws:
                    work.append((cs, a + k, b, False, edone))
                else:
                    work.append((cs, a, b, True, edone))
            continue
        for cs, k, ws in is_ws_alts(al, items[a:b], b - a - 1, conds, reverse=True):
            if ws:
                work.append((cs, a, b - k, True, False))
            else:
                work.append((cs, a, b, True, True))
        if len(res) + len(work) > 3000:
            raise Inconclusive("trim forks too much")
    return res


def s_trim(e, st, callee, args, dty):
    s = strsum.as_str(e, st, args[0])
    if s is None:
        return NotImplemented
    m = summaries.meth_name(callee)
    return [(c, Str(it, "str")) for c, it in trim_alts(e, st, list(s.items), start=m in ("trim", "trim_start"), end=m in ("trim", "trim_end"))]


def s_str_is_empty(e, st, callee, args, dty):
    s = strsum.as_str(e, st, args[0])
    if s is None:
        return NotImplemented
    return Bool(z3.BoolVal(len(s.items) == 0))


def s_strip_prefix(e, st, callee, args, dty):
    s = strsum.as_str(e, st, args[0])
    pat = strsum.pattern_bytes(e, st, args[1])
    if s is None or pat is None:
        return NotImplemented
    if len(pat) > len(s.items):
        return EnumV("Option", "None", 0, {})
    m = z3.And(*[s.items[j] == B8(pat[j]) for j in range(len(pat))]) if pat else z3.BoolVal(True)
    return [(m, EnumV("Option", "Some", 1, {0: Str(s.items[len(pat):], "str")})), (z3.Not(m), EnumV("Option", "None", 0, {}))]


def s_ends_with(e, st, callee, args, dty):
    s = strsum.as_str(e, st, args[0])
    pat = strsum.pattern_bytes(e, st, args[1])
    if s is None or pat is None:
        return NotImplemented
    if len(pat) > len(s.items):
        return Bool(z3.BoolVal(False))
    off = len(s.items) - len(pat)
    return Bool(z3.And(*[s.items[off + j] == B8(pat[j]) for j in range(len(pat))]) if pat else z3.BoolVal(True))


def s_trim_end_matches(e, st, callee, args, dty):
    """trim_end_matches with a char / char-array pattern"""
    s = strsum.as_str(e, st, args[0])
    pv = summaries.deref_val(e, st, args[1])
    chars = None
    if isinstance(pv, Int):
        c = strsum.isconst(pv.t)
        chars = [c] if c is not None else None
    elif isinstance(pv, Agg) and pv.ty == "array":
        cs = [strsum.isconst(v.t) for v in pv.fields.values() if isinstance(v, Int)]
        chars = cs if all(c is not None and c < 0x80 for c in cs) else None
    if s is None or not chars or any(c >= 0x80 for c in chars):
        return NotImplemented
    al = strsum.Alts(e, st)
    res, work = [], [([], len(s.items))]
    while work:
        conds, b = work.pop()
        if b == 0:
            res.append((strsum.and_or_none(conds), Str((), "str")))
            continue
        m = z3.Or(*[s.items[b - 1] == B8(c) for c in chars])
        if al.feasible(conds + [m]):
            work.append((conds + [m], b - 1))
        if al.feasible(conds + [z3.Not(m)]):
            res.append((strsum.and_or_none(conds + [z3.Not(m)]), Str(s.items[:b], "str")))
    return res


def s_range_next(e, st, callee, args, dty):
    r = args[0]
    v = summaries.deref_val(e, st, r)
    if not (isinstance(v, Agg) and isinstance(r, Ref)):
        return NotImplemented
    a, b = v.fields.get(0), v.fields.get(1)
    ca = strsum.isconst(a.t) if isinstance(a, Int) else None
    cb = strsum.isconst(b.t) if isinstance(b, Int) else None
    if ca is None or cb is None:
        return NotImplemented
    if ca >= cb:
        return EnumV("Option", "None", 0, {})
    e.store(st, r.cell, r.path, Agg(v.ty, {0: Int(z3.BitVecVal(ca + 1, 64), "usize"), 1: b}))
    return EnumV("Option", "Some", 1, {0: Int(z3.BitVecVal(ca, 64), "usize")})


def extra_summaries(lines_holder):
    def s_read_line(e, st, callee, args, dty):
        """BufRead::read_line(&mut stream, &mut String): appends the next prepared line"""
        buf = args[1]
        cur = strsum.as_str(e, st, buf)
        if not isinstance(buf, Ref) or cur is None:
            return NotImplemented
        key = "lines_pos"
        pos = st.mem.get(key, 0)
        lines = lines_holder["lines"]
        if pos >= len(lines):
            return EnumV("Result", "Ok", 0, {0: Int(z3.BitVecVal(0, 64), "usize")})
        st.mem[key] = pos + 1
        e.store(st, buf.cell, buf.path, Str(tuple(cur.items) + tuple(lines[pos]), "String"))
        return EnumV("Result", "Ok", 0, {0: Int(z3.BitVecVal(len(lines[pos]), 64), "usize")})

    def s_clear(e, st, callee, args, dty):
        r = args[0]
        if isinstance(r, Ref) and strsum.as_str(e, st, r) is not None:
            e.store(st, r.cell, r.path, Str((), "String"))
            return Unit()
        return NotImplemented
    def s_write_fmt(e, st, callee, args, dty):
        """io::Write::write_fmt: the text is rendered at call time and recorded as a `written` event"""
        r = strsum.s_format(e, st, "format", [args[1]], "String")
        st.events.append(mirsym.Event("call", "written", (r,), None, len(st.pc), e.site(st)))
        return EnumV("Result", "Ok", 0, {0: Unit()})
    x = dict(strsum.STR)
    x[r"Write>::write_fmt$"] = s_write_fmt
    x[r"Path::to_path_buf$"] = s_to_path_buf
    x[r"^<.* as (std::convert::)?AsRef(<.*>)?>::as_ref$"] = s_asref
    x[r"^(std::path::)?PathBuf::into_os_string$"] = strsum.s_str_identity
    x[r"^<(path::)?Path as From(<.*>)?>::from$"] = s_path_from
    x[r"^<(std::ops::)?Range<usize> as (std::iter::)?IntoIterator>::into_iter$"] = s_asref
    x[r"(BufRead|BufReader<.*>)(>)?::read_line$|^<.* as (std::io::)?BufRead>::read_line$"] = s_read_line
    x[r"^(std::string::)?String::clear$"] = s_clear
    x[r"^(core::str::|std::str::)?(<impl str>::)?(trim|trim_start|trim_end)$"] = s_trim
    x[r"^(core::str::|std::str::)?(<impl str>::)?is_empty$|^(std::string::)?String::is_empty$"] = s_str_is_empty
    x[r"^(core::str::|std::str::)?(<impl str>::)?strip_prefix$"] = s_strip_prefix
    x[r"^(core::str::|std::str::)?(<impl str>::)?ends_with$"] = s_ends_with
    x[r"^(core::str::|std::str::)?(<impl str>::)?trim_end_matches$"] = s_trim_end_matches
    x[r"^<(std::ops::)?Range<usize> as (std::iter::)?Iterator>::next$"] = s_range_next
    x[r"^(std::vec::)?Vec::with_capacity$"] = lambda e, st, c, a, d: ListV((), "Vec")
    return x


def token10(cls, name):
    if cls == "SLASH":
        return [B8(0x2F)], []
    return C17.token(cls, name)


def build10(shape):
    items, cons = [B8(0x2F), B8(ord("d")), B8(0x2F)], []       # "/d/" + symbolic file name
    for i, cls in enumerate(shape):
        bs, c = token10(cls, "p%d" % i)
        items += bs
        cons += c
    return items, cons


def worker_init(mir_path, srcdir):
    prog = mirsym.Program(open(mir_path).read(), srcdir)
    _W["prog"] = prog
    _W["writer"] = prog.method("ReportWriter", "write_as_text")
    _W["read_paths"] = prog.method("TextReportIterator", "read_paths")
    C17._W.update({"prog": prog})


def render(e, p, fa):
    """bytes of a fmt::Arguments value built on path p"""
    st = mirsym.State()
    st.mem = p.mem
    st.pc = list(p.pc)
    r = strsum.s_format(e, st, "format", [fa], "String")
    if not isinstance(r, Str):
        raise Inconclusive("formatted line not modelled")
    return list(r.items)


def write_lines(shape_items, cons, holder):
    """symbolic run of write_as_text -> (engine, successful path, header line events, path-line bytes)"""
    prog = _W["prog"]
    e = oblig.engine(prog, unroll=3, inline=INL, extra=extra_summaries(holder), solver_timeout_ms=60000)
    path = Agg("Path", {0: Str(shape_items, "OsString")})
    other = Agg("Path", {0: Str([B8(c) for c in b"/o"], "OsString")})
    group = Agg("FileGroup", {0: Lazy("glen", "FileLen"), 1: Lazy("ghash", "FileHash"), 2: ListV([path, other])})
    header = Agg("ReportHeader", {}, base="hdr")
    ps = e.run(_W["writer"], args=[None, None, ListV([group])], pre=cons)
    good = []
    for p in ps:
        wf = [ev for ev in p.events if ev.kind == "call" and ev.callee == "written"]
        if p.status == "return" and isinstance(p.result, EnumV) and p.result.variant == "Ok" and len(wf) >= 3:
            good.append((p, wf))
    if not good:
        raise Inconclusive("write_as_text: no complete path")
    p, wf = good[0]
    lines = []
    for ev in wf[1:]:     # wf[0] is the group header (styled, unknown text)
        if not isinstance(ev.args[0], Str):
            raise Inconclusive("a path line of the report is not modelled")
        lines.append(list(ev.args[0].items))
    return e, p, lines


def check_shape(shape):
    res = {"shape": list(shape), "queries": 0, "paths": 0, "cex": [], "error": None}
    t0 = time.time()
    try:
        items, cons = build10(shape)
        holder = {"lines": []}
        e, p, lines = write_lines(items, cons, holder)
        res["paths"] += 1
        if len(lines) != 2:
            raise Inconclusive("expected 2 path lines, got %d" % len(lines))
        # ---- round trip of the path lines through read_paths(count = 2)
        for variant, lns in (("roundtrip", lines),) + tuple(("cut%d" % c, [lines[0][:len(lines[0]) - c]]) for c in range(1, min(len(lines[0]), 4) + 1)) + \
                (("cut-second", [lines[0], lines[1][:-1]]), ("cut-second2", [lines[0], lines[1][:-2]])):
            holder["lines"] = lns
            e2 = oblig.engine(_W["prog"], unroll=4, inline=INL, extra=extra_summaries(holder), solver_timeout_ms=60000)
            mem = dict(p.mem)
            mem["it"] = Agg("TextReportIterator", {}, base="it0")
            mem["it"] = e2.write_proj(mem["it"], [("field", _W["prog"].src.field_index("TextReportIterator", "line_buf"), "String")], Str((), "String"), None)
            rps = e2.run(_W["read_paths"], args=[Ref("it", (), True), Int(z3.BitVecVal(2, 64), "usize")], pre=list(p.pc), mem=mem)
            for q in rps:
                res["paths"] += 1
                if q.status in ("abort", "bound"):
                    res["error"] = "read_paths path %s: %s" % (q.status, q.note[:200])
                    continue
                if variant == "roundtrip":
                    good = z3.BoolVal(False)
                    if q.status == "return" and isinstance(q.result, EnumV) and q.result.variant == "Ok":
                        lst = q.result.fields.get(0)
                        if isinstance(lst, ListV) and len(lst.items) == 2 and isinstance(lst.items[0], Agg) and isinstance(lst.items[0].fields.get(0), Str):
                            good = eq_bytes(list(lst.items[0].fields[0].items), items)
                    oracle = "path-roundtrip"
                else:
                    # truncated report: must be rejected
                    good = z3.BoolVal(isinstance(q.result, EnumV) and q.result.variant == "Err" or q.status == "panic")
                    oracle = "truncation"
                r = e2.check(*(list(q.pc) + [z3.Not(good)]))
                if r == z3.sat:
                    e2.solver.push(); e2.solver.add(*q.pc); e2.solver.add(z3.Not(good)); e2.solver.check(); m = e2.solver.model(); e2.solver.pop()
                    res["cex"].append({"oracle": oracle, "variant": variant, "input": model_bytes(m, items).hex(),
                                       "detail": "%s -> %s" % (variant, (repr(q.result) if q.result is not None else q.status)[:120])})
            res["queries"] += e2.queries
        res["queries"] += e.queries
    except Inconclusive as ex:
        res["error"] = str(ex)[:300]
    except Exception:  # noqa
        import traceback
        res["error"] = "internal: " + traceback.format_exc()[-500:]
    res["wall"] = round(time.time() - t0, 2)
    return res


def base_dir_shape(shape):
    """header base dir: written by write_as_text, read back by the code of read_header (the capture of `^# Base dir: (.*)`
    on the trimmed line is what reaches the reader's conversion)"""
    res = {"shape": list(shape), "queries": 0, "paths": 0, "cex": [], "error": None}
    try:
        items, cons = build10(shape)
        prog = _W["prog"]
        holder = {"lines": []}
        e = oblig.engine(prog, unroll=1, inline=INL, extra=extra_summaries(holder), solver_timeout_ms=60000)
        hdr = Agg("ReportHeader", {prog.src.field_index("ReportHeader", "base_dir"): Agg("Path", {0: Str(items, "OsString")})}, base="hdr")
        mem = {"hdrcell": hdr}
        ps = e.run(_W["writer"], args=[None, Ref("hdrcell", (), False), ListV([])], pre=cons, mem=mem)
        lines = None
        for p in ps:
            hl = [ev for ev in p.events if ev.kind == "call" and re.search(r"write_header_line$", ev.callee)]
            for ev in hl:
                s = strsum.as_str(e, _st(p), ev.args[1])
                if s is not None and len(s.items) >= 10 and bytes(strsum.isconst(b) or 0 for b in s.items[:10]) == b"Base dir: ":
                    lines = (p, list(s.items))
            if lines:
                break
        if not lines:
            raise Inconclusive("base dir header line not found in write_as_text")
        p, line = lines
        # the reader: TextReportReader::read_extract is executed symbolically up to the regex call; the text handed to
        # `Regex::captures` is what `^# Base dir: (.*)` sees (`.` does not match a line feed); then the conversion in read_header
        full = [B8(c) for c in b"# "] + line + [B8(0x0A)]
        holder["lines"] = [full]
        rx = prog.method("TextReportReader", "read_extract")
        e1 = oblig.engine(prog, unroll=2, inline=INL + r"|report::<impl[^>]*>::read_line$", extra=extra_summaries(holder), solver_timeout_ms=60000)
        mem = dict(p.mem)
        mem["rd"] = Agg("TextReportReader", {}, base="rd0")
        seen = []
        for q in e1.run(rx, args=[Ref("rd", (), True), None, None], pre=list(p.pc), mem=mem):
            cap = [ev for ev in q.events if ev.kind == "call" and re.search(r"Regex::captures$", ev.callee)]
            if not cap:
                continue
            t = strsum.as_str(e1, _st(q), cap[0].args[1])
            if t is None:
                raise Inconclusive("text handed to Regex::captures is not modelled")
            seen.append((list(q.pc), list(t.items)))
        if not seen:
            raise Inconclusive("read_extract: no path reaches Regex::captures")
        conv = reader_base_dir_conversion(prog)
        prefix = b"# Base dir: "
        for pre, text in seen:
            # capture of (.*): up to the first line feed (symbolic bytes: fork)
            al = strsum.Alts(e1, _stpc(pre, p.mem))
            work = [([], len(prefix))]
            caps = []
            body = text[len(prefix):]
            conds0 = []
            for k in range(len(body) + 1):
                nolf = [b != B8(0x0A) for b in body[:k]]
                stop = [body[k] == B8(0x0A)] if k < len(body) else []
                if al.feasible(nolf + stop):
                    caps.append((nolf + stop, body[:k]))
            for cconds, cap in caps:
                e2 = oblig.engine(prog, unroll=2, inline=INL, extra=extra_summaries(holder), solver_timeout_ms=60000)
                for cc, val in conv(e2, pre + cconds, cap):
                    res["paths"] += 1
                    good = eq_bytes(val, items) if val is not None else z3.BoolVal(False)
                    terms = pre + cconds + ([cc] if cc is not None else []) + [z3.Not(good)]
                    r = e2.check(*terms)
                    if r == z3.sat:
                        e2.solver.push(); e2.solver.add(*terms); e2.solver.check(); m = e2.solver.model(); e2.solver.pop()
                        res["cex"].append({"oracle": "base-dir", "input": model_bytes(m, items).hex(), "detail": "base dir read back differently"})
                res["queries"] += e2.queries
        res["queries"] += e.queries
    except Inconclusive as ex:
        res["error"] = str(ex)[:300]
    except Exception:  # noqa
        import traceback
        res["error"] = "internal: " + traceback.format_exc()[-500:]
    return res


def _stpc(pc, mem):
    st = mirsym.State()
    st.mem = mem
    st.pc = list(pc)
    return st


def _st(p):
    st = mirsym.State()
    st.mem = p.mem
    st.pc = list(p.pc)
    return st


def reader_base_dir_conversion(prog):
    """How read_header turns the captured base-dir text into a Path: extracted from the MIR of read_header - the call chain
    applied to the value captured for "base dir".  Returns f(engine, pre, capture bytes) -> [(cond, bytes|None)]"""
    rh = [f for f in prog.by_last.get("read_header", []) if prog.impl_info(f)[1] == "TextReportReader"]
    if len(rh) != 1:
        raise Inconclusive("TextReportReader::read_header not found")
    text = rh[0].text
    # locate the read_extract call for the base dir and what is applied to its result before the header is built
    m = re.search(r'const "base dir"', text)
    if not m:
        raise Inconclusive('the "base dir" header extraction was not found in read_header')
    # every conversion applied anywhere in read_header that decodes an escaped string must belong to the base dir
    # (the command goes through arg::split, paths of groups are read elsewhere)
    decodes = bool(re.search(r"from_escaped_string|from_stfu8", text))
    pf = prog.method("Path", "from_escaped_string") if decodes else None

    def conv(e2, pre, cap):
        if not decodes:
            return [(None, list(cap))]
        mem = {"capcell": Str(cap, "str")}
        out = []
        for q in e2.run(pf, args=[Ref("capcell", (), False)], pre=pre, mem=mem):
            extra = q.pc[len(pre):]
            c = z3.And(*extra) if extra else None
            if isinstance(q.result, EnumV) and q.result.variant == "Ok" and isinstance(q.result.fields.get(0), Agg):
                out.append((c, list(q.result.fields[0].fields[0].items)))
            else:
                out.append((c, None))
        return out
    return conv


def shapes_for_tier():
    sh = [s for n in (1, 2) for s in itertools.product(CLASSES, repeat=n)]
    if tier() == "thorough":
        sh += list(itertools.product(["INERT", "SP", "NL", "BS", "U2", "HIGH", "CR"], repeat=3))
    else:
        sh += list(itertools.product(["INERT", "SP", "NL", "U2"], repeat=3))
    return sh


def run():
    rep = Report(
        "C10", "other",
        "Bounded symbolic execution (byte-list strings) of ReportWriter::write_as_text and TextReportIterator::read_paths / the "
        "base-dir handling of TextReportReader::read_header: a file name built from <= 2 tokens over 12 byte classes (3 over 4; "
        "white space incl. Unicode, control, backslash, quotes, valid multi-byte, arbitrary high bytes) is written, the "
        "emitted line bytes are read back by the real reader code; z3 decides equality for every value in every shape, and "
        "that every cut of the path line (1..4 bytes before its end, or inside the last line) is rejected.  The command line is "
        "covered by C17 (join/split).  Counterexamples are replayed through the real writer/reader natively.",
        assumptions=["stfu8 reference model (validated natively in C17 on every run)", "Path <-> PathBuf conversion is the identity on normalised absolute paths",
                     "the group-header line and JSON (serde_json), header regexes and chrono are outside the encoding"],
        outside=["JSON format (serde_json)", "header regexes / chrono formatting", "CSV and fdupes writers (never read back)",
                 "file names longer than 3 tokens"])
    ctx = oblig.Ctx()
    oblig.install_battery(rep, ctx, ["c10_battery"])
    prog = ctx.lib
    mir_path = os.path.join(scratch_root(), "lib.mir")
    open(mir_path, "w").write("\n\n".join(f.text for f in prog.fns.values()))
    shapes = shapes_for_tier()
    import random
    random.Random(seed()).shuffle(shapes)
    bshapes = [s for n in (1, 2) for s in itertools.product(["INERT", "SP", "NL", "BS", "U2", "HIGH", "TAB", "CTRL"], repeat=n)]
    with multiprocessing.Pool(14, initializer=worker_init, initargs=(mir_path, ctx.srcdir)) as pool:
        results = pool.map(check_shape, shapes, chunksize=2)
        bres = pool.map(base_dir_shape, bshapes, chunksize=2)
    fns = ["%s#%s" % (n, mirsym.text_hash(f.text)) for n, f in (("ReportWriter::write_as_text", prog.method("ReportWriter", "write_as_text")),
                                                              ("TextReportIterator::read_paths", prog.method("TextReportIterator", "read_paths")),
                                                              ("Path::from_escaped_string", prog.method("Path", "from_escaped_string")),
                                                              ("Path::to_escaped_string", prog.method("Path", "to_escaped_string")))]
    native = [None]

    def get_native():
        if native[0] is None:
            sys.path.insert(0, os.path.join(VERIF, "replay"))
            import native_driver
            nsrc = copy_repo("native-src")
            try:
                native[0] = native_driver.NativeDriver(nsrc, scratch_root(), [("report", "report_test.rs", "verif_report")])
            except Exception as ex:  # noqa
                raise Inconclusive("native report driver: %s" % str(ex)[:300])
        return native[0]

    def settle(title, key, oracle, rs, bounds):
        o = Obligation(title, "E2 mirsym/z3 (byte-list strings)", fns, bounds)
        o.queries = sum(r["queries"] for r in rs)
        o.stats = {"shapes": len(rs), "paths": sum(r["paths"] for r in rs)}
        cex = [dict(c, shape=r["shape"]) for r in rs for c in r["cex"] if c["oracle"] == oracle]
        errors = [r for r in rs if r["error"]]
        if not cex and errors:
            o.verdict, o.detail = "inconclusive", "%d shapes not decided, e.g. %s: %s" % (len(errors), errors[0]["shape"], errors[0]["error"][:220])
        elif not cex:
            o.verdict = "holds"
            o.witness = "%d shapes, %d symbolic paths" % (len(rs), o.stats["paths"])
        else:
            try:
                drv = get_native()
            except Inconclusive as ex:
                o.verdict, o.detail = "inconclusive", str(ex)
                rep.add(o)
                return
            confirmed = None
            for c in cex[:12]:
                if oracle == "path-roundtrip":
                    out = drv.run("report::verif_report::verif_report_driver", ["RT " + c["input"]], "rep")[0]
                    if not out.endswith("=> ok:%s,%s" % (c["input"], b"/other/file".hex())):
                        confirmed = (c, out)
                        break
                elif oracle == "truncation":
                    cut = 1 + int(re.sub(r"\D", "", c["variant"]) or "1")
                    outs = drv.run("report::verif_report::verif_report_driver", ["TR %s %d" % (c["input"], k) for k in range(1, 6)], "rep")
                    bad = [x for x in outs if "=> ok:" in x]
                    if bad:
                        confirmed = (c, bad[0])
                        break
                else:
                    out = drv.run("report::verif_report::verif_report_driver", ["BD " + c["input"]], "rep")[0]
                    if not out.endswith("=> ok:" + c["input"]):
                        confirmed = (c, out)
                        break
            if confirmed:
                c, out = confirmed
                o.verdict = "violated"
                o.key = key + ":" + role_of(oracle, c)
                o.cex = {"example": c, "native": out, "more": cex[1:5]}
                o.detail = "%s: e.g. %s (%s); replayed natively: %s" % (role_of(oracle, c), c["input"], c["detail"][:80], out[:160])
                o.stats["traces_validated"] = 1
            else:
                o.verdict, o.detail = "inconclusive", "solver counterexamples did not reproduce natively: %s" % json.dumps(cex[0])[:300]
        rep.add(o)
    nb = "%d shapes, <= 3 tokens" % len(shapes)
    settle("text report: a path read back equals the path written", "report-path", "path-roundtrip", results, nb)
    settle("text report: a report cut inside a path line is rejected", "report-truncation", "truncation", results, nb + ", cuts of 1..4 bytes")
    settle("text report: the base dir read back equals the base dir written", "report-base-dir", "base-dir", bres, "%d shapes" % len(bshapes))
    # JSON format: serde_json is a leaf, but what is handed to it is fclones' code - a path is serialised as the escaped string whose
    # round trip is decided above, and deserialised with the inverse function
    try:
        json_path_obligations(rep, prog)
    except Inconclusive as ex:
        o = Obligation("JSON path strings", "E2 mirsym/z3")
        o.verdict, o.detail = "inconclusive", str(ex)
        rep.add(o)
    # the `# Command:` header line is arg::join of the argument vector, read back with arg::split: the quote/split obligations
    # of C17 are obligations of C10 as well (same encoding, same bounds)
    # reader side beyond the line codec: loop bound of read_paths, format detection of open_report
    from obligations import C10_reader
    C10_reader.add(rep, ctx)
    try:
        rep17 = C17.run()
        for o in rep17.obls:
            o.name = "command line (header): " + o.name
            rep.obls.append(o)
    except Inconclusive as ex:
        o = Obligation("command line (header): quote/split", "E2 mirsym/z3")
        o.verdict, o.detail = "inconclusive", str(ex)
        rep.add(o)
    return rep


def role_of(oracle, c):
    b = bytes.fromhex(c["input"])
    if oracle == "path-roundtrip":
        return "path-with-leading-or-trailing-whitespace" if (b[-1:] in b" \t" or b[3:4] in b" \t" or b[-2:] in (b"\xc2\xa0", b"\xc2\x85") or b[-3:-2] in (b"\xe1", b"\xe2", b"\xe3")) else "path-bytes"
    if oracle == "truncation":
        return "cut-inside-last-path-line"
    return "base-dir-not-decoded-or-trimmed"


def json_path_obligations(rep, prog):
    import optsum
    import summaries
    from mirsym import EnumV, Lazy
    sers = [f for n, f in prog.fns.items() if "path.rs" in n and n.endswith("::serialize")]
    vis = [f for n, f in prog.fns.items() if "path.rs" in n and n.endswith("::visit_str")]
    if len(sers) != 1 or len(vis) != 1:
        raise Inconclusive("Serialize / Visitor impls of Path: %d / %d found" % (len(sers), len(vis)))
    eng = oblig.engine(prog, inline=None, extra=dict(optsum.SUMMARIES))
    f = sers[0]
    a = [Lazy("a%d" % i, t) for i, (n, t) in enumerate(f.args)]
    ps = eng.run(f, args=a)

    def sprop(p):
        if p.status != "return":
            return z3.BoolVal(False)
        st = mirsym.State()
        st.mem, st.pc = p.mem, list(p.pc)
        out = [ev for ev in p.events if ev.kind == "call" and re.search(r"Serializer>::(collect_str|serialize_str)$", ev.callee)]
        esc = [ev for ev in p.events if ev.kind == "call" and re.search(r"Path::to_escaped_string$", ev.callee) and ev.args and ev.args[0] is a[0]]
        if len(out) != 1 or len(esc) != 1 or p.result is not out[0].ret:
            return z3.BoolVal(False)
        # the string handed to the serializer is a view of the escaped string
        v = out[0].args[1]
        for _ in range(4):
            cn = summaries.canon(eng, st, v)
            if cn.lstrip("&") == esc[0].ret.name:
                return z3.BoolVal(True)
            prod = [ev for ev in p.events if ev.kind == "call" and isinstance(ev.ret, Lazy) and ev.ret.name == cn.lstrip("&") and ev.args]
            if not prod or not re.search(r"as_str$|as_ref$|[Dd]eref|borrow$", prod[0].callee):
                break
            v = prod[0].args[0]
        return z3.BoolVal(False)
    rep.add(oblig.check_paths(eng, ps, "JSON: a path is serialised as its escaped string (Path::to_escaped_string), nothing else", sprop, oblig.fnames(eng),
                              key="json:path-serialize"))
    f = vis[0]
    a2 = [Lazy("b%d" % i, t) for i, (n, t) in enumerate(f.args)]
    ps = eng.run(f, args=a2)

    def vprop(p):
        if p.status != "return" or not isinstance(p.result, EnumV):
            return z3.BoolVal(False)
        dec = [ev for ev in p.events if ev.kind == "call" and re.search(r"Path::from_escaped_string$", ev.callee) and ev.args and ev.args[0] is a2[1]]
        if len(dec) != 1 or not isinstance(dec[0].ret, Lazy):
            return z3.BoolVal(False)
        ok = z3.BitVec(mirsym.sanitize(dec[0].ret.name + "#d"), 64) == 0
        payload = p.result.variant != "Ok" or (isinstance(p.result.fields.get(0), Lazy) and p.result.fields[0].name.startswith(dec[0].ret.name + "@Ok"))
        return z3.And(z3.BoolVal(p.result.variant == "Ok") == ok, z3.BoolVal(bool(payload)))
    rep.add(oblig.check_paths(eng, ps, "JSON: a path string is decoded with Path::from_escaped_string; Ok iff decoding succeeded, the decoded path is returned", vprop,
                              oblig.fnames(eng), key="json:path-deserialize"))
