"""C16, matching half: globs match as documented.

The glob -> regex translator of pattern.rs is built from nom parser combinators, which neither Kani nor the MIR engine can
execute symbolically.  The check therefore splits the statement "Pattern::glob(g).matches(p) == documented(g, p) for all p":

 T  translation validation, solver over ALL paths: for every glob text g of a bounded menu (<= 3 tokens quick, <= 4/5
    thorough) the *real* translator is run natively (replay/pattern_test.rs, injected into a scratch copy) and prints the
    regex text that the Pattern hands to the regex crate (anchored and prefix variant).  That text is parsed (regex-crate
    subset) into a z3 regular expression; the documented meaning of g is built as a second z3 regular expression from an
    independent reference parser; z3 decides  exists path. path in L(real) xor path in L(documented)  over unbounded Unicode
    strings.  sat => the witness path is replayed against the real Pattern::matches.
 W  wiring, E2 (mirsym/z3) on the MIR: Regex::new hands exactly its argument and its case flag to regex::RegexBuilder (the
    builder options found here - dot_matches_new_line - parameterise the regex semantics used by T);  Regex::is_match,
    Pattern::matches / matches_prefix / matches_path return the verdict of the regex crate on the anchored / prefix regex of
    the same Pattern for the same string;  Pattern::matches_partially rejects only what Regex::is_partial_match rejects.
    A wiring counterexample is abstract (the regex crate is a leaf); it is confirmed by a native differential run of the real
    Pattern API against the reference matcher on the glob menu x short paths, and reported only if that finds a discrepancy.
"""
import itertools
import multiprocessing
import os
import re
import sys
import time

import z3

import globre
import mirsym
import oblig
from common import Inconclusive, Obligation, VERIF, copy_repo, say, scratch_root, seed, tier
from mirsym import Agg, Bool, EnumV, Int, Lazy, Ref, Str

LITS = ["a", "B", ".", "-", "+", "(", ")", "\u017c", "|", ",", "}", "^", "$", " ", "#", "~", "]"]
WILD = ["?", "*", "**", "/", "[ab]", "[!ab]", "[a-c]", "[.]", "{a,b}", "{a*,/b}", "{a,{b,c}}", "{,a}", "@(a|b)", "?(a|b)", "+(a|b)",
        "*(a|b)", "*(a|bc)", "@(a?|*b)", "+(a|/)", "\\*", "\\?", "\\[", "\\{", "\\\\", "\\a",
        "{a|b,c}", "{a (1),b}", "{(a),b)}", "@(a,b|c)", "+(a}|b)", "?(a,|b)", "\\d", "\\w", "\\s", "\\n", "\\<", "\\\u017c"]
CORE = ["a", ".", "\u017c", "(", "?", "*", "**", "/", "[ab]", "[!ab]", "{a,b}", "@(a|b)", "?(a|b)", "+(a|b)", "*(a|b)", "\\*"]
MINI = ["a", ".", "*", "**", "/", "[!a]", "{a,b}", "*(a|b)"]
CI_TOK = ["a", "B", "\u017c", "\u0179", "*", "[ab]", "[!aB]", "{a,B}", "/", "."]


def hx(s):
    b = s.encode("utf-8")
    return b.hex() if b else "-"


def unhx(h):
    return b"" if h == "-" else bytes.fromhex(h)


def z3_unescape(s):
    return re.sub(r"\\u\{([0-9a-fA-F]+)\}", lambda m: chr(int(m.group(1), 16)), s)


def glob_menu():
    out = []
    seen = set()

    def add(toks, ci):
        t = "".join(toks)
        if (t, ci) not in seen:
            seen.add((t, ci))
            out.append((t, ci))
    full = LITS + WILD
    for n in (1, 2):
        for toks in itertools.product(full, repeat=n):
            add(toks, False)
    for toks in itertools.product(CORE, repeat=3):
        add(toks, False)
    for n in (1, 2, 3):
        for toks in itertools.product(CI_TOK, repeat=n):
            add(toks, True)
    if tier() == "thorough":
        for toks in itertools.product(CORE, repeat=4):
            add(toks, False)
        for toks in itertools.product(MINI, repeat=5):
            add(toks, False)
        for toks in itertools.product(CI_TOK[:7], repeat=4):
            add(toks, True)
    return out


# ------------------------------------------------------------------ python reference matcher (replay side only)

def _py_chr(c, ci):
    vs = globre.case_variants(c) if ci else [c]
    return "[" + "".join(re.escape(v) for v in vs) + "]" if len(vs) > 1 else re.escape(vs[0])


def _py_seq(seq, ci):
    out = []
    for nd in seq:
        k = nd[0]
        if k == "lit":
            out.append(_py_chr(nd[1], ci))
        elif k == "qm":
            out.append("[^/]")
        elif k == "star":
            out.append("[^/]*")
        elif k == "dstar":
            out.append("(?s:.*)")
        elif k == "sep":
            out.append("/")
        elif k == "class":
            body = ""
            for it in nd[2]:
                if isinstance(it, tuple):
                    body += re.escape(it[0]) + "-" + re.escape(it[1])
                    if ci:
                        for o in range(ord(it[0]), ord(it[1]) + 1):
                            body += "".join(re.escape(v) for v in globre.case_variants(chr(o)))
                else:
                    body += "".join(re.escape(v) for v in (globre.case_variants(it) if ci else [it]))
            out.append("[" + ("^" if nd[1] else "") + body + "]")
        elif k == "alt":
            out.append("(?:" + "|".join(_py_seq(s, ci) for s in nd[1]) + ")")
        elif k == "ext":
            out.append("(?:" + "|".join(_py_seq(s, ci) for s in nd[2]) + ")" + {"@": "", "?": "?", "+": "+", "*": "*"}[nd[1]])
    return "".join(out)


def py_matcher(glob, ci):
    return re.compile(_py_seq(globre.parse_glob(glob), ci), re.S)


# ------------------------------------------------------------------ W: wiring by E2

def struct_fields(prog, fname, sname):
    txt = prog.src.files.get("fclones/src/" + fname, "")
    m = re.search(r"pub struct %s\s*\{(.*?)\n\}" % sname, txt, re.S)
    if not m:
        raise Inconclusive("struct %s not found in %s" % (sname, fname))
    names = re.findall(r"^\s*(?:pub(?:\([a-z]+\))?\s+)?(\w+)\s*:", re.sub(r"//[^\n]*", "", m.group(1)), re.M)
    return names


def leaf_inliner(prog):
    """inline everything defined in pattern.rs / regex.rs except the partial-match code (its own obligation, part A)"""
    def inl(callee, target):
        if re.search(r"is_partial_match|get_fixed_prefix", target.name):
            return False
        return oblig.defined_in(prog, target, "pattern.rs") or oblig.defined_in(prog, target, "regex.rs")
    return inl


def ref_fields(r):
    """field indices of the projection of a Ref argument"""
    if not isinstance(r, Ref):
        return None
    return [x[1] for x in r.path if x and x[0] == "field"]


def wiring(rep, prog):
    fns = []
    rx_fields = struct_fields(prog, "regex.rs", "Regex")
    pt_fields = struct_fields(prog, "pattern.rs", "Pattern")
    try:
        i_rx = [i for i, n in enumerate(rx_fields) if n == "regex"][0]
        i_anch = pt_fields.index("anchored_regex")
        i_pref = pt_fields.index("prefix_regex")
    except (IndexError, ValueError):
        raise Inconclusive("Regex.regex / Pattern.anchored_regex / Pattern.prefix_regex fields not found")
    flags = {"dotall": False}

    # ---- W1: Regex::new
    f = prog.method("Regex", "new")
    e = oblig.engine(prog, inline=None)
    ci = Bool(z3.Bool("ci"))
    rein = Lazy("re", "&str")
    ps = e.run(f, args=[rein, ci])
    o = Obligation("Regex::new compiles exactly its argument with exactly its case flag (builder options are collected for the regex semantics)",
                   "E2 mirsym/z3", oblig.fnames(e), "loop-free; get_fixed_prefix is a leaf here (part A)")
    o.key = "glob-match:Regex::new:builder-wiring"
    bad = None
    npaths = 0
    dot = set()
    for p in ps:
        if p.status in ("abort", "bound"):
            bad = ("inconclusive", "path %s: %s" % (p.status, p.note[:160]))
            break
        if not (p.status == "return" and isinstance(p.result, EnumV) and p.result.variant == "Ok"):
            continue
        npaths += 1
        news = [ev for ev in p.events if re.search(r"RegexBuilder::new$", ev.callee)]
        builds = [ev for ev in p.events if re.search(r"RegexBuilder::build$", ev.callee)]
        opts = [ev for ev in p.events if re.search(r"RegexBuilder::(?!new$|build$)\w+$", ev.callee)]
        if len(news) != 1 or len(builds) != 1:
            bad = ("inconclusive", "regex is not built by one RegexBuilder::new .. build chain")
            break
        if news[0].args[0] is not rein:
            bad = ("violated", "RegexBuilder::new does not receive the regex text given to Regex::new")
            break
        civals = [ev for ev in opts if ev.callee.endswith("::case_insensitive")]
        wired = civals[-1].args[1].t if civals and isinstance(civals[-1].args[1], Bool) else z3.BoolVal(False)
        o.queries += 1
        if e.check(*(list(p.pc) + [wired != ci.t])) != z3.unsat:
            bad = ("violated", "the case flag handed to RegexBuilder::case_insensitive differs from Regex::new's argument")
            break
        for ev in opts:
            nm = ev.callee.rsplit("::", 1)[1]
            if nm == "case_insensitive":
                continue
            if nm == "dot_matches_new_line" and isinstance(ev.args[1], Bool) and (z3.is_true(z3.simplify(ev.args[1].t)) or z3.is_false(z3.simplify(ev.args[1].t))):
                dot.add(z3.is_true(z3.simplify(ev.args[1].t)))
                continue
            if nm in ("size_limit", "dfa_size_limit", "nest_limit"):
                continue
            bad = ("inconclusive", "RegexBuilder::%s changes the regex semantics in a way the reference does not model" % nm)
            break
        if bad:
            break
        if not dot:
            dot.add(False)
        # the compiled object stored in the struct is the one that was built
        res = p.result.fields[0]
        got = res.fields.get(i_rx) if isinstance(res, Agg) else None
        if not (isinstance(got, Lazy) and "build" in got.name):
            bad = ("violated", "the regex stored in the wrapper is not the object returned by RegexBuilder::build")
            break
        cif = [v for k, v in res.fields.items() if isinstance(v, Bool)]
        o.queries += 1
        if cif and e.check(*(list(p.pc) + [cif[0].t != ci.t])) != z3.unsat:
            bad = ("violated", "the wrapper's case flag differs from Regex::new's argument")
            break
    if bad is None and len(dot) > 1:
        bad = ("inconclusive", "dot_matches_new_line differs between paths")
    if bad is None and npaths == 0:
        bad = ("inconclusive", "vacuous: no Ok path through Regex::new")
    if bad:
        o.verdict, o.detail = bad
    else:
        o.verdict = "holds"
        flags["dotall"] = dot.pop()
        o.witness = "%d Ok paths; dot_matches_new_line = %s" % (npaths, flags["dotall"])
    o.solver_s = e.solver_s
    o.stats = {"paths": len(ps), "states": len(ps), "transitions": e.stats.get("blocks", 0)}
    wired_objs = [o]

    # ---- W2/W3: the match functions
    specs = [
        ("Regex", "is_match", "&str", [i_rx], "is_match", "Regex::is_match returns the regex crate's verdict on its own compiled regex for the same string"),
        ("Pattern", "matches", "&str", [i_anch, i_rx], "is_match", "Pattern::matches = regex crate's verdict of the anchored regex on the path"),
        ("Pattern", "matches_prefix", "&str", [i_pref, i_rx], "is_match", "Pattern::matches_prefix = regex crate's verdict of the prefix regex on the path"),
        ("Pattern", "matches_path", "&std::path::Path", [i_anch, i_rx], "is_match", "Pattern::matches_path = regex crate's verdict of the anchored regex on the lossy string of the path"),
        ("Pattern", "matches_partially", "&str", [i_anch], "is_partial_match", "Pattern::matches_partially rejects only what Regex::is_partial_match of the anchored regex rejects"),
    ]
    for cls, name, argty, want_proj, leaf, title in specs:
        f = prog.method(cls, name)
        e = oblig.engine(prog, inline=leaf_inliner(prog))
        sarg = Lazy("s", argty)
        ps = e.run(f, args=[Lazy("self", f.args[0][1]), sarg])
        o = Obligation(title, "E2 mirsym/z3", oblig.fnames(e), "loop-free wrappers; the regex crate is a leaf")
        o.key = "glob-match:%s::%s:wiring" % (cls, name)
        verdict, detail = "holds", ""
        n = 0
        for p in ps:
            if p.status in ("abort", "bound"):
                verdict, detail = "inconclusive", "path %s: %s" % (p.status, p.note[:160])
                break
            if p.status != "return":
                if e.check(*p.pc) == z3.sat:
                    verdict, detail = "violated", "a path ends with %s" % p.status
                    break
                continue
            n += 1
            evs = [ev for ev in p.events if ev.callee.endswith("::" + leaf) and isinstance(ev.ret, Bool)]
            res = p.result
            if leaf == "is_partial_match" and isinstance(res, Bool) and z3.is_true(z3.simplify(res.t)):
                continue
            good = False
            for ev in evs:
                if not (isinstance(res, Bool) and z3.eq(res.t, ev.ret.t)):
                    continue
                pf = ref_fields(ev.args[0])
                if pf is None or pf[:len(want_proj)] != want_proj or not (isinstance(ev.args[0], Ref) and "self" in str(ev.args[0].cell)):
                    continue
                if argty == "&str" and ev.args[1] is not sarg:
                    continue
                good = True
            if not good:
                o.queries += 1
                if e.check(*p.pc) == z3.sat:
                    verdict = "violated"
                    detail = "a feasible path returns %r, which is not the verdict of %s on (%s of self, the given string)" % (
                        repr(res)[:60], leaf, "/".join(map(str, want_proj)))
                    o.cex = {"path_condition": [str(c)[:120] for c in p.pc][:10], "events": [repr(ev)[:120] for ev in p.events][:12]}
                    break
        if verdict == "holds" and n == 0:
            verdict, detail = "inconclusive", "vacuous: no returning path"
        o.verdict, o.detail = verdict, detail
        o.solver_s = e.solver_s
        o.witness = "%d returning paths" % n
        o.stats = {"paths": len(ps), "states": len(ps), "transitions": e.stats.get("blocks", 0)}
        wired_objs.append(o)
    return wired_objs, flags


# ------------------------------------------------------------------ T: translation validation

_T = {}


def t_init(dotall):
    _T["dotall"] = dotall


def t_check(job):
    glob, ci, res = job
    out = {"glob": glob, "ci": ci, "status": None, "witness": None, "which": None, "q": 0, "detail": ""}
    try:
        ast = globre.parse_glob(glob)
    except globre.Unsupported as ex:
        out["status"] = "skipped"
        out["detail"] = str(ex)
        return out
    if res == "ERR" or res == "PANIC":
        out["status"] = "rejected"
        out["which"] = "rejected" if res == "ERR" else "panics"
        return out
    parts = res.split()
    try:
        anch = unhx(parts[1]).decode("utf-8")
        pref = unhx(parts[2]).decode("utf-8")
        flag = parts[4] == "1"
        ref = globre.glob_re(ast, ci)
        if flag != ci:
            out["status"] = "differs"
            out["which"] = "case-flag"
            return out
        r_anch = globre.regex_re(anch, ci, _T["dotall"])
        r_pref = globre.regex_re(pref, ci, _T["dotall"])
    except globre.Unsupported as ex:
        out["status"] = "unsupported"
        out["detail"] = "%s (regex %r)" % (ex, parts[1])
        return out
    out["q"] += 1
    st, w = globre.differ(r_anch, ref)
    if st == "sat":
        out.update(status="differs", which="matches", witness=z3_unescape(w), regex=anch)
        return out
    if st != "unsat":
        out["status"] = "unknown"
        return out
    out["q"] += 1
    st, w = globre.differ(r_pref, z3.Concat(ref, z3.Star(globre.ANY)))
    if st == "sat":
        out.update(status="differs", which="matches_prefix", witness=z3_unescape(w), regex=pref)
        return out
    out["status"] = "equal" if st == "unsat" else "unknown"
    return out


def build_driver():
    sys.path.insert(0, os.path.join(VERIF, "replay"))
    import native_driver
    src = copy_repo("pattern-replay-src")
    return native_driver.NativeDriver(src, scratch_root(), [("regex", "regex_parts.rs", "verif_regex_parts"),
                                                             ("pattern", "pattern_test.rs", "verif_pattern_test"),
                                                             ("selector", "selector_test.rs", "verif_selector_test")])


DRV_TEST = "pattern::verif_pattern_test::verif_pattern_driver"
SEL_TEST = "selector::verif_selector_test::verif_selector_driver"

BASES = ["/t", "/", "/t/[x]", "/t/a*b", "/t/\u017c", "/t/a.b", "/t/{a,b}", "/t/x?y", "/t/(x)", "/t/a b", "/t/$x", "/t/x$", "/t/^x", "/t/a\\b",
         "/t/+x", "/t/a|b", "/t/**", "/t/@(a)", "/t/!x", "/t/#x", "/t/~", "/t/-x", "/t/a&&b", "/t/x]", "/t/a,b", "/t/[!a]"]
SEL_GLOBS = ["a", "*", "*.txt", "**/a", "/a", "/t/*", "a/*", "?", "[ab]", "{a,b}", "**", "x/**", "*(a|b)", "\u017c*"]


def s_check(job):
    base, glob, ci, kind, res = job
    out = {"base": base, "glob": glob, "ci": ci, "kind": kind, "status": None, "witness": None, "q": 0, "detail": ""}
    try:
        ast = globre.parse_glob(glob)
    except globre.Unsupported as ex:
        out["status"] = "skipped"
        return out
    if res in ("ERR", "PANIC"):
        out["status"] = "rejected"
        out["which"] = "rejected" if res == "ERR" else "panics"
        return out
    parts = res.split()
    relative = not (glob.startswith("/") or glob.startswith("**"))
    b = base if base.endswith("/") else base + "/"
    ref_seq = ([("lit", c) for c in b] if relative else []) + ast
    try:
        anch = unhx(parts[1]).decode("utf-8")
        pref = unhx(parts[2]).decode("utf-8")
        ref = globre.glob_re(ref_seq, ci)
        # the real pattern is read with the case flag it was actually compiled with (reported by the driver), the reference with
        # the case flag that was asked for
        real_ci = (parts[4] == "1") if len(parts) > 4 else ci
        out["real_ci"] = real_ci
        r_anch = globre.regex_re(anch, real_ci, _T["dotall"])
        r_pref = globre.regex_re(pref, real_ci, _T["dotall"])
    except globre.Unsupported as ex:
        out["status"] = "unsupported"
        out["detail"] = "%s (regex %r)" % (ex, parts[1])
        return out
    out["q"] += 1
    st, w = globre.differ(r_anch, ref)
    if st == "sat":
        out.update(status="differs", which="matches", witness=z3_unescape(w), regex=anch)
        return out
    if st != "unsat":
        out["status"] = "unknown"
        return out
    out["q"] += 1
    st, w = globre.differ(r_pref, z3.Concat(ref, z3.Star(globre.ANY)))
    if st == "sat":
        out.update(status="differs", which="matches_prefix", witness=z3_unescape(w), regex=pref)
        return out
    out["status"] = "equal" if st == "unsat" else "unknown"
    return out


def selector_patterns(rep, drv, dotall):
    """relative --path / --exclude patterns are anchored at the base directory taken literally"""
    jobs0 = [(b, g, ci, kind) for b in BASES for g in SEL_GLOBS for ci in (False, True) for kind in ("S", "X")
             if kind == "S" or g in SEL_GLOBS[:6]]
    lines = ["%s %s %s %d" % (kind, hx(b), hx(g), 1 if ci else 0) for b, g, ci, kind in jobs0]
    res = drv.run(SEL_TEST, lines, "sel")
    if len(res) != len(jobs0):
        raise Inconclusive("selector driver returned %d lines for %d cases" % (len(res), len(jobs0)))
    t0 = time.time()
    with multiprocessing.Pool(14, initializer=t_init, initargs=(dotall,)) as pool:
        results = pool.map(s_check, [j + (r,) for j, r in zip(jobs0, res)], chunksize=8)
    cnt = {}
    for r in results:
        cnt[r["status"]] = cnt.get(r["status"], 0) + 1
    fns = ["PathSelector::include_paths / exclude_paths / abs_pattern (run natively, output validated)", "Pattern::literal, Pattern + Pattern"]
    o = Obligation("selector: a relative --path / --exclude glob is the base directory taken literally followed by the glob, an absolute one is unchanged, for every path",
                   "z3 regex equivalence over the real selector's patterns", fns,
                   "%d base directories (regex / glob metacharacters, non-ASCII) x %d globs, case-sensitive and ignore-case; paths: all Unicode strings" % (len(BASES), len(SEL_GLOBS)))
    o.queries = sum(r["q"] for r in results)
    o.solver_s = round(time.time() - t0, 1)
    o.stats = {"cases": len(jobs0), "by_status": cnt, "states": len(jobs0), "transitions": o.queries}
    o.key = "selector:abs-pattern"
    diffs = [r for r in results if r["status"] in ("differs", "rejected")]
    undec = [r for r in results if r["status"] == "unknown"]
    if diffs:
        conf = None
        for r in sorted(diffs, key=lambda r: (len(r["base"]) + len(r["glob"]), r["ci"], r["kind"] != "S", r["base"]))[:60]:
            if r["status"] == "rejected":
                conf = (r, "real PathSelector %s glob %r under base dir %r" % (r["which"], r["glob"], r["base"]))
                break
            w = r["witness"]
            inc, exc = (hx(r["glob"]), "-") if r["kind"] == "S" else ("-", hx(r["glob"]))
            out = drv.run(SEL_TEST, ["%s %s %s %s - %s" % ("SMI" if r["ci"] else "SM", hx(r["base"]), inc, exc, hx(w))], "selrp")
            if not out or out[0] in ("ERR", "PANIC", "?"):
                continue
            relative = not (r["glob"].startswith("/") or r["glob"].startswith("**"))
            b = r["base"] if r["base"].endswith("/") else r["base"] + "/"
            rx = re.compile((re.escape(b) if relative else "") + _py_seq(globre.parse_glob(r["glob"]), r["ci"]), re.S | (re.I if r["ci"] else 0))
            if r["which"] == "matches" and w.startswith("/") and "//" not in w and not w.endswith("/") and "\x00" not in w:
                want = rx.fullmatch(w) is not None
                if r["kind"] == "X":
                    want = not want
                got = out[0][0] == "1"
                if got != want:
                    conf = (r, "real PathSelector(base %r).%s(%r%s).matches_full_path(%r) = %s, documented: %s (regex: %r, compiled case-insensitive: %s)" % (
                        r["base"], "include_paths" if r["kind"] == "S" else "exclude_paths", r["glob"], " with --ignore-case" if r["ci"] else "", w, got, want,
                        r.get("regex"), r.get("real_ci")))
                    break
        if conf:
            o.verdict = "violated"
            o.detail = conf[1] + " (%d cases differ)" % len(diffs)
            o.cex = {"base_dir": conf[0]["base"], "glob": conf[0]["glob"], "path": conf[0].get("witness"), "native": conf[1]}
            o.stats["traces_validated"] = 1
        else:
            o.verdict = "inconclusive"
            o.detail = "z3 witnesses did not reproduce through the real selector, e.g. %r" % (diffs[0],)
    elif undec:
        o.verdict, o.detail = "inconclusive", "%d cases undecided" % len(undec)
    elif cnt.get("equal", 0) == 0:
        o.verdict, o.detail = "inconclusive", "vacuous"
    else:
        o.verdict = "holds"
        o.witness = "%d cases decided equal" % cnt.get("equal", 0)
        if cnt.get("unsupported"):
            o.detail = "%d cases outside the modelled regex subset" % cnt["unsupported"]
    rep.add(o)
    return o


def role_of(glob, witness, which):
    """role key of a translation defect: by the token kinds involved, never by solver values"""
    kinds = []
    try:
        for nd in globre.parse_glob(glob):
            kinds.append(nd[0] if nd[0] != "ext" else "ext" + nd[1])
    except globre.Unsupported:
        kinds = ["?"]
    if which in ("rejected", "panics"):
        if glob.endswith("$"):
            return "%s:glob-ending-in-a-literal-dollar" % which
        if glob.startswith("^"):
            return "%s:glob-starting-with-a-literal-caret" % which
    if witness is not None and "\n" in witness and "dstar" in kinds and which in ("matches", "matches_prefix"):
        return "%s:double-star-does-not-match-newline" % which
    ks = sorted(set(k for k in kinds if k not in ("lit", "sep")))
    return "%s:%s" % (which, "+".join(ks) or "literal")


def differential(drv, what, limit=40):
    """native differential of the real Pattern API against the python reference matcher on small globs x short paths; used to
    confirm abstract wiring counterexamples.  what: 'matches' | 'prefix' | 'path' | 'partial'"""
    full = LITS[:8] + WILD[:16]
    globs = [("".join(t), ci) for n in (1, 2) for t in itertools.product(full, repeat=n) for ci in (False, True)]
    alpha = ["a", "A", "b", "B", "/", "\u017c", "\u017b", ".", "\n", "x"]
    paths = [""] + ["".join(t) for n in (1, 2, 3) for t in itertools.product(alpha, repeat=n)]
    if what == "partial":
        paths = [p + "/" for p in paths if len(p) <= 2] + ["a/" + p + "/" for p in paths if 0 < len(p) <= 2]
    usable = []
    for g, ci in globs:
        try:
            usable.append((g, ci, py_matcher(g, ci)))
        except (globre.Unsupported, re.error):
            pass
    found = []
    chunk = 60
    for k in range(0, len(usable), chunk):
        part = usable[k:k + chunk]
        lines = ["%s G %s %d %s" % ("P" if what == "partial" else "M", hx(g), 1 if ci else 0, " ".join(hx(p) for p in paths)) for g, ci, _ in part]
        out = drv.run(DRV_TEST, lines, "diff")
        for (g, ci, rx), l in zip(part, out):
            if l in ("ERR", "PANIC", "?"):
                continue
            cells = l.split()
            for p, c in zip(paths, cells):
                if what == "partial":
                    partial, w = c.split(":")
                    if partial == "0" and w != "-":
                        ext = "" if w == "e" else unhx(w).decode("utf-8")
                        found.append({"glob": g, "ci": ci, "dir": p, "matching_path": p + ext,
                                      "real": "matches_partially(%r) = false although matches(%r) = true" % (p, p + ext)})
                else:
                    want = rx.fullmatch(p) is not None
                    if what == "prefix":
                        want = any(rx.fullmatch(p[:i]) is not None for i in range(len(p) + 1))
                    idx = {"matches": 0, "prefix": 2, "path": 3}[what]
                    got = c[idx] == "1"
                    if got != want:
                        found.append({"glob": g, "ci": ci, "path": p, "real": got, "documented": want})
                if len(found) >= limit:
                    return found
    return found


def add(rep, ctx):
    prog = ctx.lib
    t0 = time.time()
    wired, flags = wiring(rep, prog)
    try:
        drv = build_driver()
    except Exception as ex:   # noqa
        for o in wired:
            if o.verdict == "violated":
                o.verdict, o.detail = "inconclusive", o.detail + " (native driver unavailable: %s)" % str(ex)[-200:]
            rep.add(o)
        o = Obligation("glob translation equals the documented language for every path", "z3 regex equivalence", [], "")
        o.verdict, o.detail = "inconclusive", "native pattern driver does not build against this tree: %s" % str(ex)[-300:]
        rep.add(o)
        return
    # confirm abstract wiring counterexamples by the native differential
    kind_of = {"Regex::is_match": "matches", "Pattern::matches": "matches", "Pattern::matches_prefix": "prefix",
               "Pattern::matches_path": "path", "Pattern::matches_partially": "partial", "Regex::new": "matches"}
    for o in wired:
        if o.verdict == "violated":
            what = kind_of[o.key.split(":", 1)[1].rsplit(":", 1)[0]]
            found = differential(drv, what)
            if found:
                o.stats["traces_validated"] = 1
                o.cex = dict(o.cex or {}, native=found[:5])
                o.detail += "; native differential: e.g. glob %r%s: %s" % (found[0]["glob"], " (ignore case)" if found[0]["ci"] else "",
                                                                          {k: v for k, v in found[0].items() if k not in ("glob", "ci")})
            else:
                o.verdict = "inconclusive"
                o.detail += "; the native differential (small globs x short paths) found no observable difference"
        rep.add(o)

    menu = glob_menu()
    import random
    random.Random(seed()).shuffle(menu)
    lines = ["G %s %d" % (hx(g), 1 if ci else 0) for g, ci in menu]
    res = drv.run(DRV_TEST, lines, "globs")
    if len(res) != len(menu):
        raise Inconclusive("pattern driver returned %d lines for %d globs" % (len(res), len(menu)))
    jobs = [(g, ci, r) for (g, ci), r in zip(menu, res)]
    with multiprocessing.Pool(14, initializer=t_init, initargs=(flags["dotall"],)) as pool:
        results = pool.map(t_check, jobs, chunksize=16)
    cnt = {}
    for r in results:
        cnt[r["status"]] = cnt.get(r["status"], 0) + 1
    nq = sum(r["q"] for r in results)
    fns = ["Pattern::glob_with (run natively, output validated)", "Pattern::regex_with (run natively)", "globre.parse_regex / glob_re (reference)"]
    bounds = "%d glob texts of <= %d tokens (menu of %d literal and %d wildcard tokens), case-sensitive and ignore-case; paths: all Unicode strings (z3 regex theory, unbounded length)" % (
        len(menu), 5 if tier() == "thorough" else 3, len(LITS), len(WILD))
    o = Obligation("glob translation: the regex handed to the regex crate accepts exactly the documented language of the glob, for every path",
                   "z3 regex equivalence over the real translator's output", fns, bounds)
    o.queries = nq
    o.solver_s = round(time.time() - t0, 1)
    o.stats = {"globs": len(menu), "by_status": cnt, "states": len(menu), "transitions": nq, "dot_matches_new_line": flags["dotall"]}
    o.witness = "%d globs decided equal, %d skipped as outside the documented unambiguous subset" % (cnt.get("equal", 0), cnt.get("skipped", 0))
    o.key = "glob-match:translation"
    diffs = [r for r in results if r["status"] in ("differs", "rejected")]
    undec = [r for r in results if r["status"] == "unknown"]
    unsup = [r for r in results if r["status"] == "unsupported"]
    if unsup:
        o.stats["outside_regex_subset"] = [r["detail"][:120] for r in unsup[:5]]
    extra_obls = []
    if diffs:
        # replay every class of difference against the real Pattern
        groups = {}
        for r in diffs:
            role = role_of(r["glob"], r["witness"], r["which"])
            groups.setdefault(role, []).append(r)
        first = True
        for role in sorted(groups)[:8]:
            rs = sorted(groups[role], key=lambda r: (len(r["glob"]), r["glob"]))[:6]
            conf = None
            for r in rs:
                if r["status"] == "rejected":
                    conf = (r, "real Pattern::glob %s the well-formed glob %r" % ("rejects" if r["which"] == "rejected" else "panics on", r["glob"]))
                    break
                if r["which"] == "case-flag":
                    conf = (r, "case flag of the compiled pattern differs from the requested one for glob %r" % r["glob"])
                    break
                out = drv.run(DRV_TEST, ["M G %s %d %s" % (hx(r["glob"]), 1 if r["ci"] else 0, hx(r["witness"]))], "rp")
                if not out or out[0] in ("ERR", "PANIC"):
                    continue
                try:
                    rx = py_matcher(r["glob"], r["ci"])
                except Exception:   # noqa
                    continue
                w = r["witness"]
                if r["which"] == "matches":
                    want = rx.fullmatch(w) is not None
                    got = out[0][0] == "1"
                else:
                    want = any(rx.fullmatch(w[:i]) is not None for i in range(len(w) + 1))
                    got = out[0][2] == "1"
                if got != want:
                    conf = (r, "real Pattern::glob(%r)%s.%s(%r) = %s, documented: %s (regex handed to the regex crate: %r)" % (
                        r["glob"], " ignore-case" if r["ci"] else "", r["which"], w, got, want, r.get("regex")))
                    break
            og = o if first else Obligation(o.name, o.engine, fns, bounds)
            if conf:
                og.verdict = "violated"
                og.key = "glob-match:%s" % role
                og.detail = "%s: %s (%d globs of the menu in this class)" % (role, conf[1], len(groups[role]))
                og.cex = {"role": role, "glob": conf[0]["glob"], "ignore_case": conf[0]["ci"], "path": conf[0].get("witness"), "native": conf[1],
                          "more": [x["glob"] for x in rs[:6]]}
                og.stats = dict(o.stats, traces_validated=1)
            else:
                og.verdict = "inconclusive"
                og.detail = "%s: z3 witness did not reproduce with the real Pattern: %r" % (role, rs[0])
                og.stats = dict(o.stats)
            if not first:
                og.queries = 0
                extra_obls.append(og)
            first = False
    elif undec:
        o.verdict = "inconclusive"
        o.detail = "%d globs undecided, e.g. %r" % (len(undec), undec[0])
    elif cnt.get("equal", 0) == 0:
        o.verdict, o.detail = "inconclusive", "vacuous: no glob decided"
    else:
        o.verdict = "holds"
        if unsup:
            o.detail = "%d globs whose regex is outside the modelled regex subset (not decided)" % len(unsup)
    rep.add(o)
    for og in extra_obls:
        rep.add(og)
    rep.extra.setdefault("glob_translation", {"globs": len(menu), "by_status": cnt, "queries": nq})
    selector_patterns(rep, drv, flags["dotall"])
    try:
        for o in selector_logic(rep, prog):
            if o.verdict == "violated":
                found = selector_differential(drv)
                if found:
                    o.stats["traces_validated"] = 1
                    o.cex = dict(o.cex or {}, native=found[:4])
                    o.detail += "; replayed natively: %s" % found[0]
                else:
                    o.verdict = "inconclusive"
                    o.detail += "; the native selector differential found no observable difference"
            rep.add(o)
    except Inconclusive as ex:
        o = Obligation("selector logic", "E2 mirsym/z3")
        o.verdict, o.detail = "inconclusive", str(ex)
        rep.add(o)


# ------------------------------------------------------------------ selector logic (include names / include paths / exclude paths)

def selector_logic(rep, prog):
    """PathSelector::matches_full_path / matches_dir over pattern lists of 0..2 elements each (list model): the verdict is the
    documented boolean combination of the patterns' verdicts on the file name / the absolute path string"""
    import listsum
    import optsum
    from summaries import deref_val
    fields = struct_fields(prog, "selector.rs", "PathSelector")
    try:
        ib, inm, ipt, iex = (fields.index(n) for n in ("base_dir", "included_names", "included_paths", "excluded_paths"))
    except ValueError:
        raise Inconclusive("fields of PathSelector not found")
    ex = dict(optsum.SUMMARIES)
    ex.update(listsum.LIST)

    def s_verdict(e, st, callee, args, dty):
        # the verdict of one pattern is a free boolean, the same whenever the same pattern is asked the same question
        who = deref_val(e, st, args[0])
        nm = getattr(who, "name", None)
        if nm is None:
            return NotImplemented
        st.events.append(mirsym.Event("call", "VERDICT:" + nm, tuple(args), None, len(st.pc), e.site(st)))
        return Bool(z3.Bool("%s(%s)" % (callee.rsplit("::", 1)[1], nm)))
    ex[r"Pattern::(matches|matches_partially|matches_prefix|matches_path)$"] = s_verdict
    inl = oblig.module_inliner(prog, "selector.rs", r"^$")
    specs = [("matches_full_path", "Pattern::matches$", "Pattern::matches$", "a file is selected iff (no --name pattern or one matches its name) and (no --path pattern or one matches its path) and no --exclude pattern matches its path"),
             ("matches_dir", "Pattern::matches_partially$", "Pattern::matches_prefix$", "a directory is entered iff (no --path pattern or one matches it partially) and no --exclude pattern matches a prefix of it")]
    for meth, inc_pat, exc_pat, title in specs:
        f = prog.method("PathSelector", meth)
        verdict, detail, npaths, nq = "holds", "", 0, 0
        enc = {}
        o = Obligation("PathSelector::%s: %s" % (meth, title), "E2 mirsym/z3 (list model)", [], "0..2 patterns in each of the three lists (27 configurations), pattern verdicts free")
        o.key = "selector:%s" % meth
        for nn in (0, 1, 2):
            for np_ in (0, 1, 2):
                for nx in (0, 1, 2):
                    if verdict != "holds":
                        break
                    eng = oblig.engine(prog, inline=inl, extra=ex, unroll=4)
                    mk = lambda pre, n: mirsym.ListV(tuple(Lazy("%s%d" % (pre, i), "pattern::Pattern") for i in range(n)), "Vec")
                    sel = Agg("PathSelector", {ib: Lazy("base", "Arc<Path>"), inm: mk("N", nn), ipt: mk("P", np_), iex: mk("X", nx)})
                    ps = eng.run(f, args=[Ref("SEL", (), False), Lazy("p", f.args[1][1])], mem={"SEL": sel})
                    enc.update(eng.encoded)
                    for p in ps:
                        npaths += 1
                        if p.status in ("abort", "bound"):
                            verdict, detail = "inconclusive", "lists %d/%d/%d: path %s %s" % (nn, np_, nx, p.status, p.note[:120])
                            break
                        if p.status != "return" or not isinstance(p.result, Bool):
                            if eng.check(*p.pc) == z3.sat:
                                verdict, detail = "violated", "lists %d/%d/%d: a feasible path ends with %s" % (nn, np_, nx, p.status)
                                break
                            continue
                        st = mirsym.State()
                        st.mem, st.pc = p.mem, list(p.pc)
                        q_inc = "matches" if meth == "matches_full_path" else "matches_partially"
                        q_exc = "matches" if meth == "matches_full_path" else "matches_prefix"
                        sym = lambda nm: z3.Bool("%s(%s)" % (q_exc if nm.startswith("X") else q_inc, nm))
                        names_ok = z3.BoolVal(True) if (nn == 0 or meth == "matches_dir") else z3.Or(*[sym("N%d" % i) for i in range(nn)])
                        paths_ok = z3.BoolVal(True) if np_ == 0 else z3.Or(*[sym("P%d" % i) for i in range(np_)])
                        excl_ok = z3.And(*[z3.Not(sym("X%d" % i)) for i in range(nx)]) if nx else z3.BoolVal(True)
                        want = z3.And(names_ok, paths_ok, excl_ok)
                        nq += 1
                        # short-circuit evaluation: on a path where a pattern was not asked, the result must not depend on it,
                        # i.e. the equality has to hold for both values of the fresh symbol (validity)
                        if eng.check(*(list(p.pc) + [p.result.t != want])) != z3.unsat:
                            verdict = "violated"
                            detail = "with %d name / %d path / %d exclude patterns the verdict differs from the documented combination " % (nn, np_, nx)
                            o.cex = {"lists": [nn, np_, nx], "path_condition": [str(c)[:100] for c in p.pc][:10]}
                            break
                        # the strings the patterns are asked about come from lossy conversions only: a name or path that is not valid
                        # UTF-8 is still matched (through its lossy form), never replaced by an empty or missing string
                        asked = [ev for ev in p.events if ev.kind == "call" and ev.callee.startswith("VERDICT:")]
                        fallible = [ev for ev in p.events if ev.kind == "call" and re.search(r"(CStr|OsStr|OsString|Path|PathBuf)::(to_str|into_string)$|(^|::)from_utf8$", ev.callee)]
                        lossy = [ev for ev in p.events if ev.kind == "call" and re.search(r"to_string_lossy$|from_utf8_lossy$", ev.callee)]
                        # (verdicts asked inside `any` / `all` closures leave no event on the path: every configuration with a pattern counts)
                        if (asked or nn + np_ + nx > 0) and (fallible or not lossy) and eng.check(*p.pc) == z3.sat:
                            verdict = "violated"
                            detail = "with %d name / %d path / %d exclude patterns a pattern is asked about a string from %s" % (
                                nn, np_, nx, ("a fallible conversion (%s)" % fallible[0].callee.split("::")[-1]) if fallible else "no lossy conversion")
                            o.cex = {"lists": [nn, np_, nx], "conversion": (fallible[0].callee if fallible else None), "role": "name-or-path-not-utf8"}
                            break
        o.functions = sorted("%s#%s" % (k[-60:], v) for k, v in enc.items())
        o.queries = nq
        o.stats = {"paths": npaths, "states": npaths, "transitions": nq}
        if verdict == "holds" and npaths == 0:
            verdict, detail = "inconclusive", "vacuous"
        o.verdict, o.detail = verdict, detail
        yield o


def selector_differential(drv):
    """native: real PathSelector against the documented combination on a small menu (replay of selector-logic counterexamples)"""
    found = []
    # names and paths that are not valid UTF-8 are matched through their lossy form
    raw = [b"/t/caf\xe9.jpg", b"/t/d\xff/x.jpg", b"/t/plain.jpg"]
    for inc, nm, want in (("-", "*.jpg", [True, True, True]), ("-", "caf?.jpg", [True, False, False]), ("/t/**", "-", [True, True, True]),
                          ("/t/d?/*", "*.jpg", [False, True, False])):
        line = "SM %s %s - %s %s" % (hx("/t"), hx(inc) if inc != "-" else "-", hx(nm) if nm != "-" else "-", " ".join(p.hex() for p in raw))
        out = drv.run(SEL_TEST, [line], "seldb")
        if out and out[0] not in ("ERR", "PANIC", "?"):
            for p, cell, w in zip(raw, out[0].split(), want):
                if (cell[0] == "1") != w:
                    found.append({"include": inc, "name": nm, "path_bytes": p.hex(), "real_matches_full_path": cell[0] == "1", "documented": w})
    if found:
        return found
    pats = ["-", "*.txt", "/t/a/**", "**/b*", "a/*"]
    names = ["-", "*.txt", "b*"]
    paths = ["/t/a/x.txt", "/t/a/b.bin", "/t/c/b.txt", "/t/a/d/e.txt", "/u/x.txt", "/t/a", "/t/c", "/t"]
    for inc in pats:
        for exc in pats:
            for nm in names:
                line = "SM %s %s %s %s %s" % (hx("/t"), hx(inc) if inc != "-" else "-", hx(exc) if exc != "-" else "-", hx(nm) if nm != "-" else "-", " ".join(hx(p) for p in paths))
                out = drv.run(SEL_TEST, [line], "seld")
                if not out or out[0] in ("ERR", "PANIC", "?"):
                    continue
                def rx(g):
                    if g == "-":
                        return None
                    rel = not (g.startswith("/") or g.startswith("**"))
                    return re.compile((re.escape("/t/") if rel else "") + _py_seq(globre.parse_glob(g), False), re.S)
                ri, rx_, rn = rx(inc), rx(exc), (re.compile(_py_seq(globre.parse_glob(nm), False), re.S) if nm != "-" else None)
                for p, cell in zip(paths, out[0].split()):
                    want = (rn is None or rn.fullmatch(os.path.basename(p)) is not None) and (ri is None or ri.fullmatch(p) is not None) and \
                        (rx_ is None or rx_.fullmatch(p) is None)
                    if (cell[0] == "1") != want:
                        found.append({"include": inc, "exclude": exc, "name": nm, "path": p, "real_matches_full_path": cell[0] == "1", "documented": want})
                        if len(found) > 5:
                            return found
    return found
