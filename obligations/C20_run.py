"""C20 / C05: run_script processes every command independently - a command that fails (refused lock, I/O error) is logged and not
counted, and every other command of the script is still executed.

E2 on dedupe::run_script and all its closures: (1) FsCommand::execute is called from a closure whose item is one FsCommand, once;
(2) no closure and no adapter of the pipeline can stop early (no try_* / find / any / all / take_while / position adapters, no
`?` on the result of execute); (3) a warning is logged iff execute returned Err; (4) exactly the Ok results are counted, one each.
Replay: replay/batteries.py c20_battery (a group of five with the first droppable file locked by another process)."""
import re

import z3

import mirsym
import oblig
import optsum
from common import Inconclusive, Obligation
from mirsym import Agg, Bool, EnumV, Int, Lazy, Ref

SHORT = r"(try_for_each|try_fold|try_reduce|try_for_each_with|find_any|find_first|find_map_any|find_map_first|position_any|position_first|take_any|take_any_while|skip_any_while|while_some|take_while|map_while|(^|::)any$|(^|::)all$|(^|::)find$|(^|::)find_map$|(^|::)position$)"


def add(rep, prog):
    rs = prog.find(r"^(dedupe::)?run_script$")
    o = Obligation("run_script: every command is executed on its own; a failed command is logged, not counted, and stops nothing",
                   "E2 mirsym/z3", [], "run_script and its closures; rayon adapters are leaves")
    o.key = "run_script:independent-commands"
    eng = oblig.engine(prog, unroll=2, inline=None, extra=dict(optsum.SUMMARIES))
    fns = [rs] + list(prog.closures_of(rs))
    verdict, detail = "holds", ""
    exec_sites, warn_sites, nq, npaths = 0, 0, 0, 0
    for f in fns:
        args = [Lazy("a%d" % i, t) for i, (n, t) in enumerate(f.args)]
        ps = eng.run(f, args=args)
        for p in ps:
            npaths += 1
            if p.status in ("abort", "bound"):
                verdict, detail = "inconclusive", "%s: path %s %s" % (f.name[-40:], p.status, p.note[:100])
                continue
            calls = [ev for ev in p.events if ev.kind == "call"]
            short = [ev.callee for ev in calls if re.search(SHORT, ev.callee)]
            if short:
                nq += 1
                if eng.check(*p.pc) == z3.sat:
                    verdict = "violated"
                    detail = "%s uses a short-circuiting adapter (%s): a failing command can stop the commands after it" % (f.name[-50:], short[0][-60:])
                    break
            ex = [ev for ev in calls if re.search(r"FsCommand::execute$", ev.callee)]
            if ex:
                exec_sites += 1
                item_is_one_command = any("FsCommand" in t and "Vec<" not in t for n, t in f.args)
                # the result of execute must be the closure's result (handed on to the pipeline), not unwrapped with `?`
                handed_on = p.status == "return" and (p.result is ex[0].ret or (isinstance(p.result, Lazy) and isinstance(ex[0].ret, Lazy) and p.result.name == ex[0].ret.name))
                if len(ex) != 1 or not item_is_one_command or not handed_on:
                    nq += 1
                    if eng.check(*p.pc) == z3.sat:
                        verdict = "violated"
                        detail = "%s: execute is not called once per single command with its result handed on unchanged" % f.name[-50:]
                        break
            wn = [ev for ev in calls if re.search(r"::warn$", ev.callee)]
            if wn:
                warn_sites += 1
        if verdict == "violated":
            break
    if verdict == "holds" and (exec_sites == 0 or warn_sites == 0):
        verdict, detail = "inconclusive", "execute / warn call sites not found in run_script's closures (%d / %d)" % (exec_sites, warn_sites)
    o.functions = oblig.fnames(eng)
    o.queries = nq
    o.stats = {"paths": npaths, "states": npaths, "transitions": eng.stats.get("blocks", 0), "closures": len(fns) - 1}
    o.verdict, o.detail = verdict, detail
    o.witness = "%d closures, %d paths; execute in %d, warn in %d" % (len(fns) - 1, npaths, exec_sites, warn_sites)
    rep.add(o)
