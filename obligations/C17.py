"""C17 - shell quoting of paths and arguments is lossless.

E2 with byte-list strings: the MIR of arg::quote, arg::split (whole state machine, loop unrolled per input byte),
to_stfu8 / from_stfu8 / append is executed symbolically on arguments built from <= N tokens; each token is a *class* of
bytes (inert printable, quote-special printable, each troublesome ASCII character, control bytes, valid 2/3/4-byte UTF-8
scalars, arbitrary high bytes) whose concrete values are left to the solver.  Obligations: split(quote(x)) == [x];
bashdec(quote(x)) == x for a reference decoder of the three forms bash accepts; split(join(xs)) == xs.
stfu8 is replaced by a reference model that is validated against the real crate natively on every run, as is the
whole encoding (translator validation on concrete inputs)."""
import itertools
import json
import multiprocessing
import os
import re
import subprocess
import sys
import time

import z3

import mirsym
import oblig
import strsum
from common import Inconclusive, Obligation, Report, VERIF, copy_repo, say, scratch_root, seed, tier
from mirsym import Agg, EnumV, Int, Lazy, ListV, Ref, Str

INL = r"^(arg::)?(to_stfu8|from_stfu8|append)$|^arg::<impl[^>]*>::(quote|as_os_str)$"
B8 = lambda v: z3.BitVecVal(v, 8)

QSPEC = b"|&;<>(){}`*?+[]=%"
SINGLES = {"SQ": 0x27, "BS": 0x5C, "DQ": 0x22, "DOLLAR": 0x24, "HASH": 0x23, "SP": 0x20, "TAB": 0x09, "NL": 0x0A,
           "CR": 0x0D, "TILDE": 0x7E}
ALL_CLASSES = ["INERT", "QSPEC"] + list(SINGLES) + ["CTRL", "U2", "U3", "U4", "HIGH"]
REDUCED = ["INERT", "SQ", "BS", "DQ", "DOLLAR", "NL", "U2", "HIGH", "SP"]


def token(cls, name):
    """-> (list of byte terms, list of constraints)"""
    if cls in SINGLES:
        return [B8(SINGLES[cls])], []
    if cls == "INERT":
        b = z3.BitVec(name, 8)
        special = QSPEC + bytes(SINGLES.values())
        return [b], [strsum.inr(b, 0x21, 0x7E)] + [b != B8(c) for c in special]
    if cls == "QSPEC":
        b = z3.BitVec(name, 8)
        return [b], [z3.Or(*[b == B8(c) for c in QSPEC])]
    if cls == "CTRL":
        b = z3.BitVec(name, 8)
        return [b], [z3.Or(strsum.inr(b, 0x01, 0x1F), b == B8(0x7F)), b != B8(9), b != B8(10), b != B8(13)]
    if cls == "HIGH":
        b = z3.BitVec(name, 8)
        return [b], [z3.UGE(b, B8(0x80))]
    n = {"U2": 2, "U3": 3, "U4": 4}[cls]
    bs = [z3.BitVec("%s_%d" % (name, i), 8) for i in range(n)]
    b0 = bs[0]
    inr = strsum.inr
    if n == 2:
        c = [inr(b0, 0xC2, 0xDF), inr(bs[1], 0x80, 0xBF)]
    elif n == 3:
        b1 = bs[1]
        c = [z3.Or(z3.And(b0 == B8(0xE0), inr(b1, 0xA0, 0xBF)), z3.And(inr(b0, 0xE1, 0xEC), inr(b1, 0x80, 0xBF)),
                   z3.And(b0 == B8(0xED), inr(b1, 0x80, 0x9F)), z3.And(inr(b0, 0xEE, 0xEF), inr(b1, 0x80, 0xBF))),
             inr(bs[2], 0x80, 0xBF)]
    else:
        b1 = bs[1]
        c = [z3.Or(z3.And(b0 == B8(0xF0), inr(b1, 0x90, 0xBF)), z3.And(inr(b0, 0xF1, 0xF3), inr(b1, 0x80, 0xBF)),
                   z3.And(b0 == B8(0xF4), inr(b1, 0x80, 0x8F))), inr(bs[2], 0x80, 0xBF), inr(bs[3], 0x80, 0xBF)]
    return bs, c


def build(shape, prefix="x"):
    items, cons = [], []
    for i, cls in enumerate(shape):
        bs, c = token(cls, "%s%d" % (prefix, i))
        items += bs
        cons += c
    return items, cons


# ------------------------------------------------------------------ reference bash decoder for one word

def bash_safe_bare(b, first):
    unsafe = b"|&;<>() \t\n\\'\"$`*?["
    conds = [b != B8(c) for c in unsafe] + [z3.UGT(b, B8(0x20)), b != B8(0x7F)]
    if first:
        conds += [b != B8(ord("#")), b != B8(ord("~"))]
    return z3.And(*conds)


def bashdec_alts(e, st, items):
    """[(cond, ok, bytes)] - what `bash -c 'printf %s WORD'` prints for the single word `items` (reference semantics of
    bare words, '...', $'...' with ANSI-C escapes); ok=False: not one word / would be expanded / syntax error"""
    al = strsum.Alts(e, st)
    n = len(items)
    res = []
    if n == 0:
        return [(None, False, [])]
    c0 = strsum.isconst(items[0])
    c1 = strsum.isconst(items[1]) if n > 1 else None
    if c0 == 0x24 and c1 == 0x27:
        work = [([], 2, [])]
        while work:
            conds, i, out = work.pop()
            if i >= n:
                res.append((strsum.and_or_none(conds), False, out))
                continue
            b = items[i]
            isq, isb = b == B8(0x27), b == B8(0x5C)
            if al.feasible(conds + [isq]):
                res.append((strsum.and_or_none(conds + [isq]), i == n - 1, out))
            if al.feasible(conds + [z3.Not(isq), z3.Not(isb)]):
                work.append((conds + [z3.Not(isq), z3.Not(isb)], i + 1, out + [b]))
            if al.feasible(conds + [isb]):
                cb = conds + [isb]
                if i + 1 >= n:
                    res.append((strsum.and_or_none(cb), False, out))
                    continue
                nb = items[i + 1]
                simple = {ord("n"): 10, ord("t"): 9, ord("r"): 13, 0x5C: 0x5C, 0x27: 0x27, 0x22: 0x22, ord("a"): 7, ord("b"): 8,
                          ord("e"): 27, ord("E"): 27, ord("f"): 12, ord("v"): 11, ord("?"): 0x3F}
                handled = []
                for ch, val in simple.items():
                    c = nb == B8(ch)
                    handled.append(c)
                    if al.feasible(cb + [c]):
                        work.append((cb + [c], i + 2, out + [B8(val)]))
                cx = nb == B8(ord("x"))
                handled.append(cx)
                if al.feasible(cb + [cx]):
                    # \xH or \xHH
                    ok2 = False
                    if i + 2 < n:
                        for c1_, h1 in strsum.unhex(al, items[i + 2], cb + [cx]):
                            two = []
                            if i + 3 < n:
                                two = strsum.unhex(al, items[i + 3], c1_)
                                for c2_, h2 in two:
                                    work.append((c2_, i + 4, out + [z3.Concat(h1, h2)]))
                                ishex = lambda t: z3.Or(strsum.inr(t, 0x30, 0x39), strsum.inr(t, 0x41, 0x46), strsum.inr(t, 0x61, 0x66))
                                if al.feasible(c1_ + [z3.Not(ishex(items[i + 3]))]):
                                    work.append((c1_ + [z3.Not(ishex(items[i + 3]))], i + 3, out + [z3.Concat(z3.BitVecVal(0, 4), h1)]))
                            else:
                                work.append((c1_, i + 3, out + [z3.Concat(z3.BitVecVal(0, 4), h1)]))
                    ishex = lambda t: z3.Or(strsum.inr(t, 0x30, 0x39), strsum.inr(t, 0x41, 0x46), strsum.inr(t, 0x61, 0x66))
                    nohex = z3.BoolVal(True) if i + 2 >= n else z3.Not(ishex(items[i + 2]))
                    if al.feasible(cb + [cx, nohex]):
                        work.append((cb + [cx, nohex], i + 2, out + [B8(0x5C), B8(ord("x"))]))
                # octal, \u, \U, \c : give up precisely -> not ok (fclones never emits them)
                odd = z3.Or(strsum.inr(nb, 0x30, 0x37), nb == B8(ord("u")), nb == B8(ord("U")), nb == B8(ord("c")))
                handled.append(odd)
                if al.feasible(cb + [odd]):
                    res.append((strsum.and_or_none(cb + [odd]), False, out))
                other = z3.Not(z3.Or(*handled))
                if al.feasible(cb + [other]):
                    work.append((cb + [other], i + 2, out + [B8(0x5C), nb]))
            if len(res) + len(work) > 5000:
                raise Inconclusive("bash model forks too much")
        return res
    if c0 == 0x27:
        conds = []
        for i in range(1, n - 1):
            conds.append(items[i] != B8(0x27))
        closing = (items[n - 1] == B8(0x27)) if n >= 2 else z3.BoolVal(False)
        ok = z3.And(*(conds + [closing])) if n >= 2 else z3.BoolVal(False)
        out = []
        if al.feasible([ok]):
            out.append((ok, True, list(items[1:n - 1])))
        if al.feasible([z3.Not(ok)]):
            out.append((z3.Not(ok), False, []))
        return out
    safe = z3.And(*[bash_safe_bare(items[i], i == 0) for i in range(n)])
    out = []
    if al.feasible([safe]):
        out.append((safe, True, list(items)))
    if al.feasible([z3.Not(safe)]):
        out.append((z3.Not(safe), False, []))
    return out


# ------------------------------------------------------------------ one shape

_W = {}


def worker_init(mir_path, srcdir):
    prog = mirsym.Program(open(mir_path).read(), srcdir)
    _W["prog"] = prog
    _W["quote"] = prog.find(r"^(arg::)?quote$")
    _W["split"] = prog.find(r"^(arg::)?split$")


def new_engine():
    return oblig.engine(_W["prog"], unroll=80, inline=INL, extra=strsum.STR, solver_timeout_ms=60000)


def model_bytes(m, items):
    out = bytearray()
    for b in items:
        v = m.eval(b, model_completion=True)
        out.append(v.as_long())
    return bytes(out)


def eq_bytes(a_items, b_items):
    if len(a_items) != len(b_items):
        return z3.BoolVal(False)
    return z3.And(*[x == y for x, y in zip(a_items, b_items)]) if a_items else z3.BoolVal(True)


def check_shape(shape):
    """returns dict(shape, queries, solver_s, paths, cex=[{oracle, input hex, detail}], error)"""
    t0 = time.time()
    res = {"shape": list(shape), "queries": 0, "paths": 0, "cex": [], "error": None}
    try:
        items, cons = build(shape)
        e = new_engine()
        x = Str(items, "OsString")
        qpaths = e.run(_W["quote"], args=[x], pre=cons)
        for p in qpaths:
            res["paths"] += 1
            if p.status != "return" or not isinstance(p.result, Str):
                r = e.check(*p.pc)
                if r == z3.sat:
                    e.solver.push(); e.solver.add(*p.pc); e.solver.check(); m = e.solver.model(); e.solver.pop()
                    res["cex"].append({"oracle": "quote", "input": model_bytes(m, items).hex(), "detail": "quote ended with %s %s" % (p.status, p.note[:80])})
                continue
            line = p.result
            # ---- fclones' own splitter
            e2 = new_engine()
            mem = dict(p.mem)
            mem["line"] = line
            spaths = e2.run(_W["split"], args=[Ref("line", (), False)], pre=list(p.pc), mem=mem)
            for q in spaths:
                res["paths"] += 1
                good = None
                if q.status == "return" and isinstance(q.result, EnumV) and q.result.variant == "Ok":
                    lst = q.result.fields.get(0)
                    if isinstance(lst, ListV) and len(lst.items) == 1:
                        w = lst.items[0]
                        ws = w.fields.get(0) if isinstance(w, Agg) else None
                        if isinstance(ws, Str):
                            good = eq_bytes(list(ws.items), items)
                    if good is None:
                        good = z3.BoolVal(False)
                elif q.status in ("abort", "bound"):
                    res["error"] = "split path %s: %s" % (q.status, q.note[:160])
                    continue
                else:
                    good = z3.BoolVal(False)
                r = e2.check(*(list(q.pc) + [z3.Not(good)]))
                if r == z3.sat:
                    e2.solver.push(); e2.solver.add(*q.pc); e2.solver.add(z3.Not(good)); e2.solver.check(); m = e2.solver.model(); e2.solver.pop()
                    res["cex"].append({"oracle": "split", "input": model_bytes(m, items).hex(), "quoted": model_bytes(m, line.items).hex(),
                                       "detail": "split(quote(x)) %s %s" % (q.status, (q.note or repr(q.result))[:100])})
                elif r == z3.unknown:
                    res["error"] = "solver unknown"
            res["queries"] += e2.queries
            # ---- bash reference
            st = mirsym.State()
            st.pc = list(p.pc)
            for c, ok, bs in bashdec_alts(e, st, list(line.items)):
                good = eq_bytes(bs, items) if ok else z3.BoolVal(False)
                terms = list(p.pc) + ([c] if c is not None else []) + [z3.Not(good)]
                r = e.check(*terms)
                if r == z3.sat:
                    e.solver.push(); e.solver.add(*terms); e.solver.check(); m = e.solver.model(); e.solver.pop()
                    res["cex"].append({"oracle": "bash", "input": model_bytes(m, items).hex(), "quoted": model_bytes(m, line.items).hex(),
                                       "detail": "bash would not print the argument back"})
        res["queries"] += e.queries
    except Inconclusive as ex:
        res["error"] = str(ex)[:300]
    except Exception as ex:      # noqa
        import traceback
        res["error"] = "internal: " + traceback.format_exc()[-400:]
    res["wall"] = round(time.time() - t0, 2)
    return res


def concrete_eval(bs):
    """model-predicted quote(x) and split(quote(x)) for concrete bytes (translator validation)"""
    items = [B8(b) for b in bs]
    e = new_engine()
    qpaths = [p for p in e.run(_W["quote"], args=[Str(items, "OsString")])]
    if len(qpaths) != 1 or not isinstance(qpaths[0].result, Str):
        return {"Q": "?", "S": "?"}
    line = qpaths[0].result
    qhex = bytes(strsum.isconst(b) for b in line.items).hex()
    e2 = new_engine()
    mem = dict(qpaths[0].mem)
    mem["line"] = line
    sp = e2.run(_W["split"], args=[Ref("line", (), False)], mem=mem)
    if len(sp) != 1:
        return {"Q": qhex, "S": "?%d" % len(sp)}
    q = sp[0]
    if q.status == "panic" or q.status == "diverge":
        s = "panic"
    elif isinstance(q.result, EnumV) and q.result.variant == "Err":
        s = "err"
    elif isinstance(q.result, EnumV) and q.result.variant == "Ok":
        ws = []
        for w in q.result.fields[0].items:
            ws.append(bytes(strsum.isconst(b) for b in w.fields[0].items).hex())
        s = "ok:" + ",".join(ws)
    else:
        s = "?" + q.status
    return {"Q": qhex, "S": s}


def validate_case(bs):
    try:
        return (bs.hex(), concrete_eval(bs))
    except Exception as ex:  # noqa
        return (bs.hex(), {"Q": "!", "S": "!" + str(ex)[:80]})


# ------------------------------------------------------------------ main

def shapes_for_tier():
    sh = []
    for n in (1, 2):
        sh += list(itertools.product(ALL_CLASSES, repeat=n))
    sh += list(itertools.product(REDUCED, repeat=3))
    if tier() == "thorough":
        sh += [s for s in itertools.product(ALL_CLASSES, repeat=3) if s not in set(sh)]
        sh += list(itertools.product(["INERT", "SQ", "BS", "NL", "U2", "HIGH"], repeat=4))
    return sh


def run():
    rep = Report(
        "C17", "other",
        "Bounded symbolic execution of the MIR of arg::quote, arg::split (complete state machine), to_stfu8, from_stfu8 and append "
        "with strings as lists of symbolic bytes of concrete length; arguments are built from tokens that are classes of "
        "bytes (the solver chooses the values): all shapes of <= 2 tokens over 17 classes and of 3 tokens over 9 classes "
        "(thorough: 3 tokens over all classes, 4 over 6).  z3 decides split(quote(x)) == [x] and bashdec(quote(x)) == x for "
        "every value in every shape; the stfu8 model and the whole encoding are validated natively against the real code "
        "on concrete inputs each run (translator validation); counterexamples are replayed with the real functions and real bash.",
        assumptions=["reference model of the stfu8 crate (validated natively on all 1-byte and selected 2/3-byte inputs each run)",
                     "reference semantics of bash words: bare, '...', $'...' (validated by the bash replay of every counterexample)",
                     "arguments are non-empty and contain no NUL"],
        outside=["arguments longer than 4 tokens", "join of more than 3 arguments", "interactive-shell expansions (history)"])
    ctx = oblig.Ctx()
    mir_path = os.path.join(scratch_root(), "lib.mir")
    # reuse the dump made by Ctx
    prog = ctx.lib
    open(mir_path, "w").write("\n\n".join(f.text for f in prog.fns.values()))
    srcdir = ctx.srcdir
    shapes = shapes_for_tier()
    import random
    random.Random(seed()).shuffle(shapes)
    t0 = time.time()
    with multiprocessing.Pool(14, initializer=worker_init, initargs=(mir_path, srcdir)) as pool:
        results = pool.map(check_shape, shapes, chunksize=4)
        # translator validation inputs
        alphabet = [0x61, 0x20, 0x27, 0x5C, 0x22, 0x24, 0x23, 0x0A, 0x09, 0x7E, 0x01, 0x7F, 0xC5, 0xBC, 0xFF, 0xE2, 0x82, 0xAC, 0x2A, 0x80]
        cases = [bytes([b]) for b in range(1, 256)]
        cases += [bytes(p) for p in itertools.product(alphabet, repeat=2)]
        rnd = random.Random(seed() + 1)
        cases += [bytes(rnd.choice(alphabet) for _ in range(3)) for _ in range(300)]
        cases += [bytes(rnd.choice(alphabet) for _ in range(rnd.randint(4, 6))) for _ in range(100)]
        predicted = dict(pool.map(validate_case, cases, chunksize=16))
    wall = time.time() - t0

    # native truth
    sys.path.insert(0, os.path.join(VERIF, "replay"))
    import arg_native
    nsrc = copy_repo("native-src")
    try:
        native = arg_native.ArgNative(nsrc, scratch_root())
    except Exception as ex:  # noqa
        raise Inconclusive("native arg driver: %s" % str(ex)[:300])
    truth = {r["in"]: r for r in native.run(cases)}
    mism = []
    for h, pr in predicted.items():
        t = truth.get(h)
        if t is None or t["Q"] != pr["Q"] or t["S"] != pr["S"]:
            mism.append({"input": h, "model": pr, "real": {k: t.get(k) for k in ("Q", "S")} if t else None})
    ov = Obligation("translator validation: model-predicted quote/split == real functions on %d concrete inputs" % len(cases),
                    "E2 validation", ["arg::quote", "arg::split", "stfu8 model"], "all 1-byte inputs, 400 2-byte, 400 longer")
    ov.queries = len(cases)
    ov.verdict = "holds" if not mism else "inconclusive"
    ov.detail = "" if not mism else "encoding disagrees with the real code, e.g. %s" % json.dumps(mism[0])[:300]
    ov.stats = {"traces_validated": len(cases) - len(mism)}
    rep.add(ov)

    # collect
    cex = [dict(c, shape=r["shape"]) for r in results for c in r["cex"]]
    errors = [r for r in results if r["error"]]
    nq = sum(r["queries"] for r in results)
    npaths = sum(r["paths"] for r in results)
    rep.extra.update({"shapes": len(shapes), "paths_explored": npaths, "classes": ALL_CLASSES,
                      "symbolic_exec_wall_s": round(wall, 1)})
    fns = ["arg::quote#" + mirsym.text_hash(prog.find(r"^(arg::)?quote$").text), "arg::split#" + mirsym.text_hash(prog.find(r"^(arg::)?split$").text),
           "to_stfu8#" + mirsym.text_hash(prog.find(r"^(arg::)?to_stfu8$").text), "from_stfu8#" + mirsym.text_hash(prog.find(r"^(arg::)?from_stfu8$").text),
           "arg::append#" + mirsym.text_hash(prog.find(r"^(arg::)?append$").text)]
    for oracle, title, key in (("split", "split(quote(x)) == [x] for every argument of the shapes", "quote-split"),
                               ("bash", "bash prints quote(x) back as x (reference decoder)", "quote-bash"),
                               ("quote", "quote(x) terminates normally", "quote-total")):
        o = Obligation(title, "E2 mirsym/z3 (byte-list strings)", fns, "%d shapes, <= %d tokens" % (len(shapes), max(len(s) for s in shapes)))
        o.queries = nq // 3
        o.stats = {"shapes": len(shapes), "paths": npaths}
        mine = [c for c in cex if c["oracle"] == oracle]
        if errors and not mine:
            o.verdict, o.detail = "inconclusive", "%d shapes not decided, e.g. %s: %s" % (len(errors), errors[0]["shape"], errors[0]["error"][:200])
        elif not mine:
            o.verdict = "holds"
            o.witness = "%d shapes decided, %d symbolic paths" % (len(shapes) - len(errors), npaths)
        else:
            groups = classify(mine)
            confirm(o, groups, native, oracle)
            # at most 6 defect classes are reported one by one (the evidence keeps the count of the rest)
            conf = [g for g in groups if g.get("confirmed")]
            if len(conf) > 6:
                o.stats["further_confirmed_classes"] = len(conf) - 6
                keep = set(id(g) for g in conf[:6])
                groups = [g for g in groups if not g.get("confirmed") or id(g) in keep]
            if o.verdict == "violated":
                # one obligation per defect class so that known findings stay specific
                first = True
                for g in groups:
                    if not g.get("confirmed"):
                        continue
                    og = o if first else Obligation(title, o.engine, fns, o.bounds)
                    og.verdict = "violated"
                    og.key = "%s:%s" % (key, g["role"])
                    og.cex = {"role": g["role"], "examples": g["examples"][:5], "native": g.get("native")}
                    og.detail = "%s: e.g. argument %s -> %s; replayed natively: %s" % (g["role"], g["examples"][0]["input"], g["examples"][0].get("quoted"), g.get("native"))
                    og.stats = dict(o.stats, traces_validated=1)
                    og.queries = o.queries if first else 0
                    if not first:
                        rep.add(og)
                    first = False
        rep.add(o)
    return rep


def classify(cexs):
    """group counterexamples by role (input class), never by model values"""
    groups = {}
    for c in cexs:
        b = bytes.fromhex(c["input"])
        q = bytes.fromhex(c.get("quoted", ""))
        multibyte = any(x >= 0x80 for x in b)
        if c["oracle"] == "split" and q.startswith(b"$'") and multibyte:
            role = "dollar-quoted-with-multibyte-char"
        elif c["oracle"] == "bash" and b[:1] == b"~":
            role = "leading-tilde-unquoted"
        elif c["oracle"] == "bash" and not q.startswith((b"'", b"$'")):
            role = "bare-word-with-shell-special-char"
        else:
            role = "%s:%s" % (c["oracle"], "-".join(c["shape"]))
        g = groups.setdefault(role, {"role": role, "examples": []})
        g["examples"].append(c)
    return list(groups.values())


def confirm(o, groups, native, oracle):
    """replay: real quote/split natively; real bash for the bash oracle"""
    any_conf = False
    for g in groups:
        ex = g["examples"][:6]
        inputs = [bytes.fromhex(c["input"]) for c in ex]
        real = native.run(inputs)
        ok = False
        for c, r in zip(ex, real):
            if oracle in ("split", "quote"):
                if r["S"] != "ok:" + c["input"]:
                    ok = True
                    g["native"] = "real split(quote(%s)) = %s" % (c["input"], r["S"])
                    break
            else:
                q = bytes.fromhex(r["Q"]) if r["Q"] != "panic" else None
                if q is None:
                    continue
                try:
                    p = subprocess.run(["bash", "-c", b"printf %s " + q], stdout=subprocess.PIPE, stderr=subprocess.PIPE, timeout=20,
                                       env={"HOME": "/nonexistent-home", "PATH": "/usr/bin:/bin", "LC_ALL": "C"}, cwd="/")
                    if p.stdout != bytes.fromhex(c["input"]):
                        ok = True
                        g["native"] = "bash -c 'printf %%s %s' printed %r instead of %r" % (q.decode(errors="replace"), p.stdout[:40], bytes.fromhex(c["input"]))
                        break
                except Exception as exn:  # noqa
                    g["native"] = "bash replay failed: %s" % exn
        g["confirmed"] = ok
        any_conf = any_conf or ok
    if any_conf:
        o.verdict = "violated"
    else:
        o.verdict = "inconclusive"
        o.detail = "solver counterexamples did not reproduce with the real functions / bash: %s" % json.dumps(groups[0]["examples"][0])[:300]
