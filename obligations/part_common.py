"""Turns the shared partition analysis into obligations for one property."""
import json

import oblig
from common import Inconclusive, Obligation
from obligations import dedupe_part as dp

TITLES = {
    "no-loss-no-dup": "partition: exactly the regular files of the recorded length are classified, each once",
    "atomic-subgroups": "partition: the paths of one sub-group (hard-link set / isolate root) are kept or dropped as a whole",
    "patterns": "partition: a sub-group with a path matching a keep pattern or failing the drop patterns is never dropped",
    "retention-count": "partition: max(1, n) sub-groups (all, if fewer) are retained before anything is dropped",
    "top-up-order": "partition: protected sub-groups are kept; the others are kept from the front of the report order until n are kept",
    "stale-filter": "partition: only regular files whose length equals the recorded one (unless the size check is off) are eligible",
    "data-retained": "partition: whenever something is dropped, at least one retained path is not a symbolic link (a retained link may point to a dropped file)",
    "subgroup-args": "partition: sub-groups are formed with the configuration's isolate roots and by file id unless --match-links, whatever else is configured",
    "mtime-check": "partition: with a time limit, every eligible file passed the modification-time check before anything is classified",
}
_cache = {}


def analysis(prog):
    if "res" not in _cache:
        _cache["res"] = dp.run_partition_obligations(prog, (2, 3))
    return _cache["res"]


def add(rep, prog, names, prop, replayer=None):
    try:
        res, encoded = analysis(prog)
    except Inconclusive as ex:
        o = Obligation("partition analysis", "E2 mirsym/z3")
        o.verdict, o.detail = "inconclusive", str(ex)
        rep.add(o)
        return
    fns = sorted("%s#%s" % (k[-60:], v) for k, v in encoded.items())
    for n in names:
        r = res[n]
        o = Obligation(TITLES[n], "E2 mirsym/z3 (list model)", fns, "groups of 2 and 3 files, every distribution over sub-groups (7 patterns), no priority options")
        o.key = "partition:" + n
        o.queries = r["queries"]
        o.stats = {"paths": r["paths"], "states": r["paths"], "transitions": r["queries"]}
        if r["cex"]:
            o.verdict = "violated"
            o.cex = {"examples": r["cex"][:3]}
            c = r["cex"][0]
            o.detail = "e.g. %d files, sub-groups %s: to_keep=%s to_drop=%s" % (c["files"], c["subgroups"], c["to_keep"], c["to_drop"])
            if replayer:
                replayer(o, n, c)
        elif r["errors"]:
            o.verdict, o.detail = "inconclusive", r["errors"][0]
        else:
            o.verdict = "holds"
            o.witness = "%d symbolic paths of partition, %d validity queries" % (r["paths"], r["queries"])
        rep.add(o)


def make_replayer(ctx):
    """native confirmation through replay/partition_replay.py (real partition on real hard-link sets vs. documented semantics)"""
    import os
    import sys
    from common import VERIF, copy_repo, scratch_root
    state = {}

    def rp(o, name, c):
        sys.path.insert(0, os.path.join(VERIF, "replay"))
        import partition_replay
        m = c.get("model", {})
        n = c["files"]

        def mb(prefix, i, default):
            for k, v in m.items():
                if k.startswith(prefix) and ("f%d." % i) in k:
                    return bool(v)
            return default
        rf = None
        if m.get("config*.rf_over#d") == 1:
            rf = max(0, min(int(m.get("config*.rf_over@Some.0", 1)), 4))
        sc = dict(blocks=c["subgroups"], keep=[mb("should_keep", i, False) for i in range(n)], maydrop=[mb("may_drop", i, True) for i in range(n)],
                  rf=rf, mtime="old" if name == "mtime-check" else "none")
        grid = []
        for blocks in ([[0], [1]], [[0, 1]], [[0], [1], [2]], [[0, 1], [2]], [[0], [1, 2]], [[0, 2], [1]], [[0, 1, 2]]):
            k = sum(len(b) for b in blocks)
            for r in (None, 1, 2, 3):
                for km in range(2 ** k):
                    grid.append(dict(blocks=blocks, keep=[bool(km >> i & 1) for i in range(k)], maydrop=[True] * k, rf=r, mtime="none"))
                grid.append(dict(blocks=blocks, keep=[False] * k, maydrop=[i != 0 for i in range(k)], rf=r, mtime="none"))
            grid.append(dict(blocks=blocks, keep=[False] * k, maydrop=[True] * k, rf=1, mtime="old"))
            # only one sub-group is newer than the limit: the whole group must still be skipped
            for nb in range(len(blocks)):
                grid.append(dict(blocks=blocks, keep=[False] * k, maydrop=[True] * k, rf=1, mtime="t2020", newer=[nb]))
            grid.append(dict(blocks=blocks, keep=[False] * k, maydrop=[True] * k, rf=1, mtime="t2020", newer=[]))
        if "src" not in state:
            state["src"] = copy_repo("replay-src")
        try:
            devs = partition_replay.deviations(state["src"], scratch_root(), [sc] + grid)
        except Exception as ex:  # noqa
            o.verdict, o.detail = "inconclusive", "native partition replay failed: %s" % str(ex)[:200]
            return
        o.cex["native_replay"] = {"scenarios": 1 + len(grid), "deviations": devs[:3]}
        if devs:
            o.stats["traces_validated"] = 1
            o.detail += "; replayed natively: real partition on %s gives %s, documented %s" % (
                json.dumps(devs[0]["scenario"])[:160], devs[0]["real"], devs[0]["documented"])
        else:
            # left as an unconfirmed counterexample: the report's battery (if any) may still confirm it, otherwise Report.add turns
            # it into `inconclusive`
            o.detail += "; the real partition on real files (grid of %d scenarios) shows no deviation" % (1 + len(grid))
    return rp
