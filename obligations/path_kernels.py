"""Kernels of path.rs shared by several properties: Path::hash128 (C03: same-path collapsing) and Path::is_prefix_of
(C06/C08/C14: --isolate roots).

hash128 (E2): the value is an injective combination of the two 64-bit halves of MetroHash128::finish128 (z3), the hasher is fed by
`<Path as Hash>::hash` and nothing else, and that (derived) implementation hashes both fields - the parent chain and the
component - through std's prefix-free Hash encodings (Option discriminant, length-prefixed byte slices), so two paths with
different component sequences feed different byte streams.  A counterexample is abstract (the hasher is a leaf); it is confirmed
natively by searching a colliding pair among short paths with the real hash128 (replay/path_test.rs)."""
import itertools
import os
import re
import sys

import z3

import mirsym
import oblig
from common import Inconclusive, Obligation, VERIF, copy_repo, scratch_root
from mirsym import Agg, Bool, Int, Lazy, Ref

_drv = {}


def path_driver():
    if "d" not in _drv:
        sys.path.insert(0, os.path.join(VERIF, "replay"))
        import native_driver
        src = copy_repo("path-replay-src")
        _drv["d"] = native_driver.NativeDriver(src, scratch_root(), [("path", "path_test.rs", "verif_path_test")])
    return _drv["d"]


PATH_TEST = "path::verif_path_test::verif_path_driver"


def hx(s):
    return s.encode().hex() if s else "-"


def short_paths(alpha="ab", maxlen=4, absolute=False):
    out = []
    for n in range(1, maxlen + 1):
        for t in itertools.product(alpha + "/", repeat=n):
            s = "".join(t)
            if s.startswith("/") or s.endswith("/") or "//" in s:
                continue
            out.append(("/" + s) if absolute else s)
    return out


def hash_collision_search():
    """distinct short paths with equal real hash128"""
    drv = path_driver()
    ps = short_paths("ab", 5)
    out = drv.run(PATH_TEST, ["H " + " ".join(hx(p) for p in ps)], "h128")
    hs = out[0].split()
    seen = {}
    for p, h in zip(ps, hs):
        if h in seen and seen[h] != p:
            return seen[h], p, h
        seen[h] = p
    return None


def hash128_obligations(rep, prog, prop_tag):
    f = prog.method("Path", "hash128")
    eng = oblig.engine(prog, inline=None)
    selfv = Lazy("self", f.args[0][1])
    ps = eng.run(f, args=[selfv])
    o = Obligation("Path::hash128 = injective combination of both halves of the 128-bit hash of `<Path as Hash>::hash(self)` and of nothing else",
                   "E2 mirsym/z3", oblig.fnames(eng), "loop-free, 128-bit")
    o.key = "path:hash128"
    verdict, detail = "holds", ""
    n = 0
    for p in ps:
        if p.status in ("abort", "bound"):
            verdict, detail = "inconclusive", "path %s: %s" % (p.status, p.note[:120])
            break
        if p.status != "return":
            continue
        n += 1
        hs = [ev for ev in p.events if re.search(r"<(path::)?Path as (std::hash::)?Hash>::hash$", ev.callee)]
        fin = [ev for ev in p.events if re.search(r"finish128$", ev.callee)]
        feeds = [ev for ev in p.events if re.search(r"Hasher>::write|::write(_\w+)?$|for_each_component|Hash>::hash$", ev.callee) and ev not in hs]
        if len(hs) != 1 or len(fin) != 1 or feeds or hs[0].args[0] is not selfv:
            verdict = "violated"
            detail = "the hasher is not fed by exactly one `<Path as Hash>::hash(self)` call (events: %s)" % [ev.callee for ev in p.events][:8]
            break
        # injectivity of the combination of the two halves
        r = p.result
        if not isinstance(r, Int):
            verdict, detail = "inconclusive", "result is not an integer term"
            break
        vars_ = [v for v in z3.z3util.get_vars(r.t)]
        prim = [z3.BitVec(str(v) + "_prime", v.size()) for v in vars_]
        r2 = z3.substitute(r.t, *zip(vars_, prim))
        o.queries += 1
        differ = z3.Or(*[a != b for a, b in zip(vars_, prim)]) if vars_ else z3.BoolVal(False)
        total_bits = sum(v.size() for v in vars_)
        if total_bits < 128 or eng.check(*(list(p.pc) + [r.t == r2, differ])) != z3.unsat:
            verdict = "violated"
            detail = "the 128-bit result does not determine both halves of finish128 (bits of entropy: %d)" % total_bits
            break
    if verdict == "holds" and n == 0:
        verdict, detail = "inconclusive", "vacuous"
    o.verdict, o.detail = verdict, detail
    o.witness = "%d returning paths" % n
    o.stats = {"paths": len(ps), "states": len(ps), "transitions": eng.stats.get("blocks", 0)}
    o.solver_s = eng.solver_s

    # the Hash implementation of Path
    hf = [g for nme, g in prog.fns.items() if re.search(r"^path::<impl at fclones/src/path\.rs:[\d: ]+>::hash$", nme)]
    o2 = Obligation("<Path as Hash>::hash feeds the parent chain and the component through std's prefix-free encodings, both into the given hasher",
                    "E2 mirsym/z3", [], "loop-free")
    o2.key = "path:hash-impl"
    if len(hf) != 1:
        o2.verdict, o2.detail = "inconclusive", "%d candidates for the Hash implementation of Path in the MIR" % len(hf)
    else:
        eng2 = oblig.engine(prog, inline=None)
        sv, st = Lazy("self", hf[0].args[0][1]), Lazy("state", hf[0].args[1][1])
        qs = eng2.run(hf[0], args=[sv, st])
        o2.functions = oblig.fnames(eng2)
        v2, d2, m = "holds", "", 0
        for q in qs:
            if q.status in ("abort", "bound"):
                v2, d2 = "inconclusive", "path %s" % q.status
                break
            if q.status != "return":
                continue
            m += 1
            hcalls = [ev for ev in q.events if re.search(r" as (std::hash::)?Hash>::hash$", ev.callee)]
            other = [ev for ev in q.events if re.search(r"Hasher>::|::write", ev.callee)]
            tys = sorted(re.sub(r"^<(.*) as .*$", r"\1", ev.callee) for ev in hcalls)
            fields = sorted(oblig_fields(ev.args[0]) for ev in hcalls)
            ok = (len(hcalls) == 2 and not other and fields == [(0,), (1,)]
                  and any("Option<" in t and "Path" in t for t in tys) and any("CString" in t for t in tys)
                  and all(ev.args[1] is st for ev in hcalls))
            if not ok:
                v2 = "violated"
                d2 = "Hash for Path does not hash exactly its two fields with std's Hash implementations: %s" % [ev.callee for ev in q.events][:6]
                break
        if v2 == "holds" and m == 0:
            v2, d2 = "inconclusive", "vacuous"
        o2.verdict, o2.detail = v2, d2
        o2.witness = "%d returning paths" % m
        o2.stats = {"paths": len(qs), "states": len(qs), "transitions": eng2.stats.get("blocks", 0)}
    for ob in (o, o2):
        if ob.verdict == "violated":
            try:
                col = hash_collision_search()
            except Exception as ex:   # noqa
                col = None
                ob.detail += " (native driver: %s)" % str(ex)[-200:]
            if col:
                ob.stats["traces_validated"] = 1
                ob.cex = {"path_a": col[0], "path_b": col[1], "hash128": col[2]}
                ob.detail += "; replayed natively: distinct paths %r and %r have the same hash128 %s" % col
            else:
                ob.verdict = "inconclusive"
                ob.detail += "; no colliding pair among short paths with the real hash128"
        rep.add(ob)


def oblig_fields(r):
    if isinstance(r, Ref):
        return tuple(x[1] for x in r.path if x and x[0] == "field")
    return None
