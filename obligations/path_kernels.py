"""Kernels of path.rs shared by several properties: Path::hash128 (C03: same-path collapsing) and Path::is_prefix_of
(C06/C08/C14: --isolate roots).

hash128 (E2): the value is an injective combination of the two 64-bit halves of MetroHash128::finish128 (z3), the hasher is fed by
`<Path as Hash>::hash` and nothing else, and that (derived) implementation hashes both fields - the parent chain and the
component - through std's prefix-free Hash encodings (Option discriminant, length-prefixed byte slices), so two paths with
different component sequences feed different byte streams.  A counterexample is abstract (the hasher is a leaf); it is confirmed
natively by searching a colliding pair among short paths with the real hash128 (replay/path_test.rs)."""
import itertools
import os
import re
import sys

import z3

import mirsym
import oblig
from common import Inconclusive, Obligation, VERIF, copy_repo, scratch_root
from mirsym import Agg, Bool, Int, Lazy, Ref

_drv = {}


def path_driver():
    if "d" not in _drv:
        sys.path.insert(0, os.path.join(VERIF, "replay"))
        import native_driver
        src = copy_repo("path-replay-src")
        _drv["d"] = native_driver.NativeDriver(src, scratch_root(), [("path", "path_test.rs", "verif_path_test")])
    return _drv["d"]


PATH_TEST = "path::verif_path_test::verif_path_driver"


def hx(s):
    return s.encode().hex() if s else "-"


def short_paths(alpha="ab", maxlen=4, absolute=False):
    out = []
    for n in range(1, maxlen + 1):
        for t in itertools.product(alpha + "/", repeat=n):
            s = "".join(t)
            if s.startswith("/") or s.endswith("/") or "//" in s:
                continue
            out.append(("/" + s) if absolute else s)
    return out


def hash_collision_search():
    """distinct short paths with equal real hash128"""
    drv = path_driver()
    ps = short_paths("ab", 5)
    out = drv.run(PATH_TEST, ["H " + " ".join(hx(p) for p in ps)], "h128")
    hs = out[0].split()
    seen = {}
    for p, h in zip(ps, hs):
        if h in seen and seen[h] != p:
            return seen[h], p, h
        seen[h] = p
    return None


def hash128_obligations(rep, prog, prop_tag):
    f = prog.method("Path", "hash128")
    eng = oblig.engine(prog, inline=None)
    selfv = Lazy("self", f.args[0][1])
    ps = eng.run(f, args=[selfv])
    o = Obligation("Path::hash128 = injective combination of both halves of the 128-bit hash of `<Path as Hash>::hash(self)` and of nothing else",
                   "E2 mirsym/z3", oblig.fnames(eng), "loop-free, 128-bit")
    o.key = "path:hash128"
    verdict, detail = "holds", ""
    n = 0
    for p in ps:
        if p.status in ("abort", "bound"):
            verdict, detail = "inconclusive", "path %s: %s" % (p.status, p.note[:120])
            break
        if p.status != "return":
            continue
        n += 1
        hs = [ev for ev in p.events if re.search(r"<(path::)?Path as (std::hash::)?Hash>::hash$", ev.callee)]
        fin = [ev for ev in p.events if re.search(r"finish128$", ev.callee)]
        feeds = [ev for ev in p.events if re.search(r"Hasher>::write|::write(_\w+)?$|for_each_component|Hash>::hash$", ev.callee) and ev not in hs]
        if len(hs) != 1 or len(fin) != 1 or feeds or hs[0].args[0] is not selfv:
            verdict = "violated"
            detail = "the hasher is not fed by exactly one `<Path as Hash>::hash(self)` call (events: %s)" % [ev.callee for ev in p.events][:8]
            break
        # injectivity of the combination of the two halves
        r = p.result
        if not isinstance(r, Int):
            verdict, detail = "inconclusive", "result is not an integer term"
            break
        vars_ = [v for v in z3.z3util.get_vars(r.t)]
        prim = [z3.BitVec(str(v) + "_prime", v.size()) for v in vars_]
        r2 = z3.substitute(r.t, *zip(vars_, prim))
        o.queries += 1
        differ = z3.Or(*[a != b for a, b in zip(vars_, prim)]) if vars_ else z3.BoolVal(False)
        total_bits = sum(v.size() for v in vars_)
        if total_bits < 128 or eng.check(*(list(p.pc) + [r.t == r2, differ])) != z3.unsat:
            verdict = "violated"
            detail = "the 128-bit result does not determine both halves of finish128 (bits of entropy: %d)" % total_bits
            break
    if verdict == "holds" and n == 0:
        verdict, detail = "inconclusive", "vacuous"
    o.verdict, o.detail = verdict, detail
    o.witness = "%d returning paths" % n
    o.stats = {"paths": len(ps), "states": len(ps), "transitions": eng.stats.get("blocks", 0)}
    o.solver_s = eng.solver_s

    # the Hash implementation of Path
    hf = [g for nme, g in prog.fns.items() if re.search(r"^path::<impl at fclones/src/path\.rs:[\d: ]+>::hash$", nme)]
    o2 = Obligation("<Path as Hash>::hash feeds the parent chain and the component through std's prefix-free encodings, both into the given hasher",
                    "E2 mirsym/z3", [], "loop-free")
    o2.key = "path:hash-impl"
    if len(hf) != 1:
        o2.verdict, o2.detail = "inconclusive", "%d candidates for the Hash implementation of Path in the MIR" % len(hf)
    else:
        eng2 = oblig.engine(prog, inline=None)
        sv, st = Lazy("self", hf[0].args[0][1]), Lazy("state", hf[0].args[1][1])
        qs = eng2.run(hf[0], args=[sv, st])
        o2.functions = oblig.fnames(eng2)
        v2, d2, m = "holds", "", 0
        for q in qs:
            if q.status in ("abort", "bound"):
                v2, d2 = "inconclusive", "path %s" % q.status
                break
            if q.status != "return":
                continue
            m += 1
            hcalls = [ev for ev in q.events if re.search(r" as (std::hash::)?Hash>::hash$", ev.callee)]
            other = [ev for ev in q.events if re.search(r"Hasher>::|::write", ev.callee)]
            tys = sorted(re.sub(r"^<(.*) as .*$", r"\1", ev.callee) for ev in hcalls)
            fields = sorted(oblig_fields(ev.args[0]) for ev in hcalls)
            ok = (len(hcalls) == 2 and not other and fields == [(0,), (1,)]
                  and any("Option<" in t and "Path" in t for t in tys) and any("CString" in t for t in tys)
                  and all(ev.args[1] is st for ev in hcalls))
            if not ok:
                v2 = "violated"
                d2 = "Hash for Path does not hash exactly its two fields with std's Hash implementations: %s" % [ev.callee for ev in q.events][:6]
                break
        if v2 == "holds" and m == 0:
            v2, d2 = "inconclusive", "vacuous"
        o2.verdict, o2.detail = v2, d2
        o2.witness = "%d returning paths" % m
        o2.stats = {"paths": len(qs), "states": len(qs), "transitions": eng2.stats.get("blocks", 0)}
    for ob in (o, o2):
        if ob.verdict == "violated":
            try:
                col = hash_collision_search()
            except Exception as ex:   # noqa
                col = None
                ob.detail += " (native driver: %s)" % str(ex)[-200:]
            if col:
                ob.stats["traces_validated"] = 1
                ob.cex = {"path_a": col[0], "path_b": col[1], "hash128": col[2]}
                ob.detail += "; replayed natively: distinct paths %r and %r have the same hash128 %s" % col
            else:
                ob.verdict = "inconclusive"
                ob.detail += "; no colliding pair among short paths with the real hash128"
        rep.add(ob)


def oblig_fields(r):
    if isinstance(r, Ref):
        return tuple(x[1] for x in r.path if x and x[0] == "field")
    return None


# ------------------------------------------------------------------ Path::is_prefix_of

def _full_deref(e, st, v, depth=6):
    from summaries import deref_val
    for _ in range(depth):
        if isinstance(v, Ref):
            v = deref_val(e, st, v)
        else:
            break
    return v


def s_cstr_cmp(e, st, callee, args, dty):
    """PartialEq on (references to) components: components are modelled as symbolic 8-bit identities"""
    a, b = _full_deref(e, st, args[0]), _full_deref(e, st, args[1])
    if isinstance(a, Int) and isinstance(b, Int):
        eq = a.t == b.t
        return Bool(z3.Not(eq) if callee.endswith("::ne") else eq)
    return NotImplemented


def mkpath(name, n):
    """Path value with n components: linked list through Option<Arc<Path>> parents, component i = symbolic identity"""
    from mirsym import EnumV
    p = None
    comps = []
    for i in range(n):
        par = EnumV("Option", "Some", 1, {0: Agg("Arc", {0: p})}) if p is not None else EnumV("Option", "None", 0, {})
        c = z3.BitVec("%s%d" % (name, i), 8)
        comps.append(c)
        p = Agg("Path", {0: par, 1: Int(c, "u8")})
    return p, comps


def prefix_driver_search():
    """native: real Path::is_prefix_of against the component-wise definition on short paths"""
    drv = path_driver()
    ps = short_paths("ab", 4, absolute=True) + short_paths("ab", 3)
    found = None
    lines = ["P %s %s" % (hx(a), " ".join(hx(b) for b in ps)) for a in ps]
    out = drv.run(PATH_TEST, lines, "pfx")
    for a, l in zip(ps, out):
        ca = [c for c in a.split("/")] if not a.startswith("/") else ["/"] + a[1:].split("/")
        for b, bit in zip(ps, l.split()):
            cb = [c for c in b.split("/")] if not b.startswith("/") else ["/"] + b[1:].split("/")
            want = len(ca) <= len(cb) and cb[:len(ca)] == ca
            if (bit == "1") != want:
                return {"a": a, "b": b, "real": bit == "1", "documented": want}
    return found


def is_prefix_of_obligation(rep, prog):
    import listsum
    import optsum
    import summaries
    f = prog.method("Path", "is_prefix_of")
    ip, ic = prog.src.field_index("Path", "parent"), prog.src.field_index("Path", "component")
    o = Obligation("Path::is_prefix_of(a, b) iff a has at most as many components as b and every component of a equals the component of b at the same position",
                   "E2 mirsym/z3 (paths as linked component lists)", [], "paths of 1..3 components each (9 shape pairs), component identities symbolic")
    o.key = "path:is_prefix_of"
    if (ip, ic) != (0, 1):
        o.verdict, o.detail = "inconclusive", "field order of Path changed"
        rep.add(o)
        return
    ex = dict(optsum.SUMMARIES)
    ex.update(listsum.LIST)
    ex[r"SmallVec(::<.*>)?::new$"] = listsum.s_vec_new
    ex[r"SmallVec(::<.*>)?::push$"] = summaries.s_vec_push
    ex[r"^<&*(std::ffi::|core::ffi::)?C(Str|String) as (std::cmp::)?PartialEq(<.*>)?>::(eq|ne)$"] = s_cstr_cmp
    verdict, detail, npaths, nq = "holds", "", 0, 0
    enc = {}
    for na in (1, 2, 3):
        for nb in (1, 2, 3):
            eng = oblig.engine(prog, inline=oblig.module_inliner(prog, "path.rs", r"^$"), extra=ex, unroll=8)
            A, ca = mkpath("a", na)
            B, cb = mkpath("b", nb)
            ps = eng.run(f, args=[Ref("A", (), False), Ref("B", (), False)], mem={"A": A, "B": B})
            enc.update(eng.encoded)
            want = z3.And(z3.BoolVal(na <= nb), *[ca[i] == cb[i] for i in range(min(na, nb))])
            for p in ps:
                npaths += 1
                if p.status in ("abort", "bound"):
                    verdict, detail = "inconclusive", "shape %d/%d: path %s %s" % (na, nb, p.status, p.note[:120])
                    continue
                if p.status != "return":
                    got = None
                else:
                    got = p.result.t if isinstance(p.result, Bool) else None
                hav = [ev for ev in p.events if isinstance(ev.ret, Bool) and z3.is_const(ev.ret.t) and str(ev.ret.t).startswith("h")]
                nq += 1
                bad = eng.check(*(list(p.pc) + ([got != want] if got is not None else [])))
                if bad == z3.sat:
                    eng.solver.push(); eng.solver.add(*p.pc)
                    if got is not None:
                        eng.solver.add(got != want)
                    eng.solver.check(); m = eng.solver.model(); eng.solver.pop()
                    verdict = "violated"
                    detail = "paths of %d and %d components: is_prefix_of %s where the definition says %s (model %s)" % (
                        na, nb, "panics" if got is None else "disagrees", "...", {str(d): m[d] for d in m.decls()[:8]})
                    o.cex = {"components_a": na, "components_b": nb, "havocked_calls": [ev.callee for ev in hav][:4]}
                    break
            if verdict == "violated":
                break
        if verdict == "violated":
            break
    o.functions = sorted("%s#%s" % (k[-60:], v) for k, v in enc.items())
    o.queries = nq
    o.stats = {"paths": npaths, "states": npaths, "transitions": nq}
    o.verdict, o.detail = verdict, detail
    if verdict == "holds" and npaths == 0:
        o.verdict, o.detail = "inconclusive", "vacuous"
    if o.verdict == "violated":
        try:
            dev = prefix_driver_search()
        except Exception as ex_:   # noqa
            dev = None
            o.detail += " (native driver: %s)" % str(ex_)[-200:]
        if dev:
            o.stats["traces_validated"] = 1
            o.cex = dict(o.cex or {}, native=dev)
            o.detail += "; replayed natively: real Path(%r).is_prefix_of(Path(%r)) = %s, by definition %s" % (dev["a"], dev["b"], dev["real"], dev["documented"])
        else:
            o.verdict = "inconclusive"
            o.detail += "; the real is_prefix_of agrees with the definition on all short paths"
    rep.add(o)
