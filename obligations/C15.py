"""C15 - an unreadable or vanishing file affects only itself (kernel level).

E1 (Kani): hasher::scan / stream_hash with a model reader whose k-th read fails (k symbolic): a failed read never yields
           a hash (shared harness with C01).
E2 (mirsym/z3), faults as symbolic results of the environment calls (every I/O call returns an arbitrary Ok/Err):
  * file_hash / hash_file / hash_transformed: Ok only if every I/O step succeeded (or the cache answered); nothing is
    stored in the cache on a failed path; no panic caused by an I/O error;
  * *_or_log_err: Some iff Ok, warning iff the error is not NotFound;
  * the hash closure of every stage returns Some only if the hasher returned Some (a failed file is never given its old
    hash or any other stand-in);
  * rehash's task closure: members are sent iff the hash function returned Some (a failed id-group is dropped alone);
  * file_info_or_log_err / FileInfo::new: a failed stat drops that file only; scan_files' consumer pushes nothing for it;
  * the walk: a failing stat / readlink / read_dir logs a warning and returns normally; run's loop over the roots goes on
    after a root that cannot be stat-ed; entries whose type cannot be determined are skipped individually;
  * update_file_locations: extent lookup failures are swallowed (warning unless ENOENT)."""
import re

import z3

import mirsym
import oblig
import optsum
from common import Inconclusive, Obligation, Report
from mirsym import Agg, Bool, EnumV, Int, Lazy, ListV, Ref
from obligations.C01 import INL, called, run_clo, stage

AB = ("return", "panic", "diverge", "bound")


def disc(ev):
    """discriminant term of an event's Option/Result return value"""
    r = ev.ret
    if isinstance(r, Lazy):
        return z3.BitVec(mirsym.sanitize(r.name + "#d"), 64)
    if isinstance(r, EnumV):
        return z3.BitVecVal(r.idx, 64)
    raise Inconclusive("event %r does not return an enum" % (ev,))


def derives(v, ev, variant):
    return isinstance(v, Lazy) and isinstance(ev.ret, Lazy) and v.name.startswith(ev.ret.name + "@" + variant)


def ok_all(evs):
    return z3.And(*[disc(e) == 0 for e in evs]) if evs else z3.BoolVal(True)


def run():
    rep = Report(
        "C15", "other",
        "Faults as symbolic variables: every I/O call on the analysed paths (open, read, stat, readlink, read_dir, transform "
        "run / wait, extent query, cache) returns an arbitrary Ok/Err chosen by the solver.  Kani/CBMC decides on the compiled "
        "hasher::scan / stream_hash that a failed read at any position never yields a hash; mirsym/z3 decides on the MIR of "
        "the hashers, the four stage closures, rehash's task closure, file_info_or_log_err, scan_files' consumer, the walk "
        "and update_file_locations that an error removes exactly the failing entry (no hash, no stand-in hash, no cache "
        "entry, a warning unless NotFound/ENOENT), that no panic is conditional on an I/O error and that loops over roots "
        "continue after a failing element.",
        assumptions=["environment calls return arbitrary values; their own error reporting is trusted (std::fs, child process)",
                     "id-groups of 2 paths; the roots loop unrolled twice",
                     "model reader of the Kani harness: short reads of 1..asked bytes, failure of the k-th call"],
        outside=["real fault injection at syscall level (end-to-end)", "thread-pool plumbing of rehash (C03 wiring facts)",
                 "the `ignore` crate", "what a failing transform child prints"])
    ctx = oblig.Ctx()
    prog = ctx.lib
    engs = []
    fn = lambda: sorted({x for e in engs for x in oblig.fnames(e)})

    def guarded(name, body):
        try:
            body()
        except Inconclusive as e:
            o = Obligation(name, "E2 mirsym/z3")
            o.verdict, o.detail = "inconclusive", str(e)
            rep.add(o)

    _add = rep.add

    def add_replayed(o):
        if o.verdict == "violated" and o.engine.startswith("E2"):
            replay(o, ctx)
        return _add(o)
    rep.add = add_replayed

    def neweng(unroll=0, inline=None):
        eng = oblig.engine(prog, unroll=unroll, extra=optsum.SUMMARIES, inline=inline)
        engs.append(eng)
        return eng

    # ------------------------------------------------------------------ hashers
    def hashers():
        # The helpers of hasher.rs are inlined down to the leaves (open, stream_hash, Transform::run, HashCache::get/put/key,
        # FileMetadata::new, logging), so the obligations do not depend on how the hashers are factored into functions.
        LEAF = r"(^|::)(open|stream_hash|evict_page_cache_if_low_mem|format_output_stream)$|HashCache::|FileMetadata::new$|Transform::run$|::warn$"

        def inl(c, t):
            return oblig.defined_in(prog, t, "hasher.rs") and not re.search(LEAF, c) and not re.search(LEAF, t.name)

        def leaves(p):
            return dict(get=called(p, r"HashCache::get$"), put=called(p, r"HashCache::put$"), op=called(p, r"(^|::)open$"),
                        sh=called(p, r"(^|::)stream_hash$"), rn=called(p, r"Transform::run$"), wt=called(p, r"Child::wait$|(^|::)wait$"),
                        su=called(p, r"ExitStatus::success$"))

        def from_cache(pl, L):
            return bool(L["get"]) and isinstance(pl, Lazy) and isinstance(L["get"][0].ret, Lazy) and pl.name.startswith(L["get"][0].ret.name + "@Ok")

        hf = prog.method("FileHasher", "hash_file")
        eng = neweng(inline=inl)
        ps = eng.run(hf)

        def p_hash_file(p):
            L = leaves(p)
            io = L["op"] + L["sh"]
            if p.status in ("panic", "diverge"):
                return ok_all(io)
            r = p.result
            if not isinstance(r, EnumV):
                return z3.BoolVal(False)
            if r.variant == "Ok":
                pl = r.fields.get(0)
                if from_cache(pl, L):
                    return z3.And(disc(L["get"][0]) == 0, z3.BoolVal(not L["put"] and not io))
                good = len(L["op"]) == 1 and len(L["sh"]) == 1 and derives(pl, L["sh"][0], "Ok")
                return z3.And(z3.BoolVal(good), ok_all(io))
            return z3.And(z3.BoolVal(not L["put"]), z3.Not(ok_all(io)))
        rep.add(oblig.check_paths(eng, ps, "hash_file: Ok iff cache hit or open+stream_hash succeeded (the hash is the one computed); nothing is put into the cache when hashing failed",
                                  p_hash_file, fn(), key="hash_file:errors", allow=AB))

        ht = prog.method("FileHasher", "hash_transformed")
        eng = neweng(inline=inl)
        ps = eng.run(ht)

        def p_hash_tr(p):
            L = leaves(p)
            io = L["rn"] + L["sh"] + L["wt"]
            succ = [e.ret.t for e in L["su"] if isinstance(e.ret, Bool)]
            if p.status in ("panic", "diverge"):
                # assert_eq!/assert! on the arguments, a poisoned mutex, a missing stderr thread: not caused by an I/O error
                return ok_all(io)
            r = p.result
            if not isinstance(r, EnumV):
                return z3.BoolVal(False)
            all_good = z3.And(ok_all(io), *succ) if succ else ok_all(io)
            # a cache entry may be written only when every step (run, stream, wait, exit status) succeeded
            put_ok = z3.Implies(z3.BoolVal(bool(L["put"])), z3.And(all_good, z3.BoolVal(len(L["wt"]) == 1 and len(L["su"]) == 1)))
            if r.variant == "Ok":
                pl = r.fields.get(0)
                if from_cache(pl, L):
                    return z3.And(disc(L["get"][0]) == 0, z3.BoolVal(not L["put"] and not L["rn"]))
                good = len(L["rn"]) == 1 and len(L["sh"]) == 1 and len(L["wt"]) == 1 and len(L["su"]) == 1 and derives(pl, L["sh"][0], "Ok")
                return z3.And(z3.BoolVal(good), all_good, put_ok)
            return z3.And(z3.Not(all_good), put_ok, z3.BoolVal(not L["put"]))
        rep.add(oblig.check_paths(eng, ps, "hash_transformed: Ok iff cache hit or run, stream_hash, wait succeeded and the child exited with success; nothing is put into the cache otherwise",
                                  p_hash_tr, fn(), key="hash_transformed:errors", allow=AB))

        for meth, inner in (("hash_file_or_log_err", r"FileHasher::hash_file$"), ("hash_transformed_or_log_err", r"FileHasher::hash_transformed$")):
            eng = neweng()
            ps = eng.run(prog.method("FileHasher", meth))

            def p_log(p, inner=inner):
                h, warn, kind = called(p, inner), called(p, r"::warn$"), called(p, r"Error::kind$")
                if len(h) != 1 or not isinstance(h[0].ret, Lazy):
                    return z3.BoolVal(False)
                ok = disc(h[0]) == 0
                r = p.result
                if not isinstance(r, EnumV):
                    return z3.BoolVal(False)
                conj = [z3.BoolVal(r.variant == "Some") == ok]
                if r.variant == "Some":
                    conj.append(z3.BoolVal(derives(r.fields.get(0), h[0], "Ok") and not warn))
                else:
                    # warning iff the error kind is not NotFound
                    if len(kind) != 1:
                        return z3.BoolVal(False)
                    nf = prog.src.variant_index("ErrorKind", "NotFound")
                    kd = disc(kind[0]) if isinstance(kind[0].ret, Lazy) else None
                    if kd is None:
                        return z3.BoolVal(False)
                    conj.append(z3.BoolVal(len(warn) <= 1))
                    conj.append(z3.BoolVal(bool(warn)) == (kd != NOTFOUND_IDX))
                return z3.And(*conj)
            rep.add(oblig.check_paths(eng, ps, "%s: Some(hash) iff Ok; a warning is logged iff the error is not NotFound" % meth,
                                      p_log, fn(), key="hasher:%s:warn" % meth))
    guarded("hashers", hashers)

    # ------------------------------------------------------------------ stage closures
    def stages():
        for stg, hpat in (("group_by_prefix", r"hash_file_or_log_err$"), ("group_by_suffix", r"hash_file_or_log_err$"),
                          ("group_by_contents", r"hash_file_or_log_err$"), ("group_transformed", r"hash_transformed_or_log_err$")):
            sps, seng = stage(prog, stg, engs)
            p = sps[0]
            hclo = oblig.closure_value(called(p, r"(^|::)rehash$")[0].args[5])
            if hclo is None:
                raise Inconclusive("%s: hash closure not identified" % stg)
            mem_p = mirsym.Path.__new__(mirsym.Path)
            mem_p.__dict__.update(p.__dict__)
            mem_p.mem = dict(p.mem)
            mem_p.mem["argfi"] = Lazy("fi", "file::FileInfo")
            arg = Agg("tuple", {0: Ref("argfi", (), True), 1: Lazy("old_hash", "file::FileHash")})
            qs = run_clo(prog, hclo, mem_p, seng, args=[arg], extra=optsum.SUMMARIES)

            def prop(q, hpat=hpat):
                hf = called(q, hpat)
                if q.status == "panic":
                    # arithmetic on lengths may panic (suffix position); never because the hasher failed
                    return z3.BoolVal(True) if not hf else (disc(hf[0]) == 1)
                r = q.result
                if len(hf) != 1:
                    return z3.BoolVal(False)
                some = disc(hf[0]) == 1
                if isinstance(r, Lazy):
                    return z3.BoolVal(r.name == hf[0].ret.name)
                if isinstance(r, EnumV) and r.ty == "Option":
                    return z3.Implies(z3.BoolVal(r.variant == "Some"), some)
                return z3.BoolVal(False)
            rep.add(oblig.check_paths(seng, qs, "%s: the stage's hash function returns Some only if the hasher returned Some (no stand-in hash for a failed file)" % stg,
                                      prop, fn(), key="stage:%s:none-on-failure" % stg, allow=("return", "panic", "diverge")))
    guarded("stage closures", stages)

    # ------------------------------------------------------------------ rehash task closure
    def task():
        from obligations import C03
        o = C03.task_obligation(prog, engs, fn, key="rehash:task")
        if o.verdict == "violated":
            replay(o, ctx)
        rep.add(o)
    guarded("rehash task closure", task)

    # ------------------------------------------------------------------ file info
    def finfo():
        eng = neweng()
        f = prog.find(r"(^|::)file_info_or_log_err$")
        ps = eng.run(f)

        def p_fi(p):
            nw, warn, kind = called(p, r"FileInfo::new$"), called(p, r"::warn$"), called(p, r"Error::kind$")
            if len(nw) != 1:
                return z3.BoolVal(False)
            ok = disc(nw[0]) == 0
            r = p.result
            if not isinstance(r, EnumV):
                return z3.BoolVal(False)
            conj = [z3.BoolVal(r.variant == "Some") == ok]
            if r.variant == "Some":
                conj.append(z3.BoolVal(derives(r.fields.get(0), nw[0], "Ok") and not warn))
            else:
                if len(kind) != 1 or not isinstance(kind[0].ret, Lazy):
                    return z3.BoolVal(False)
                conj.append(z3.BoolVal(bool(warn)) == (disc(kind[0]) != NOTFOUND_IDX))
            return z3.And(*conj)
        rep.add(oblig.check_paths(eng, ps, "file_info_or_log_err: Some(info) iff stat succeeded; warning iff the error is not NotFound",
                                  p_fi, fn(), key="file_info_or_log_err"))

        eng = neweng(inline=r"FileMetadata::(len|inode_id)$")
        fi_new = prog.method("FileInfo", "new")
        ps = eng.run(fi_new)

        def p_new(p):
            md = called(p, r"FileMetadata::new$")
            if len(md) != 1:
                return z3.BoolVal(False)
            r = p.result
            if p.status == "panic":
                return disc(md[0]) == 0
            if not isinstance(r, EnumV):
                return z3.BoolVal(False)
            return z3.BoolVal(r.variant == "Ok") == (disc(md[0]) == 0)
        rep.add(oblig.check_paths(eng, ps, "FileInfo::new: Ok iff the stat succeeded (an error is passed on, not defaulted)", p_new, fn(),
                                  key="FileInfo::new", allow=AB))

        # scan_files' consumer: nothing is pushed for a file whose info is None; no panic
        sf = prog.find(r"^(group::)?scan_files$")
        e0 = neweng()
        sp = [p for p in e0.run(sf) if called(p, r"Walk::run$")]
        if not sp:
            raise Inconclusive("scan_files: no path calls Walk::run")
        p = sp[0]
        consumer = [a for a in called(p, r"Walk::run$")[0].args if isinstance(a, Agg) and "closure" in a.ty]
        if len(consumer) != 1:
            raise Inconclusive("consumer closure of Walk::run not identified")
        sub, cps = oblig.run_closure(prog, consumer[0], p, eng=e0, unroll=1, extra=optsum.SUMMARIES)

        def p_cons(q):
            fi = called(q, r"file_info_or_log_err$")
            if len(fi) != 1 or q.status == "panic":
                return z3.BoolVal(False)
            none = disc(fi[0]) == 0
            pushes = called(q, r"Vec.*::push$")
            conj = [z3.Implies(none, z3.BoolVal(not pushes))]
            for e in pushes:
                conj.append(z3.BoolVal(derives(e.args[1], fi[0], "Some")))
            return z3.And(*conj)
        rep.add(oblig.check_paths(sub, cps, "scan_files consumer: a file without info is skipped without panic", p_cons, fn(),
                                  key="scan_files:consumer", allow=AB))
    guarded("file info", finfo)

    # ------------------------------------------------------------------ walk
    def walk():
        W = lambda n: prog.method("Walk", n)
        eng = neweng(unroll=1)

        # visit_path: stat error -> warning, no visit, normal return
        ps = eng.run(W("visit_path"))

        def p_vp(p):
            fp = called(p, r"Entry::from_path$")
            if p.status == "panic":
                return z3.BoolVal(False)
            if not fp:
                return None
            err = disc(fp[0]) == 1
            ve = called(p, r"Walk::visit_entry$")
            fe = called(p, r"for_each$")
            # map_err(closure) . into_iter() . for_each(closure): with the summaries the closures are executed
            warn = called(p, r"Walk::log_warn$")
            return z3.And(z3.Implies(err, z3.BoolVal(not ve and len(warn) == 1)),
                          z3.Implies(z3.Not(err), z3.BoolVal(not warn)))
        rep.add(oblig.check_paths(eng, ps, "visit_path: a failing stat logs one warning and visits nothing; returns normally",
                                  p_vp, fn(), key="walk:visit_path:error", allow=("return", "bound", "diverge")))

        ps = eng.run(W("visit_link"))

        def p_vl(p):
            rl = called(p, r"Walk::resolve_link$")
            if p.status == "panic":
                return z3.BoolVal(False)
            if not rl:
                return None
            err = disc(rl[0]) == 1
            warn = called(p, r"Walk::log_warn$")
            vis = called(p, r"Walk::visit_(file|path)$")
            return z3.And(z3.Implies(err, z3.BoolVal(len(warn) == 1 and not vis)), z3.Implies(z3.Not(err), z3.BoolVal(not warn)))
        rep.add(oblig.check_paths(eng, ps, "visit_link: a failing readlink/stat logs one warning and visits nothing; returns normally",
                                  p_vl, fn(), key="walk:visit_link:error", allow=("return", "bound", "diverge")))

        ps = eng.run(W("visit_dir"))

        def p_vd(p):
            rd = called(p, r"(^|::)read_dir$")
            if p.status == "panic":
                return z3.BoolVal(False)
            if not rd:
                return None
            err = disc(rd[0]) == 1
            warn = called(p, r"Walk::log_warn$")
            sp = called(p, r"Scope::spawn$")
            return z3.And(z3.Implies(err, z3.BoolVal(len(warn) == 1 and not sp and p.status == "return")),
                          z3.Implies(z3.Not(err), z3.BoolVal(not warn)))
        rep.add(oblig.check_paths(eng, ps, "visit_dir: a failing read_dir logs one warning, spawns nothing and returns normally",
                                  p_vd, fn(), key="walk:visit_dir:error", allow=AB))

        # run: the loop over the roots continues after a root that cannot be stat-ed
        rclos = prog.closures_of(W("run"))
        if not rclos:
            raise Inconclusive("closures of Walk::run not found")
        eng2 = neweng(unroll=1)
        ps = eng2.run(rclos[0])
        seen = [0]

        def p_roots(p):
            if p.status == "panic":
                return z3.BoolVal(False)
            calls = [e for e in p.events if e.kind == "call"]
            md = [i for i, e in enumerate(calls) if re.search(r"(^|::)metadata$", e.callee)]
            if not md:
                return None
            if p.status == "bound":
                return None
            nx = [i for i, e in enumerate(calls) if re.search(r"Iterator>::next$", e.callee)]
            seen[0] += 1
            # a normal return happens only after the iterator was asked again and answered None
            last_next_after = bool(nx) and nx[-1] > md[-1]
            if not last_next_after:
                return z3.BoolVal(False)
            return disc(calls[nx[-1]]) == 0
        rep.add(oblig.check_paths(eng2, ps, "run: after every root (also one that cannot be stat-ed) the loop asks for the next root; it returns only when there is none",
                                  p_roots, fn(), bounds="roots loop unrolled twice", key="walk:run:roots-continue", allow=AB))

        # sorted_entries: unreadable entries are skipped one by one (filter_map over the ReadDir and the DirEntry list)
        se = W("sorted_entries")
        e3 = neweng()
        ps = e3.run(se)

        def p_se(p):
            if p.status != "return":
                return z3.BoolVal(False)
            fm = called(p, r"Iterator>::filter_map$")
            if len(fm) < 2:
                return z3.BoolVal(False)
            first_src = fm[0].args[0]
            conj = [z3.BoolVal(isinstance(first_src, Lazy) and first_src.name == "rd")]
            for ev in fm:
                clo = oblig.closure_value(ev.args[1])
                if clo is None:
                    return z3.BoolVal(False)
                _, qs = oblig.run_closure(prog, clo, p, extra_args=[Lazy("item", "?")], eng=e3, extra=optsum.SUMMARIES)
                for q in qs:
                    r = q.result
                    if q.status != "return" or not isinstance(r, EnumV) or r.ty != "Option":
                        return z3.BoolVal(False)
                    # Some only when the fallible step on this entry succeeded
                    errs = [c for c in q.pc[len(p.pc):]]
                    if r.variant == "Some":
                        pl = r.fields.get(0)
                        conj.append(z3.BoolVal(isinstance(pl, Lazy) and "@Ok" in pl.name))
            return z3.And(*conj)
        rep.add(oblig.check_paths(e3, ps, "sorted_entries: the ReadDir stream and the entry conversion go through filter_map(ok): a failing entry is skipped alone, never a panic",
                                  p_se, fn(), key="walk:sorted_entries:filter_map"))
    guarded("walk", walk)

    # ------------------------------------------------------------------ extents
    def extents():
        uf = prog.find(r"^(group::)?update_file_locations$")
        clos = prog.closures_of(uf)
        cand = [g for g in clos if "fetch_physical_location" in g.text]
        if len(cand) != 1:
            raise Inconclusive("update_file_locations: %d closures call fetch_physical_location" % len(cand))
        eng = neweng()
        ps = eng.run(cand[0])

        def p_ext(p):
            fp = called(p, r"fetch_physical_location$")
            if p.status == "panic":
                # indexing the device table can panic; never because the extent query failed
                return z3.BoolVal(True) if not fp else (disc(fp[0]) == 0)
            if not fp:
                return None
            err = disc(fp[0]) == 1
            h = called(p, r"handle_fetch_physical_location_err$")
            ro = called(p, r"raw_os_error$")
            conj = [z3.Implies(z3.Not(err), z3.BoolVal(not h)), z3.BoolVal(p.status == "return")]
            return z3.And(*conj)
        rep.add(oblig.check_paths(eng, ps, "update_file_locations: a failed extent query is not fatal (normal return; handler only on error)",
                                  p_ext, fn(), key="extents:non-fatal", allow=AB))
    guarded("extent lookup", extents)

    # ------------------------------------------------------------------ E1
    import os
    if not os.environ.get("VERIF_SKIP_KANI"):
        from obligations import C01_kani
        C01_kani.add(rep, "C15")
    guarded("diagnostics of a failing transform", lambda: rep.add(diagnostics_obligation(prog, engs, fn)))
    guarded("ignore files", lambda: ignore_stack_obligation(rep, ctx))
    guarded("directory reads", lambda: readdir_errors_obligation(rep, ctx))
    guarded("one file system", lambda: one_fs_obligation(rep, ctx))
    return rep


_REPLAY = {}


CUTS = r"(String::truncate|String::split_off|String::drain|String::replace_range|String::remove|String::insert(_str)?|str::split_at(_mut)?|<impl str>::split_at|as (std::ops::)?Index(Mut)?<.*Range.*>>::index(_mut)?|::get_unchecked|::from_utf8_unchecked)$"
BOUNDARY = r"is_char_boundary$|floor_char_boundary$|ceil_char_boundary$|char_indices$"


def diagnostics_obligation(prog, engs, fn):
    """the text a failing transform child printed on stderr is external input: the code that formats it into the warning must not cut
    it at a byte index (a cut inside a multi-byte character panics inside a pool thread and aborts the whole run)"""
    fmtf = [f for n, f in prog.fns.items() if re.search(r"(^|::)format_output_stream$", n)]
    o = Obligation("format_output_stream: the child's stderr text is never cut at a byte offset (no panic on multi-byte text)", "E2 mirsym/z3", [],
                   "loop-free; string primitives are leaves")
    o.key = "hash_transformed:diagnostics"
    if len(fmtf) != 1:
        o.verdict, o.detail = "inconclusive", "format_output_stream: %d candidates" % len(fmtf)
        return o
    eng = oblig.engine(prog, unroll=2, inline=None, extra=optsum.SUMMARIES)
    engs.append(eng)
    ps = eng.run(fmtf[0], args=[Lazy("stderr_text", fmtf[0].args[0][1])])
    verdict, detail, n = "holds", "", 0
    for p in ps:
        n += 1
        if p.status in ("abort", "bound"):
            verdict, detail = "inconclusive", "path %s" % p.status
            continue
        evs = [e for e in p.events if e.kind == "call"]
        for i, e in enumerate(evs):
            if re.search(CUTS, e.callee) and not any(re.search(BOUNDARY, x.callee) for x in evs[:i]):
                o.queries += 1
                if eng.check(*p.pc) == z3.sat:
                    verdict = "violated"
                    detail = "%s cuts the text at a byte offset without a character-boundary check" % e.callee[-50:]
                    o.cex = {"call": e.callee, "path_condition": [str(c)[:100] for c in p.pc][:5]}
        if p.status == "panic":
            o.queries += 1
            if eng.check(*p.pc) == z3.sat:
                verdict, detail = "violated", "a feasible path panics: %s" % p.note[:100]
                o.cex = {"panic": p.note[:200]}
    if verdict == "holds" and n == 0:
        verdict, detail = "inconclusive", "vacuous"
    o.functions = oblig.fnames(eng)
    o.verdict, o.detail = verdict, detail
    o.stats = {"paths": n, "states": n, "transitions": eng.stats.get("blocks", 0)}
    return o


def replay(o, ctx):
    """native confirmation: the CLI fault matrix of replay/c15_faults.py (path-keyed LD_PRELOAD faults, differential oracle)"""
    import json
    import os
    import subprocess
    import sys
    import native
    from common import VERIF, scratch_root
    if "res" not in _REPLAY:
        try:
            binary = native.build_binary(ctx.src)
            p = subprocess.run([sys.executable, os.path.join(VERIF, "replay", "c15_faults.py"), binary, scratch_root()],
                               stdout=subprocess.PIPE, stderr=subprocess.PIPE, timeout=1800)
            _REPLAY["res"] = json.loads(p.stdout.decode().strip().splitlines()[-1])
        except Exception as e:
            _REPLAY["res"] = {"error": str(e)[-300:]}
    res = _REPLAY["res"]
    o.cex["native_replay"] = res
    if res.get("n", 0) > 0:
        o.stats["traces_validated"] = 1
        o.detail += "; replayed natively (CLI under injected faults): %s" % json.dumps(res["deviations"][0])[:300]
    else:
        o.verdict = "inconclusive"
        o.detail = "counterexample did not reproduce in the CLI fault matrix (%s)" % (res.get("error") or "%d runs, no deviation" % res.get("runs", 0))


def called_in_fn(prog, f, pat):
    n = 0
    for b in f.blocks.values():
        t = b.term
        if t and t[0] == "call" and re.search(pat, t[2]):
            n += 1
    return n


# io::ErrorKind::NotFound is variant 0 of std::io::ErrorKind
NOTFOUND_IDX = 0


def ignore_stack_obligation(rep, ctx):
    """An ignore file that cannot be loaded affects nothing but itself: IgnoreStack::push returns, on every path (also when loading the
    nested .gitignore / .fdignore reported an error), a stack that starts with all matchers inherited from the parent directories,
    in their order, followed by at most one new matcher.  E2 with the stack as a list of two symbolic matchers."""
    import listsum
    import summaries
    prog = ctx.lib
    f = prog.method("IgnoreStack", "push")
    extra = dict(optsum.SUMMARIES)
    extra.update(listsum.LIST)

    def s_arc_asref(e, st, c, a, d):
        v = summaries.deref_val(e, st, a[0])
        if isinstance(v, Agg) and v.ty == "Arc":
            return v.fields[0]
        return NotImplemented
    extra[r"^<Arc<.*> as (std::convert::)?AsRef(<.*>)?>::as_ref$"] = s_arc_asref
    extra[r"^(std::vec::)?Vec::with_capacity$"] = lambda e, st, c, a, d: ListV((), "Vec")
    eng = oblig.engine(prog, unroll=3, inline=None, extra=extra)
    items = [Lazy("m0", "Gitignore"), Lazy("m1", "Gitignore")]
    mem = {"self": Agg("IgnoreStack", {0: Agg("Arc", {0: ListV(items, "Vec")})})}
    ps = eng.run(f, args=[Ref("self", (), False), Lazy("dir", "path::Path"), None], mem=mem)

    def prop(p):
        if p.status != "return":
            return None
        r = p.result
        inner = r.fields.get(0) if isinstance(r, Agg) else None
        lst = inner.fields.get(0) if isinstance(inner, Agg) else inner
        if isinstance(lst, Ref):
            st = mirsym.State()
            st.mem, st.pc = p.mem, list(p.pc)
            lst = summaries.deref_val(eng, st, lst)
        if not isinstance(lst, ListV):
            return z3.BoolVal(False)
        names = [getattr(x, "name", None) for x in lst.items]
        return z3.BoolVal(names[:2] == ["m0", "m1"] and len(names) <= 3)
    o = oblig.check_paths(eng, ps, "IgnoreStack::push: the rules inherited from the parent directories are kept, in order, on every path - also when the nested ignore file fails to load",
                          prop, oblig.fnames(eng), bounds="stack of two inherited matchers", key="ignore:inherited-rules-kept", allow=("return", "panic", "diverge"))
    if o.verdict == "violated":
        replay(o, ctx)
    rep.add(o)


def readdir_errors_obligation(rep, ctx):
    """Walk::sorted_entries: an error delivered while the entries of a directory are read (the n-th readdir fails) or while the type
    of an entry is determined is reported with a warning - unless the entry simply disappeared (NotFound) - instead of being
    discarded with `.ok()`.  E2 over the closures of sorted_entries that receive a `Result<DirEntry, io::Error>` /
    produce an `Entry` from a DirEntry, run with the error case: a warn call is on every such path."""
    prog = ctx.lib
    f = prog.method("Walk", "sorted_entries")
    eng = oblig.engine(prog, unroll=0, inline=None, extra=dict(optsum.SUMMARIES))
    clos = prog.closures_of(f)
    cases = []
    for g in clos:
        tys = [t for n, t in g.args[1:]]
        if any("Result<" in t and "DirEntry" in t for t in tys):
            cases.append((g, "readdir", [EnumV("Result", "Err", 1, {0: Lazy("io_error", "std::io::Error")})]))
        elif any(re.search(r"(^|[^<])DirEntry$|fs::DirEntry$", t.strip()) for t in tys):
            cases.append((g, "entry", [Lazy("dir_entry", "std::fs::DirEntry")]))
    o = Obligation("sorted_entries: an error while reading the entries of a directory (or the type of an entry) is reported with a warning, not discarded",
                   "E2 mirsym/z3", [], "closures of Walk::sorted_entries, error case")
    o.key = "walk:readdir-errors-reported"
    bad, npaths = None, 0
    seen_readdir = False
    for g, kind, args in cases:
        ps = eng.run(g, args=[None] + args)
        for p in ps:
            if p.status in ("abort", "bound"):
                continue
            npaths += 1
            warned = bool(called(p, r"log_warn$|::warn$"))
            if kind == "readdir":
                seen_readdir = True
                if not warned:
                    bad = "a failing read of the directory's entries yields no warning (closure %s)" % g.name[-40:]
            else:
                # Entry::from_dir_entry failing: warn unless the error kind is NotFound
                fde = called(p, r"Entry::from_dir_entry$")
                if fde and isinstance(fde[0].ret, Lazy):
                    failed = z3.BitVec(mirsym.sanitize(fde[0].ret.name + "#d"), 64) == 1
                    if eng.check(*(list(p.pc) + [failed])) == z3.sat and not warned:
                        nf = [ev for ev in p.events if ev.kind == "call" and re.search(r"Error::kind$", ev.callee)]
                        if not nf:
                            bad = bad or "a failing type query of an entry yields no warning (closure %s)" % g.name[-40:]
        if bad:
            break
    o.functions = oblig.fnames(eng)
    o.queries = eng.queries
    o.stats = {"paths": npaths, "states": npaths, "transitions": npaths}
    if bad:
        o.verdict, o.detail = "violated", bad
        o.cex = {"reason": bad}
        replay(o, ctx)
    elif not seen_readdir:
        # no closure receives the Result of the directory iterator: look for an error-discarding conversion in the function itself
        discards = re.search(r"Result::<std::fs::DirEntry, std::io::Error>::ok|Result<.*DirEntry.*>::ok", f.text) is not None
        if discards:
            o.verdict, o.detail = "violated", "sorted_entries discards the errors of the directory iterator with .ok()"
            o.cex = {"reason": o.detail}
            replay(o, ctx)
        else:
            o.verdict, o.detail = "inconclusive", "the handling of the directory iterator's errors was not located"
    else:
        o.verdict = "holds"
        o.witness = "%d closure paths" % npaths
    rep.add(o)


def one_fs_obligation(rep, ctx):
    """--one-fs: a directory whose device cannot be determined (the stat issued for the comparison fails) is skipped with a warning,
    not entered.  E2 over Walk::visit_dir with the device helpers of walk.rs inlined: on every path with one_fs set on which
    FileId::new failed, read_dir is not reached and a warning was logged."""
    prog = ctx.lib
    f = prog.method("Walk", "visit_dir")
    inl = lambda c, t: oblig.defined_in(prog, t, "walk.rs") and re.search(r"_fs$", t.name) is not None
    eng = oblig.engine(prog, unroll=0, inline=inl, extra=dict(optsum.SUMMARIES))
    ps = eng.run(f)

    def prop(p):
        fid = called(p, r"FileId::new$")
        if not fid or not isinstance(fid[0].ret, Lazy):
            return None
        failed = z3.BitVec(mirsym.sanitize(fid[0].ret.name + "#d"), 64) == 1
        if eng.check(*(list(p.pc) + [failed])) != z3.sat:
            return None
        entered = bool(called(p, r"(^|::)read_dir$"))
        warned = bool(called(p, r"log_warn$|::warn$"))
        # under pc /\ failed: not entered, warned
        return z3.Implies(failed, z3.BoolVal(not entered and warned))
    o = oblig.check_paths(eng, ps, "visit_dir with --one-fs: a directory whose device cannot be determined is skipped with a warning, never entered",
                          prop, oblig.fnames(eng), key="walk:one-fs-stat-failure", allow=("return", "panic", "diverge", "bound"))
    if o.verdict == "violated":
        replay(o, ctx)
    rep.add(o)
