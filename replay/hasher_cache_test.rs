// Native driver for the hasher's cache protocol (injected as a cfg(test) child module of hasher.rs).
//   RW <work dir hex>  -> a file is rewritten in place (same length, new mtime) *while* hash_file reads it (from the progress
//                         callback, after the first buffer); afterwards the cached hasher is asked again and compared with an
//                         uncached hasher on the final content:   "same" | "stale <cached hex> <fresh hex>"
use super::*;
use crate::cache::HashCache;
use crate::log::StdLog;
use std::cell::Cell;
use std::io::{Seek, SeekFrom, Write};

fn unhex(s: &str) -> Vec<u8> {
    (0..s.len() / 2).map(|i| u8::from_str_radix(&s[2 * i..2 * i + 2], 16).unwrap()).collect()
}

#[test]
fn verif_hasher_cache_driver() {
    let inp = std::fs::read_to_string(std::env::var("VERIF_CASES").unwrap()).unwrap();
    let mut out = String::new();
    for line in inp.lines() {
        let f: Vec<&str> = line.split_whitespace().collect();
        if f.is_empty() {
            continue;
        }
        let res = std::panic::catch_unwind(|| match f[0] {
            "RW" => {
                let dir = std::path::PathBuf::from(String::from_utf8(unhex(f[1])).unwrap());
                std::fs::create_dir_all(&dir).unwrap();
                let file = dir.join("victim.bin");
                std::fs::write(&file, vec![b'A'; 300_000]).unwrap();
                let old = filetime_of(1_600_000_000);
                set_mtime(&file, old);
                let log = StdLog::new();
                let cache = HashCache::open(&Path::from(dir.join("db")), None, HashFn::Metro).unwrap();
                let cached = FileHasher { algorithm: HashFn::Metro, buf_len: 65536, cache: Some(cache), transform: None, log: &log };
                let path = Path::from(&file);
                let chunk = FileChunk::new(&path, FilePos(0), FileLen(300_000));
                let done = Cell::new(false);
                let _first = cached.hash_file(&chunk, |_| {
                    if !done.get() {
                        done.set(true);
                        let mut fh = std::fs::OpenOptions::new().write(true).open(&file).unwrap();
                        fh.seek(SeekFrom::Start(100)).unwrap(); // inside the buffer that has already been read
                        fh.write_all(&vec![b'B'; 1000]).unwrap();
                        drop(fh);
                        set_mtime(&file, filetime_of(1_600_000_777));
                    }
                });
                let second = cached.hash_file(&chunk, |_| {}).unwrap();
                let plain = FileHasher::new(HashFn::Metro, None, &log);
                let fresh = plain.hash_file(&chunk, |_| {}).unwrap();
                if second == fresh {
                    "same".to_string()
                } else {
                    format!("stale {} {}", second, fresh)
                }
            }
            _ => "?".to_string(),
        });
        out.push_str(&res.unwrap_or_else(|_| "PANIC".to_string()));
        out.push('\n');
    }
    std::fs::write(std::env::var("VERIF_OUT").unwrap(), out).unwrap();
}

fn filetime_of(secs: i64) -> std::time::SystemTime {
    std::time::UNIX_EPOCH + std::time::Duration::from_secs(secs as u64)
}

fn set_mtime(p: &std::path::Path, t: std::time::SystemTime) {
    let f = std::fs::OpenOptions::new().write(true).open(p).unwrap();
    f.set_modified(t).unwrap();
}
