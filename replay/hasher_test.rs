// Native replay for the Kani harnesses on hasher::scan / stream_hash: runs the real functions with a scripted reader
// (read sizes and the failing call given by the plan) and a recording hasher; prints one line per deviating plan.
use super::*;
use std::io::{ErrorKind, Read};
use std::sync::Mutex;

static FED: Mutex<Vec<u8>> = Mutex::new(Vec::new());

struct Rec;
impl StreamHasher for Rec {
    fn new() -> Self {
        FED.lock().unwrap().clear();
        Rec
    }
    fn update(&mut self, bytes: &[u8]) {
        FED.lock().unwrap().extend_from_slice(bytes);
    }
    fn finish(self) -> FileHash {
        FileHash::from(0u128)
    }
}

struct Scripted {
    data: Vec<u8>,
    pos: usize,
    calls: usize,
    err_at: usize,
    sizes: Vec<usize>,
    failed: bool,
}

impl Read for Scripted {
    fn read(&mut self, buf: &mut [u8]) -> io::Result<usize> {
        self.calls += 1;
        if self.calls == self.err_at {
            self.failed = true;
            return Err(io::Error::from(ErrorKind::Other));
        }
        let avail = self.data.len() - self.pos;
        if avail == 0 || buf.is_empty() {
            return Ok(0);
        }
        let want = self.sizes.get(self.calls - 1).copied().unwrap_or(1).max(1);
        let n = want.min(avail).min(buf.len());
        buf[..n].copy_from_slice(&self.data[self.pos..self.pos + n]);
        self.pos += n;
        Ok(n)
    }
}

#[test]
fn verif_hasher_driver() {
    let outp = std::env::var("VERIF_OUT").unwrap();
    let mut out = String::new();
    let mut runs = 0usize;
    for slen in 0..=4usize {
        let data: Vec<u8> = (1..=slen as u8).collect();
        for len in 0..=5u64 {
            for buf_len in 1..=3usize {
                for err_at in 0..=6usize {
                    for plan in 0..27usize {
                        let sizes = vec![1 + plan % 3, 1 + (plan / 3) % 3, 1 + (plan / 9) % 3, 1, 1, 1];
                        let mut rd = Scripted { data: data.clone(), pos: 0, calls: 0, err_at, sizes, failed: false };
                        let r = stream_hash::<Rec>(&mut rd, FileLen(len), buf_len, |_| {});
                        runs += 1;
                        let expect = slen.min(len as usize);
                        let fed = FED.lock().unwrap().clone();
                        let bad = match &r {
                            Ok((n, _)) => rd.failed || n.0 != expect as u64 || fed != data[..expect].to_vec(),
                            Err(_) => !rd.failed,
                        };
                        if bad {
                            out.push_str(&format!(
                                "DEV slen={} len={} buf_len={} err_at={} plan={} ok={} failed={} fed={:?}\n",
                                slen, len, buf_len, err_at, plan, r.is_ok(), rd.failed, fed
                            ));
                        }
                    }
                }
            }
        }
    }
    out.push_str(&format!("RUNS {}\n", runs));
    std::fs::write(outp, out).unwrap();
}
