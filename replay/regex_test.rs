// Native replay for C16: the real regex::Regex (fclones' wrapper) on concrete (regex, directory) pairs.
// For each case: is_partial_match(dir), and a witness extension `ext` (<= 3 characters over an alphabet taken from the
// regex and the directory) such that is_match(dir + ext) - the directory is then an ancestor of a matching path.
use super::*;

fn unhex(s: &str) -> Vec<u8> {
    (0..s.len() / 2).map(|i| u8::from_str_radix(&s[2 * i..2 * i + 2], 16).unwrap()).collect()
}

fn hex(b: &[u8]) -> String {
    b.iter().map(|x| format!("{:02x}", x)).collect()
}

#[test]
fn verif_regex_driver() {
    let inp = std::fs::read_to_string(std::env::var("VERIF_CASES").unwrap()).unwrap();
    let mut out = String::new();
    for line in inp.lines() {
        let parts: Vec<&str> = line.split_whitespace().collect();
        if parts.len() < 3 {
            continue;
        }
        let re = String::from_utf8(unhex(parts[0]));
        let dir = String::from_utf8(unhex(parts[1]));
        let ci = parts[2] == "1";
        let (re, dir) = match (re, dir) {
            (Ok(r), Ok(d)) => (r, d),
            _ => {
                out.push_str("? -\n");
                continue;
            }
        };
        let rx = match Regex::new(&re, ci) {
            Ok(r) => r,
            Err(_) => {
                out.push_str("E -\n");
                continue;
            }
        };
        let partial = rx.is_partial_match(&dir);
        // alphabet: characters of the regex and the directory plus a few fillers
        let mut alpha: Vec<char> = re.chars().chain(dir.chars()).chain("xA/ż-".chars()).collect();
        alpha.sort();
        alpha.dedup();
        let mut witness: Option<String> = None;
        let mut frontier: Vec<String> = vec![String::new()];
        'outer: for _len in 0..4 {
            let mut next = vec![];
            for ext in &frontier {
                let cand = format!("{}{}", dir, ext);
                if rx.is_match(&cand) {
                    witness = Some(ext.clone());
                    break 'outer;
                }
                for c in &alpha {
                    let mut e = ext.clone();
                    e.push(*c);
                    next.push(e);
                }
            }
            frontier = next;
            if frontier.len() > 200000 {
                break;
            }
        }
        let w = match witness {
            Some(e) if e.is_empty() => "e".to_string(),
            Some(e) => hex(e.as_bytes()),
            None => "-".to_string(),
        };
        out.push_str(&format!("{} {}\n", if partial { 1 } else { 0 }, w));
    }
    std::fs::write(std::env::var("VERIF_OUT").unwrap(), out).unwrap();
}
