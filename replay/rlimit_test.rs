// Native driver for rlimit.rs (injected as a cfg(test) child module): lowers the soft RLIMIT_NOFILE below the hard limit, calls the
// real rlimit_nofile() and reads the limit that is in effect afterwards.   RL -> "<returned> <soft limit in effect> <hard limit>"
use super::*;

#[test]
fn verif_rlimit_driver() {
    let mut out = String::new();
    let mut lim = libc::rlimit { rlim_cur: 0, rlim_max: 0 };
    unsafe {
        libc::getrlimit(libc::RLIMIT_NOFILE, &mut lim);
        let low = libc::rlimit { rlim_cur: std::cmp::min(64, lim.rlim_max), rlim_max: lim.rlim_max };
        libc::setrlimit(libc::RLIMIT_NOFILE, &low);
    }
    let ret = rlimit_nofile();
    unsafe {
        libc::getrlimit(libc::RLIMIT_NOFILE, &mut lim);
    }
    out.push_str(&format!("{} {} {}\n", ret, lim.rlim_cur, lim.rlim_max));
    std::fs::write(std::env::var("VERIF_OUT").unwrap(), out).unwrap();
}
