// Native driver for Path kernels (injected as a cfg(test) child module of path.rs).
//   H <path hex>..        -> hash128 of every path, hex
//   P <a hex> <b hex>..   -> per b: "1" if Path(a).is_prefix_of(Path(b)) else "0"
use super::*;

fn unhex(s: &str) -> Vec<u8> {
    if s == "-" {
        return vec![];
    }
    (0..s.len() / 2).map(|i| u8::from_str_radix(&s[2 * i..2 * i + 2], 16).unwrap()).collect()
}

fn path_of(h: &str) -> Path {
    Path::from(String::from_utf8(unhex(h)).unwrap())
}

#[test]
fn verif_path_driver() {
    let inp = std::fs::read_to_string(std::env::var("VERIF_CASES").unwrap()).unwrap();
    let mut out = String::new();
    for line in inp.lines() {
        let f: Vec<&str> = line.split_whitespace().collect();
        if f.is_empty() {
            continue;
        }
        let res = std::panic::catch_unwind(|| match f[0] {
            "H" => f[1..].iter().map(|h| format!("{:032x}", path_of(h).hash128())).collect::<Vec<_>>().join(" "),
            "P" => {
                let a = path_of(f[1]);
                f[2..].iter().map(|h| if a.is_prefix_of(&path_of(h)) { "1" } else { "0" }).collect::<Vec<_>>().join(" ")
            }
            _ => "?".to_string(),
        });
        out.push_str(&res.unwrap_or_else(|_| "PANIC".to_string()));
        out.push('\n');
    }
    std::fs::write(std::env::var("VERIF_OUT").unwrap(), out).unwrap();
}
