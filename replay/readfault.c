// LD_PRELOAD shim for the native replay of C15 counterexamples: faults keyed by markers in the path name.
//   ...FAILOPEN...  open/open64/openat fail with EACCES
//   ...FAILREAD...  read/pread64 fail with EIO once the file offset is >= $FAIL_READ_AFTER (default 0)
//   ...FAILSTAT...  stat/lstat/fstatat/statx fail with EACCES;  ...VANISHED... with ENOENT
//   ...FAILDIR...   opendir / open(O_DIRECTORY) fail with EACCES
//   ...FAILLINK...  readlink fails with EIO
//   ...NTHDIRENT... the directory opens, its fifth readdir fails with EIO
#define _GNU_SOURCE
#include <dirent.h>
#include <dlfcn.h>
#include <errno.h>
#include <fcntl.h>
#include <stdarg.h>
#include <stdio.h>
#include <stdlib.h>
#include <string.h>
#include <sys/stat.h>
#include <sys/types.h>
#include <unistd.h>

#define REAL(name) static __typeof__(name) *real; if (!real) real = dlsym(RTLD_NEXT, #name)

static int has(const char *p, const char *m) { return p && strstr(p, m) != 0; }

static int open_fault(const char *p, int flags) {
    if (has(p, "FAILOPEN") && !(flags & O_DIRECTORY)) { errno = EACCES; return 1; }
    if (has(p, "FAILDIR") && (flags & O_DIRECTORY)) { errno = EACCES; return 1; }
    return 0;
}

int open64(const char *p, int flags, ...) { REAL(open64); mode_t m = 0;
    if (flags & (O_CREAT | O_TMPFILE)) { va_list ap; va_start(ap, flags); m = va_arg(ap, mode_t); va_end(ap); }
    if (open_fault(p, flags)) return -1; return real(p, flags, m); }
int open(const char *p, int flags, ...) { REAL(open); mode_t m = 0;
    if (flags & (O_CREAT | O_TMPFILE)) { va_list ap; va_start(ap, flags); m = va_arg(ap, mode_t); va_end(ap); }
    if (open_fault(p, flags)) return -1; return real(p, flags, m); }
int openat(int d, const char *p, int flags, ...) { REAL(openat); mode_t m = 0;
    if (flags & (O_CREAT | O_TMPFILE)) { va_list ap; va_start(ap, flags); m = va_arg(ap, mode_t); va_end(ap); }
    if (open_fault(p, flags)) return -1; return real(d, p, flags, m); }
int openat64(int d, const char *p, int flags, ...) { REAL(openat64); mode_t m = 0;
    if (flags & (O_CREAT | O_TMPFILE)) { va_list ap; va_start(ap, flags); m = va_arg(ap, mode_t); va_end(ap); }
    if (open_fault(p, flags)) return -1; return real(d, p, flags, m); }

/* ...NTHDIRENT...: the directory can be opened, the third readdir on it fails with EIO (an n-th read of a directory fails) */
#define MAXD 64
static DIR *marked_dirs[MAXD];
static int marked_reads[MAXD];
static void mark_dir(DIR *d) { for (int i = 0; i < MAXD; i++) if (!marked_dirs[i]) { marked_dirs[i] = d; marked_reads[i] = 0; return; } }
static int dir_slot(DIR *d) { for (int i = 0; i < MAXD; i++) if (marked_dirs[i] == d) return i; return -1; }

DIR *opendir(const char *p) { REAL(opendir); if (has(p, "FAILDIR")) { errno = EACCES; return 0; }
    DIR *d = real(p); if (d && has(p, "NTHDIRENT")) mark_dir(d); return d; }
struct dirent64;
struct dirent64 *readdir64(DIR *d) { static struct dirent64 *(*real)(DIR *); if (!real) real = dlsym(RTLD_NEXT, "readdir64");
    int i = dir_slot(d); if (i >= 0 && ++marked_reads[i] > 4) { errno = EIO; return 0; } return real(d); }
struct dirent *readdir(DIR *d) { static struct dirent *(*real)(DIR *); if (!real) real = dlsym(RTLD_NEXT, "readdir");
    int i = dir_slot(d); if (i >= 0 && ++marked_reads[i] > 4) { errno = EIO; return 0; } return real(d); }
int closedir(DIR *d) { static int (*real)(DIR *); if (!real) real = dlsym(RTLD_NEXT, "closedir");
    int i = dir_slot(d); if (i >= 0) marked_dirs[i] = 0; return real(d); }

static int fd_marked(int fd) {
    char link[64], buf[4096];
    snprintf(link, sizeof link, "/proc/self/fd/%d", fd);
    ssize_t n = readlink(link, buf, sizeof buf - 1);
    if (n <= 0) return 0;
    buf[n] = 0;
    if (!strstr(buf, "FAILREAD")) return 0;
    const char *a = getenv("FAIL_READ_AFTER");
    long after = a ? atol(a) : 0;
    off_t off = lseek(fd, 0, SEEK_CUR);
    return off >= after;
}

ssize_t read(int fd, void *b, size_t n) { REAL(read); if (fd != 1 && fd != 2 && fd_marked(fd)) { errno = EIO; return -1; } return real(fd, b, n); }
ssize_t pread64(int fd, void *b, size_t n, off_t o) { REAL(pread64); if (fd != 1 && fd != 2 && fd_marked(fd)) { errno = EIO; return -1; } return real(fd, b, n, o); }

#include <sys/sendfile.h>
// std::io::copy from a File uses copy_file_range / sendfile / splice on Linux
ssize_t splice(int fi, off64_t *oi, int fo, off64_t *oo, size_t n, unsigned fl) { REAL(splice); if (fi != 1 && fi != 2 && fd_marked(fi)) { errno = EIO; return -1; } return real(fi, oi, fo, oo, n, fl); }
ssize_t sendfile64(int fo, int fi, off64_t *o, size_t n) { REAL(sendfile64); if (fi != 1 && fi != 2 && fd_marked(fi)) { errno = EIO; return -1; } return real(fo, fi, o, n); }
ssize_t sendfile(int fo, int fi, off_t *o, size_t n) { REAL(sendfile); if (fi != 1 && fi != 2 && fd_marked(fi)) { errno = EIO; return -1; } return real(fo, fi, o, n); }
ssize_t copy_file_range(int fi, off64_t *oi, int fo, off64_t *oo, size_t n, unsigned fl) { REAL(copy_file_range); if (fi != 1 && fi != 2 && fd_marked(fi)) { errno = EIO; return -1; } return real(fi, oi, fo, oo, n, fl); }

static int stat_fault(const char *p) {
    if (has(p, "FAILSTAT")) { errno = EACCES; return 1; }
    /* ...SELFSTAT...: only the entry itself cannot be stat-ed (the marker is in the last path component), what lies below it can */
    if (p) { const char *b = strrchr(p, '/'); b = b ? b + 1 : p; if (strstr(b, "SELFSTAT")) { errno = EIO; return 1; } }
    if (has(p, "VANISHED")) { errno = ENOENT; return 1; }
    return 0;
}
int statx(int d, const char *p, int fl, unsigned mask, struct statx *sx) { REAL(statx); if (stat_fault(p)) return -1; return real(d, p, fl, mask, sx); }
int stat(const char *p, struct stat *s) { REAL(stat); if (stat_fault(p)) return -1; return real(p, s); }
int lstat(const char *p, struct stat *s) { REAL(lstat); if (stat_fault(p)) return -1; return real(p, s); }
int stat64(const char *p, struct stat64 *s) { REAL(stat64); if (stat_fault(p)) return -1; return real(p, s); }
int lstat64(const char *p, struct stat64 *s) { REAL(lstat64); if (stat_fault(p)) return -1; return real(p, s); }
int fstatat(int d, const char *p, struct stat *s, int fl) { REAL(fstatat); if (stat_fault(p)) return -1; return real(d, p, s, fl); }
int fstatat64(int d, const char *p, struct stat64 *s, int fl) { REAL(fstatat64); if (stat_fault(p)) return -1; return real(d, p, s, fl); }

ssize_t readlink(const char *p, char *b, size_t n) { REAL(readlink); if (has(p, "FAILLINK")) { errno = EIO; return -1; } return real(p, b, n); }
