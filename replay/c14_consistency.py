#!/usr/bin/env python3
"""Native replay for C14 (and the replica-counting part of C06): runs the real binary on a scenario tree (hard links, three
--isolate roots, groups that skip a root, unique and under-replicated files, a name with a comma and a quote) in all four
formats, to stdout and to -o FILE, and recomputes every header statistic and ordering rule from the body.
usage: c14_consistency.py <fclones binary> <work dir>     prints one JSON line {runs, n, deviations}"""
import csv
import io
import json
import os
import re
import shutil
import subprocess
import sys


def build(root):
    def w(rel, data):
        p = os.path.join(root, rel)
        os.makedirs(os.path.dirname(p), exist_ok=True)
        with open(p, "wb") as f:
            f.write(data)
        return p
    X = b"x" * 3000
    Y = b"y" * 2000
    Z = b"z" * 1000
    Q = b"q" * 500
    U = b"u" * 4000
    a = w("A/x1", X); w("B/x2", X); w("C/x3", X)
    os.link(a, os.path.join(root, "A/x1_link"))
    w("B/y1", Y); w("C/y2", Y); w("C/y3", Y)                 # nothing under A
    w("A/z1", Z); w("A/z2", Z)                                 # only under A
    w('B/q,"1', Q); w("C/q2", Q)
    w("C/unique", U)
    w("D/x4", X)                                               # outside every isolate root when roots are A B C
    e = w("E/w1", b"w" * 700)                                  # two hard links and no other copy: one replica
    os.link(e, os.path.join(root, "E/w1_link"))


def subgroups(paths, roots, by_id):
    """reference: by first root that is a prefix, in root order; the rest by (dev, inode) if by_id, in order of appearance, else alone"""
    groups = [[] for _ in roots]
    rest = []
    keys = {}
    for p in paths:
        idx = next((i for i, r in enumerate(roots) if p == r or p.startswith(r.rstrip("/") + "/")), None)
        if idx is not None:
            groups[idx].append(p)
        elif by_id:
            st = os.stat(p)
            k = (st.st_dev, st.st_ino)
            if k not in keys:
                keys[k] = len(rest)
                rest.append([])
            rest[keys[k]].append(p)
        else:
            rest.append([p])
    return [g for g in groups + rest if g]


def expect_stats(groups, roots, by_id, over, rf):
    red = red_b = mis = mis_b = 0
    for size, files in groups:
        sg = subgroups(files, roots, by_id)
        if over:
            r = max(rf, 1)
            n = sum(len(g) for g in sg[min(r, len(sg)):]) if roots else max(0, len(files) - r)
            red += n
            red_b += n * size
        else:
            n = max(0, rf - len(sg))
            mis += n
            mis_b += n * size
    return dict(group_count=len(groups), total_file_count=sum(len(f) for _, f in groups), total_file_size=sum(s * len(f) for s, f in groups),
                redundant_file_count=red, redundant_file_size=red_b, missing_file_count=mis, missing_file_size=mis_b)


def parse_text(out):
    hdr, groups = {}, []
    for line in out.splitlines():
        if line.startswith("# Total:"):
            m = re.match(r"# Total: (\d+) B \(.*\) in (\d+) files in (\d+) groups", line)
            hdr.update(total_file_size=int(m.group(1)), total_file_count=int(m.group(2)), group_count=int(m.group(3)))
        elif line.startswith("# Redundant:"):
            m = re.match(r"# Redundant: (\d+) B \(.*\) in (\d+) files", line)
            hdr.update(redundant_file_size=int(m.group(1)), redundant_file_count=int(m.group(2)))
        elif line.startswith("# Missing:"):
            m = re.match(r"# Missing: (\d+) B \(.*\) in (\d+) files", line)
            hdr.update(missing_file_size=int(m.group(1)), missing_file_count=int(m.group(2)))
        elif line.startswith("#"):
            continue
        elif line.startswith("    "):
            groups[-1][2].append(line[4:])
        elif line.strip():
            m = re.match(r"([0-9a-f]*), (\d+) B \(.*\) \* (\d+):", line)
            groups.append([int(m.group(2)), int(m.group(3)), []])
    return hdr, groups


def main():
    binary, work = sys.argv[1], sys.argv[2]
    d = os.path.join(work, "c14replay")
    shutil.rmtree(d, ignore_errors=True)
    t = os.path.join(d, "t")
    build(t)
    env = dict(os.environ, HOME=d, XDG_CACHE_HOME=os.path.join(d, "cache"))
    A, B, C = (os.path.join(t, x) for x in "ABC")
    configs = [
        ([t], [], True, 1, True),
        ([t], ["--rf-over", "2"], True, 2, True),
        ([t], ["--match-links"], True, 1, False),
        ([t], ["--unique"], False, 2, True),
        ([t], ["--rf-under", "3"], False, 3, True),
        ([A, B, C], ["--isolate"], True, 1, True),
        ([C, B, A], ["--isolate"], True, 1, True),
        ([A, B, C], ["--isolate", "--rf-over", "2"], True, 2, True),
        ([A, B, C, os.path.join(t, "D")], ["--isolate", "--rf-under", "3"], False, 3, True),
        ([A, B], ["--isolate"], True, 1, True),
        # pipelines that end with the permissive filter (groups with rf or more replicas stay in the list of an under-replication search)
        ([t], ["--unique", "--skip-content-hash"], False, 2, True),
        ([t], ["--rf-under", "3", "--skip-content-hash"], False, 3, True),
        ([t], ["--unique", "--transform", "cat"], False, 2, True),
        ([t], ["--rf-under", "3", "--transform", "cat"], False, 3, True),
        ([t], ["--skip-content-hash"], True, 1, True),
        ([t], ["--transform", "cat", "--rf-over", "2"], True, 2, True),
    ]
    devs, runs = [], 0
    for roots_in, opts, over, rf, by_id in configs:
        iso = [r for r in roots_in] if "--isolate" in opts else []
        base = [binary, "group"] + opts
        res = {}
        for fmt in ("default", "json", "csv", "fdupes"):
            for to_file in (False, True):
                outp = os.path.join(d, "out.%s" % fmt)
                cmd = base + ["-f", fmt] + (["-o", outp] if to_file else []) + roots_in
                r = subprocess.run(cmd, stdout=subprocess.PIPE, stderr=subprocess.PIPE, env=env, timeout=120, cwd=d)
                runs += 1
                if r.returncode != 0:
                    devs.append({"options": opts, "format": fmt, "what": "exit status %d" % r.returncode, "stderr": r.stderr.decode(errors="replace")[-200:]})
                    continue
                out = open(outp, "rb").read().decode(errors="replace") if to_file else r.stdout.decode(errors="replace")
                res[(fmt, to_file)] = out
        tag = {"options": opts, "roots": [os.path.basename(x) for x in roots_in]}
        try:
            hdr, tg = parse_text(res[("default", False)])
        except Exception as e:   # noqa
            devs.append(dict(tag, what="text report not parseable: %s" % e))
            continue
        groups = [(size, files) for size, cnt, files in tg]
        # group header count == number of paths
        for size, cnt, files in tg:
            if cnt != len(files):
                devs.append(dict(tag, what="text group header says %d files, %d paths listed" % (cnt, len(files))))
        # ordering: decreasing size; absolute paths; files of one root together, roots in the order given
        sizes = [s for s, _ in groups]
        if sizes != sorted(sizes, reverse=True):
            devs.append(dict(tag, what="groups not ordered by decreasing size: %s" % sizes))
        for size, files in groups:
            if any(not f.startswith("/") for f in files):
                devs.append(dict(tag, what="relative path in the report"))
            if iso:
                idx = [next((i for i, r in enumerate(iso) if f.startswith(r + "/")), len(iso)) for f in files]
                if idx != sorted(idx):
                    devs.append(dict(tag, what="paths of one isolate root not together / roots not in the given order: %s" % [os.path.relpath(f, t) for f in files]))
            else:
                if files != sorted(files):
                    devs.append(dict(tag, what="paths not sorted: %s" % [os.path.relpath(f, t) for f in files]))
        # header statistics vs. body
        want = expect_stats(groups, iso, by_id, over, rf)
        for k, v in want.items():
            if hdr.get(k) != v:
                devs.append(dict(tag, what="header %s = %s but the body gives %s" % (k, hdr.get(k), v)))
        # the same through -o
        if ("default", True) in res and [l for l in res[("default", True)].splitlines() if not l.startswith("# Command") and not l.startswith("# Timestamp")] != \
                [l for l in res[("default", False)].splitlines() if not l.startswith("# Command") and not l.startswith("# Timestamp")]:
            devs.append(dict(tag, what="-o FILE and stdout differ (text)"))
        # JSON
        for tf in (False, True):
            try:
                j = json.loads(res[("json", tf)])
                jg = [(g["file_len"], g["files"]) for g in j["groups"]]
                if jg != groups:
                    devs.append(dict(tag, what="JSON groups differ from the text groups"))
                st = j["header"]["stats"]
                for k, v in want.items():
                    if st.get(k) != v:
                        devs.append(dict(tag, what="JSON header %s = %s but the body gives %s" % (k, st.get(k), v)))
            except Exception as e:  # noqa
                devs.append(dict(tag, what="JSON not parseable: %s" % e))
        # CSV
        try:
            rows = list(csv.reader(io.StringIO(res[("csv", False)])))
            cg = [(int(r[0]), r[3:]) for r in rows[1:]]
            if cg != groups:
                devs.append(dict(tag, what="CSV groups differ from the text groups", csv=[(s, [os.path.basename(x) for x in f]) for s, f in cg][:3]))
            for r in rows[1:]:
                if int(r[2]) != len(r[3:]):
                    devs.append(dict(tag, what="CSV count column %s != %d paths" % (r[2], len(r[3:]))))
        except Exception as e:  # noqa
            devs.append(dict(tag, what="CSV not parseable: %s" % e))
        # fdupes
        fg = [b.split("\n") for b in res[("fdupes", False)].strip("\n").split("\n\n")] if res.get(("fdupes", False), "").strip() else []
        if fg != [f for _, f in groups]:
            devs.append(dict(tag, what="fdupes groups differ from the text groups"))
    # very large (sparse) files: the order is by decreasing size also above 4 GiB (only prefixes / suffixes are read)
    big = os.path.join(d, "big")
    os.makedirs(big)
    try:
        for i, size in enumerate((4 * 2 ** 30 + 7, 4 * 2 ** 30, 4 * 2 ** 30 - 1, 8 * 2 ** 30 + 4096, 1048576, 12)):
            for n in ("a", "b"):
                pth = os.path.join(big, "s%d_%s" % (i, n))
                with open(pth, "wb") as f:
                    f.write(b"head%d" % i)
                os.truncate(pth, size)
        for fmt in ("default", "json"):
            r = subprocess.run([binary, "group", "--skip-content-hash", "-f", fmt, big], stdout=subprocess.PIPE, stderr=subprocess.PIPE, env=env, timeout=300, cwd=d)
            runs += 1
            out = r.stdout.decode(errors="replace")
            if fmt == "json":
                sizes = [g["file_len"] for g in json.loads(out)["groups"]]
            else:
                sizes = [sz for sz, cnt, files in parse_text(out)[1]]
            if sizes != sorted(sizes, reverse=True) or len(sizes) != 6:
                devs.append({"options": ["--skip-content-hash"], "format": fmt, "what": "groups of very large files not ordered by decreasing size: %s" % sizes})
    except OSError as e:
        pass        # no sparse-file support here: scenario skipped
    print(json.dumps({"runs": runs, "n": len(devs), "deviations": devs[:8]}))
    shutil.rmtree(d, ignore_errors=True)


if __name__ == "__main__":
    main()
