// Native driver for the matching half of C16 (injected as a cfg(test) child module of pattern.rs; the accessor
// `crate::regex::verif_regex_parts::parts` is injected into regex.rs).  Cases (one per line):
//   G <glob hex> <ci 0|1>                  -> "OK <anchored regex hex> <prefix regex hex> <fixed prefix hex> <ci>" | "ERR"
//   R <regex hex> <ci>                     -> the same for Pattern::regex_with
//   L <text hex>                           -> the same for Pattern::literal
//   M <G|R|L> <pattern hex> <ci> <path hex>.. -> per path "<matches><matches_partially><matches_prefix><matches_path>" | "ERR"
//   P <G|R|L> <pattern hex> <ci> <dir hex>..  -> per dir "<matches_partially>:<witness ext hex | e | ->" (ext: <= 3 chars such that
//                                                 matches(dir + ext), i.e. the directory is an ancestor of a matching path)
use super::*;
use crate::regex::verif_regex_parts::parts;

pub(crate) fn unhex(s: &str) -> Vec<u8> {
    if s == "-" {
        return vec![];
    }
    (0..s.len() / 2).map(|i| u8::from_str_radix(&s[2 * i..2 * i + 2], 16).unwrap()).collect()
}

fn hex(b: &[u8]) -> String {
    if b.is_empty() {
        return "-".to_string();
    }
    b.iter().map(|x| format!("{:02x}", x)).collect()
}

pub(crate) fn opts(ci: bool) -> PatternOpts {
    if ci {
        PatternOpts::case_insensitive()
    } else {
        PatternOpts::default()
    }
}

fn build(kind: &str, text: &str, ci: bool) -> Option<Pattern> {
    match kind {
        "G" => Pattern::glob_with(text, &opts(ci)).ok(),
        "R" => Pattern::regex_with(text, &opts(ci)).ok(),
        _ => Some(Pattern::literal(text)),
    }
}

pub(crate) fn describe(p: &Pattern) -> String {
    let (a, aci) = parts(&p.anchored_regex);
    let (pr, _) = parts(&p.prefix_regex);
    format!("OK {} {} - {}", hex(a.as_bytes()), hex(pr.as_bytes()), if aci { 1 } else { 0 })
}

#[test]
fn verif_pattern_driver() {
    let inp = std::fs::read_to_string(std::env::var("VERIF_CASES").unwrap()).unwrap();
    let mut out = String::new();
    for line in inp.lines() {
        let f: Vec<&str> = line.split_whitespace().collect();
        if f.is_empty() {
            continue;
        }
        let res = std::panic::catch_unwind(|| match f[0] {
            "G" | "R" | "L" => {
                let text = String::from_utf8(unhex(f[1])).unwrap();
                let ci = f.len() > 2 && f[2] == "1";
                match build(f[0], &text, ci) {
                    Some(p) => describe(&p),
                    None => "ERR".to_string(),
                }
            }
            "M" => {
                let text = String::from_utf8(unhex(f[2])).unwrap();
                let ci = f[3] == "1";
                match build(f[1], &text, ci) {
                    Some(p) => f[4..]
                        .iter()
                        .map(|h| {
                            let path = String::from_utf8(unhex(h)).unwrap();
                            format!(
                                "{}{}{}{}",
                                p.matches(&path) as u8,
                                p.matches_partially(&path) as u8,
                                p.matches_prefix(&path) as u8,
                                p.matches_path(&std::path::PathBuf::from(&path)) as u8
                            )
                        })
                        .collect::<Vec<_>>()
                        .join(" "),
                    None => "ERR".to_string(),
                }
            }
            "P" => {
                let text = String::from_utf8(unhex(f[2])).unwrap();
                let ci = f[3] == "1";
                match build(f[1], &text, ci) {
                    Some(p) => {
                        let mut alpha: Vec<char> = text.chars().filter(|c| !"\\{}()[]|,!@+*?".contains(*c)).chain("xA/\u{17c}-\n".chars()).collect();
                        alpha.sort();
                        alpha.dedup();
                        f[4..]
                            .iter()
                            .map(|h| {
                                let dir = String::from_utf8(unhex(h)).unwrap();
                                let partial = p.matches_partially(&dir);
                                let mut witness: Option<String> = None;
                                let mut frontier: Vec<String> = vec![String::new()];
                                'outer: for _len in 0..4 {
                                    let mut next = vec![];
                                    for ext in &frontier {
                                        if p.matches(&format!("{}{}", dir, ext)) {
                                            witness = Some(ext.clone());
                                            break 'outer;
                                        }
                                        for c in &alpha {
                                            let mut e = ext.clone();
                                            e.push(*c);
                                            next.push(e);
                                        }
                                    }
                                    frontier = next;
                                }
                                let w = match witness {
                                    Some(e) if e.is_empty() => "e".to_string(),
                                    Some(e) => hex(e.as_bytes()),
                                    None => "-".to_string(),
                                };
                                format!("{}:{}", partial as u8, w)
                            })
                            .collect::<Vec<_>>()
                            .join(" ")
                    }
                    None => "ERR".to_string(),
                }
            }
            _ => "?".to_string(),
        });
        out.push_str(&res.unwrap_or_else(|_| "PANIC".to_string()));
        out.push('\n');
    }
    std::fs::write(std::env::var("VERIF_OUT").unwrap(), out).unwrap();
}
