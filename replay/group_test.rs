// Native driver for group.rs kernels (injected as a cfg(test) child module of group.rs).
//   PERMIT                  -> runs the real rehash on two files with a hash function that looks at the open-file semaphore:
//                              "held <n>" = permits of RLIMIT_OPEN_FILES taken while the hash function runs (minimum over the calls)
//   SP <nroots> <root hex>.. <path hex>..  -> FileGroup::sort_by_path on these paths in this order: hex of the paths in sorted order
use super::*;
use crate::rlimit::RLIMIT_OPEN_FILES;
use crate::semaphore::verif_sem_peek::available;
use std::os::unix::ffi::{OsStrExt, OsStringExt};
use std::sync::atomic::{AtomicIsize, Ordering};

fn unhex(s: &str) -> Vec<u8> {
    (0..s.len() / 2).map(|i| u8::from_str_radix(&s[2 * i..2 * i + 2], 16).unwrap()).collect()
}

fn path_of(h: &str) -> Path {
    Path::from(std::ffi::OsString::from_vec(unhex(h)))
}

#[test]
fn verif_group_driver() {
    let inp = std::fs::read_to_string(std::env::var("VERIF_CASES").unwrap()).unwrap();
    let mut out = String::new();
    for line in inp.lines() {
        let f: Vec<&str> = line.split_whitespace().collect();
        if f.is_empty() {
            continue;
        }
        let res = std::panic::catch_unwind(|| match f[0] {
            "PERMIT" => {
                let devices = DiskDevices::default();
                let mk = |inode: u64, name: &str| FileGroup {
                    file_len: FileLen(200),
                    file_hash: FileHash::from(0),
                    files: vec![FileInfo { id: FileId { device: 1, inode: inode as InodeId }, len: FileLen(200), location: 0, path: Path::from(name) }],
                };
                let before = available(&RLIMIT_OPEN_FILES);
                let min_held = AtomicIsize::new(isize::MAX);
                let _ = rehash(vec![mk(1, "file1"), mk(2, "file2")], |_| true, |_| true, &devices, FileAccess::Random, |(_, _)| {
                    let held = before - available(&RLIMIT_OPEN_FILES);
                    min_held.fetch_min(held, Ordering::SeqCst);
                    Some(FileHash::from(123456))
                });
                format!("held {}", min_held.load(Ordering::SeqCst))
            }
            "SP" => {
                let nr: usize = f[1].parse().unwrap();
                let roots: Vec<Path> = f[2..2 + nr].iter().map(|h| path_of(h)).collect();
                let files: Vec<FileInfo> = f[2 + nr..]
                    .iter()
                    .enumerate()
                    .map(|(i, h)| FileInfo { id: FileId { device: 1, inode: i as InodeId }, len: FileLen(1), location: 0, path: path_of(h) })
                    .collect();
                let mut g = FileGroup { file_len: FileLen(1), file_hash: FileHash::from(0), files };
                g.sort_by_path(&roots);
                g.files
                    .iter()
                    .map(|fi| fi.path.to_path_buf().as_os_str().as_bytes().iter().map(|b| format!("{:02x}", b)).collect::<String>())
                    .collect::<Vec<_>>()
                    .join(" ")
            }
            _ => "?".to_string(),
        });
        out.push_str(&res.unwrap_or_else(|_| "PANIC".to_string()));
        out.push('\n');
    }
    std::fs::write(std::env::var("VERIF_OUT").unwrap(), out).unwrap();
}
