// Native driver for arg.rs, injected as `arg::verif_arg` (cfg(test)) into a scratch copy.
// Reads hex-encoded byte strings (one per line) from $VERIF_ARG_CASES and prints, per line:
//   <in> | Q <hex quote(x)> | S <ok:hexwords,.. | err | panic> | E <hex to_stfu8(x) | panic> | D <ok:hex | err | panic>  (D = from_stfu8(to_stfu8(x)))
//   lines starting with `L ` hold a raw line (hex) to be split:  L <hex> -> S ...
use super::*;
use std::os::unix::ffi::{OsStrExt, OsStringExt};

fn hex(b: &[u8]) -> String {
    b.iter().map(|x| format!("{:02x}", x)).collect::<String>()
}

fn unhex(s: &str) -> Vec<u8> {
    (0..s.len() / 2).map(|i| u8::from_str_radix(&s[2 * i..2 * i + 2], 16).unwrap()).collect()
}

fn split_res(line: &str) -> String {
    let l = line.to_string();
    match std::panic::catch_unwind(move || split(&l)) {
        Ok(Ok(words)) => format!("ok:{}", words.iter().map(|w| hex(w.as_os_str().as_bytes())).collect::<Vec<_>>().join(",")),
        Ok(Err(_)) => "err".to_string(),
        Err(_) => "panic".to_string(),
    }
}

#[test]
fn verif_arg_driver() {
    let path = match std::env::var("VERIF_ARG_CASES") {
        Ok(p) => p,
        Err(_) => return,
    };
    std::panic::set_hook(Box::new(|_| {}));
    let input = std::fs::read_to_string(path).unwrap();
    let mut out = String::new();
    for line in input.lines() {
        if let Some(raw) = line.strip_prefix("L ") {
            let bytes = unhex(raw.trim());
            let s = String::from_utf8(bytes).unwrap();
            out.push_str(&format!("{} | S {}\n", line, split_res(&s)));
            continue;
        }
        let bytes = unhex(line.trim());
        let os = OsString::from_vec(bytes.clone());
        let os2 = os.clone();
        let q = std::panic::catch_unwind(move || quote(os2));
        let os3 = os.clone();
        let e = std::panic::catch_unwind(move || to_stfu8(os3));
        let qs = match &q {
            Ok(s) => hex(s.as_bytes()),
            Err(_) => "panic".to_string(),
        };
        let ss = match &q {
            Ok(s) => split_res(s),
            Err(_) => "panic".to_string(),
        };
        let (es, ds) = match &e {
            Ok(s) => {
                let s2 = s.clone();
                let d = std::panic::catch_unwind(move || from_stfu8(&s2));
                (hex(s.as_bytes()), match d {
                    Ok(Ok(o)) => format!("ok:{}", hex(o.as_bytes())),
                    Ok(Err(_)) => "err".to_string(),
                    Err(_) => "panic".to_string(),
                })
            }
            Err(_) => ("panic".to_string(), "panic".to_string()),
        };
        out.push_str(&format!("{} | Q {} | S {} | E {} | D {}\n", line.trim(), qs, ss, es, ds));
    }
    std::fs::write(std::env::var("VERIF_ARG_OUT").unwrap(), out).unwrap();
}
