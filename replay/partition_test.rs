// Native driver for dedupe::partition, injected as `dedupe::verif_partition` (cfg(test)).
// Case line:  P <dir> <rf_over|-> <mtime_limit: none|old> <name>,<name>,...     (files already exist in <dir>; keep
// pattern `keep_*`, drop pattern `*_drop_*`; both only if some name uses them)
// prints: ok keep=<names> drop=<names> | err
use super::*;
use crate::config::DedupeConfig;
use crate::file::FileHash;
use crate::log::StdLog;
use crate::pattern::Pattern;

#[test]
fn verif_partition_driver() {
    let cases = match std::env::var("VERIF_CASES") {
        Ok(p) => p,
        Err(_) => return,
    };
    let input = std::fs::read_to_string(cases).unwrap();
    let mut out = String::new();
    for line in input.lines() {
        let parts: Vec<&str> = line.split_whitespace().collect();
        if parts.len() < 5 || parts[0] != "P" {
            continue;
        }
        let dir = parts[1];
        let names: Vec<&str> = parts[4].split(',').collect();
        let mut config = DedupeConfig::default();
        if parts[2] != "-" {
            config.rf_over = Some(parts[2].parse().unwrap());
        }
        if names.iter().any(|n| n.starts_with("keep_")) {
            config.keep_name_patterns = vec![Pattern::glob("keep_*").unwrap()];
        }
        if parts.len() > 5 && parts[5] == "droppat" {
            config.name_patterns = vec![Pattern::glob("*_drop_*").unwrap()];
        }
        if parts[3] == "old" {
            // a limit in the past: every file is "modified later"
            config.modified_before = Some(DateTime::parse_from_str("2001-01-01 00:00:00.000 +0000", crate::TIMESTAMP_FMT).unwrap());
        } else if parts[3] == "t2020" {
            config.modified_before = Some(DateTime::parse_from_str("2020-01-01 00:00:00.000 +0000", crate::TIMESTAMP_FMT).unwrap());
        } else if parts[3] == "future" {
            config.modified_before = Some(DateTime::parse_from_str("2999-01-01 00:00:00.000 +0000", crate::TIMESTAMP_FMT).unwrap());
        }
        let files: Vec<PathAndMetadata> = names
            .iter()
            .map(|n| PathAndMetadata::new(Path::from(format!("{dir}/{n}"))).unwrap())
            .collect();
        let len = files[0].metadata.len();
        let group = FileGroup { file_len: len, file_hash: FileHash::from(1), files };
        let mut log = StdLog::new();
        log.no_progress = true;
        let res = std::panic::catch_unwind(std::panic::AssertUnwindSafe(|| partition(group, &config, &log)));
        let txt = match res {
            Ok(Ok(p)) => format!(
                "ok keep={} drop={}",
                p.to_keep.iter().map(|f| f.path.file_name().unwrap().to_string_lossy().to_string()).collect::<Vec<_>>().join(","),
                p.to_drop.iter().map(|f| f.path.file_name().unwrap().to_string_lossy().to_string()).collect::<Vec<_>>().join(",")
            ),
            Ok(Err(_)) => "err".to_string(),
            Err(_) => "panic".to_string(),
        };
        out.push_str(&format!("{} => {}\n", line, txt));
    }
    std::fs::write(std::env::var("VERIF_OUT").unwrap(), out).unwrap();
}
