#!/usr/bin/env python3
"""Native replay for C09: runs the real `fclones group --rf-over 0 -f json` on a fixed rich tree for a set of
option combinations and compares the listed files with a reference walker written from the documentation.
usage: walk_diff.py <fclones-binary> [json list of preferred option dicts]
prints a JSON list of deviations (empty list = the binary agrees with the reference on every combination)."""
import itertools
import json
import os
import shutil
import subprocess
import sys
import tempfile


def build_tree(d):
    base = os.path.join(d, "base")
    root = os.path.join(base, "root")
    out = os.path.join(base, "outside")
    os.makedirs(root)
    os.makedirs(out)

    def w(path, n):
        os.makedirs(os.path.dirname(path), exist_ok=True)
        with open(path, "wb") as f:
            f.write((os.path.basename(path).encode() + b"#") * 3 + b"x" * n)

    w(os.path.join(root, "f0.bin"), 10)
    w(os.path.join(root, ".h0.bin"), 11)
    w(os.path.join(root, "d1", "f1.bin"), 12)
    w(os.path.join(root, "d1", "d2", "f2.bin"), 13)
    w(os.path.join(root, "d1", "d2", "d3", "f3.bin"), 14)
    w(os.path.join(root, ".hd", "fh.bin"), 15)
    w(os.path.join(root, "ig", "ignored.bin"), 16)
    w(os.path.join(root, "ig", "kept.bin"), 17)
    with open(os.path.join(root, "ig", ".fdignore"), "w") as f:
        f.write("ignored.bin\n")
    w(os.path.join(out, "t0.bin"), 18)
    w(os.path.join(out, "od", "t1.bin"), 19)
    os.symlink(os.path.join(out, "t0.bin"), os.path.join(root, "lf.bin"))       # link to file (absolute)
    os.symlink(os.path.join(out, "od"), os.path.join(root, "d1", "ld"))         # link to dir at level 1
    os.symlink("../f0.bin", os.path.join(root, "d1", "rel.bin"))                # relative link to a file inside
    os.symlink("nowhere", os.path.join(root, "dangling"))
    # a directory link whose target is an ancestor *above* the scanned root: with -L the files next to the root become reachable
    w(os.path.join(base, "other", "b.bin"), 20)
    os.symlink(base, os.path.join(root, "d1", "d2", "up"))
    # an absolute link target that is not canonical (it runs through another directory link): the target is scanned directly as well,
    # so its files must be listed once, under their canonical paths
    os.symlink(os.path.join(root, "d1", "d2"), os.path.join(out, "alias"))
    os.symlink(os.path.join(out, "alias", "d3"), os.path.join(root, "d1", "d2", "zz_abs"))     # same nesting level as its target
    # links with innocent names whose targets are hidden / ignored files: following the link must not smuggle the target past the filters
    os.symlink(".h0.bin", os.path.join(root, "pub_link"))
    os.symlink("ignored.bin", os.path.join(root, "ig", "innocent"))
    return root


def reference(root, depth, hidden, follow, report, no_ignore):
    """Documented selection.  Returns a set of absolute paths."""
    sel = set()
    visited = set()

    def is_hidden(p):
        return os.path.basename(p).startswith(".")

    def visit_entry(p, level, ignores):
        if not hidden and is_hidden(p):
            return
        if follow:
            if p in visited:
                return
            visited.add(p)
        if not no_ignore and os.path.basename(p) in ignores:
            return
        if os.path.islink(p):
            if not (follow or report):
                return
            if not os.path.exists(p):
                return  # dangling: warning only
            tgt = os.readlink(p)
            if not os.path.isabs(tgt):
                tgt = os.path.join(os.path.dirname(p), tgt)
            if os.path.isfile(p) and report:
                sel.add(p)
                return
            if follow:
                if os.path.isfile(tgt):
                    tgt = os.path.join(os.path.realpath(os.path.dirname(tgt)), os.path.basename(tgt))
                else:
                    tgt = os.path.realpath(tgt)
                visit_entry(tgt, level, ignores)
            return
        if os.path.isfile(p):
            sel.add(p)
        elif os.path.isdir(p):
            if depth is not None and level >= depth:
                return
            ign = set(ignores)
            if not no_ignore:
                for nm in (".gitignore", ".fdignore"):
                    fp = os.path.join(p, nm)
                    if os.path.exists(fp):
                        ign |= {l.strip() for l in open(fp) if l.strip()}
                        break
            for name in sorted(os.listdir(p)):
                visit_entry(os.path.join(p, name), level + 1, ign)

    if depth == 0:
        return sel
    # the root itself is not subject to the hidden test of its own name in this tree (name `root`)
    visit_entry(os.path.realpath(root), 0, set())
    return sel


def run_cli(binary, root, d, depth, hidden, follow, report, no_ignore):
    args = [binary, "group", "--rf-over", "0", "-f", "json"]
    if depth is not None:
        args += ["--depth", str(depth)]
    if hidden:
        args.append("--hidden")
    if follow:
        args.append("--follow-links")
    if report:
        args.append("--symbolic-links")
    if no_ignore:
        args.append("--no-ignore")
    env = dict(os.environ, HOME=d, XDG_CACHE_HOME=os.path.join(d, "cache"), XDG_CONFIG_HOME=os.path.join(d, "cfg"))
    r = subprocess.run(args + [root], stdout=subprocess.PIPE, stderr=subprocess.PIPE, env=env, timeout=120)
    listed = set()
    js = json.loads(r.stdout.decode(errors="replace"))
    for g in js.get("groups", []):
        for f in g.get("files", []):
            listed.add(f)
    return listed, " ".join(args[1:])


def main():
    binary = sys.argv[1]
    preferred = json.loads(sys.argv[2]) if len(sys.argv) > 2 else []
    d = tempfile.mkdtemp(prefix="c09replay.")
    devs = []
    try:
        root = build_tree(d)
        combos = []
        for pr in preferred:
            combos.append((pr.get("depth"), bool(pr.get("hidden")), bool(pr.get("follow")), bool(pr.get("report")), bool(pr.get("no_ignore"))))
        for depth, hidden, follow, report, no_ignore in itertools.product([None, 1, 2, 3], [False, True], [False, True], [False, True], [False, True]):
            c = (depth, hidden, follow, report, no_ignore)
            if c not in combos:
                combos.append(c)
        for c in combos:
            want = reference(root, *c)
            try:
                got, cmd = run_cli(binary, root, d, *c)
            except Exception as e:
                devs.append({"options": c, "error": str(e)[:200]})
                continue
            if want != got:
                devs.append({"options": {"depth": c[0], "hidden": c[1], "follow": c[2], "report": c[3], "no_ignore": c[4]},
                             "cmd": cmd,
                             "unexpected": sorted(os.path.relpath(x, d) for x in got - want),
                             "missing": sorted(os.path.relpath(x, d) for x in want - got)})
        print(json.dumps(devs))
    finally:
        shutil.rmtree(d, ignore_errors=True)


main()
