// Native driver for util::try_sort_by_key, injected as `util::verif_sort` (cfg(test)).
use super::*;

#[test]
fn verif_sort_driver() {
    let cases = match std::env::var("VERIF_CASES") {
        Ok(p) => p,
        Err(_) => return,
    };
    let input = std::fs::read_to_string(cases).unwrap();
    let mut out = String::new();
    for line in input.lines() {
        let parts: Vec<&str> = line.split_whitespace().collect();
        if parts.len() < 2 || parts[0] != "S" {
            continue;
        }
        let n: usize = parts[1].parse().unwrap();
        // keys: all tied except a few, values remember the original position
        let mut v: Vec<(u32, usize)> = (0..n).map(|i| (if i % 17 == 3 { 0 } else { 1 }, i)).collect();
        let errs: Vec<String> = try_sort_by_key(&mut v, |x| Ok::<u32, String>(x.0));
        let mut stable = errs.is_empty();
        for w in v.windows(2) {
            if w[0].0 == w[1].0 && w[0].1 > w[1].1 {
                stable = false;
            }
        }
        out.push_str(&format!("{} => {}\n", line, if stable { "stable" } else { "unstable: elements with equal keys changed their order" }));
    }
    std::fs::write(std::env::var("VERIF_OUT").unwrap(), out).unwrap();
}
