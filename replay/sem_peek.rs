// Accessor injected into semaphore.rs (cfg(test) child module): the number of permits currently available.
use super::*;

pub(crate) fn available(s: &Semaphore) -> isize {
    *s.lock.lock().unwrap()
}
